"""ISA-1976 / ICAO standard atmosphere constants (troposphere), independent of /repo.
Source: U.S. Standard Atmosphere 1976 (NOAA-S/T 76-1562), ICAO Doc 7488."""
import math

T0_K = 288.15                 # K  (15 C, 59 F)
P0_PA = 101325.0              # Pa (1013.25 hPa)
LAPSE_K_PER_M = -0.0065       # K/m
G0 = 9.80665                  # m/s^2
M_AIR = 0.0289644             # kg/mol
R_STAR = 8.31432              # J/(mol K)   (1976 value)
GAMMA = 1.4
RHO0 = 1.2250                 # kg/m^3
EXPONENT = G0 * M_AIR / (R_STAR * -LAPSE_K_PER_M)            # 5.255876...
SOUND_COEFF = math.sqrt(GAMMA * R_STAR / M_AIR)              # 20.0468 m/s per sqrt(K)
C_TO_K = 273.15
F_TO_R = 459.67
FT = 0.3048
LB_FT3_IN_KG_M3 = 0.45359237 / FT ** 3                       # 16.018463
INHG_PA = 3386.388640341                                     # conventional inch of mercury (0 C): 25.4 mmHg

# name in constants.py -> (oracle value, relative tolerance)
CONSTANTS = {
    'cStandardHumidity': (0.0, 0.0),
    'cPressureExponent': (EXPONENT, 1e-5),
    'cDegreesCtoK': (C_TO_K, 1e-9),
    'cStandardTemperatureC': (T0_K - C_TO_K, 1e-9),
    'cLapseRateKperFoot': (LAPSE_K_PER_M * FT, 1e-5),
    'cLapseRateMetric': (LAPSE_K_PER_M, 1e-9),
    'cStandardPressureMetric': (P0_PA / 100.0, 1e-9),
    'cSpeedOfSoundMetric': (SOUND_COEFF, 1e-5),
    'cStandardDensityMetric': (RHO0, 1e-5),
    'cDensityImperialToMetric': (LB_FT3_IN_KG_M3, 1e-5),
    'cDegreesFtoR': (F_TO_R, 1e-9),
    'cStandardTemperatureF': ((T0_K - C_TO_K) * 9 / 5 + 32, 1e-9),
    'cLapseRateImperial': (LAPSE_K_PER_M * FT * 9 / 5, 1e-5),
    'cStandardPressure': (P0_PA / INHG_PA, 1e-4),            # 29.9213 inHg, shipped rounded to 29.92
    'cSpeedOfSoundImperial': (SOUND_COEFF / FT / math.sqrt(1.8), 1e-4),
    'cStandardDensity': (RHO0 / LB_FT3_IN_KG_M3, 1e-5),
}
# cross-consistency of metric / imperial twins: (expression over the constants, tolerance)
TWINS = [
    ('cLapseRateKperFoot', 'cLapseRateMetric * 0.3048', 1e-4),
    ('cLapseRateImperial', 'cLapseRateKperFoot * 9 / 5', 1e-4),
    ('cStandardTemperatureF', 'cStandardTemperatureC * 9 / 5 + 32', 1e-9),
    ('cSpeedOfSoundImperial', 'cSpeedOfSoundMetric * 3.2808399 / 1.8 ** 0.5', 1e-4),
    ('cStandardDensity', 'cStandardDensityMetric / cDensityImperialToMetric', 1e-4),
    ('cStandardPressure', 'cStandardPressureMetric * 100 / 3386.388640341', 1e-4),
    ('cDegreesFtoR', 'cDegreesCtoK * 9 / 5 - 32', 1e-9),
]
