"""The 15 preferred-unit slots and the dimension each one governs (from the documentation of
PreferredUnits: docs/concepts/units, README 'Preferred units')."""
SLOT_DIMENSION = {
    'angular': 'Angular',
    'distance': 'Distance',
    'velocity': 'Velocity',
    'pressure': 'Pressure',
    'temperature': 'Temperature',
    'diameter': 'Distance',
    'length': 'Distance',
    'weight': 'Weight',
    'adjustment': 'Angular',
    'drop': 'Distance',
    'energy': 'Energy',
    'ogw': 'Weight',
    'sight_height': 'Distance',
    'target_height': 'Distance',
    'twist': 'Distance',
}
