"""Oracle tables kept independently of /repo: SI unit definitions, ISA constants, reference
alias list, reference drag tables, slot -> dimension table, formulas of the property statements."""
