"""SI definitions of the 41 units (independent of /repo; sources: BIPM SI brochure, NIST SP 811
appendix B, international yard and pound agreement 1959, ISO 80000).

Each entry: dimension, kind, parameters as exact decimal strings.
  linear : one unit = <factor> SI base units (m, Pa, kg, m/s, J, rad)
  affine : kelvin = a * x + b
  tangent: radians = atan(x / c)
Weight's "Newton" is the weight under standard gravity g0 = 9.80665 m/s^2: 1 N = 1/9.80665 kgf.
"""
from fractions import Fraction as Fr

G0 = Fr('9.80665')
LB = Fr('0.45359237')          # kg, exact
INCH = Fr('0.0254')            # m, exact
MMHG = Fr('133.322387415')     # Pa, conventional millimetre of mercury
PI = 'pi'

SI = {
    # Angular: radians per unit (multiples of pi given as ('pi', num, den))
    'Radian': ('Angular', 'linear', Fr(1)),
    'Degree': ('Angular', 'linear_pi', Fr(1, 180)),
    'MOA': ('Angular', 'linear_pi', Fr(1, 180 * 60)),
    'Mil': ('Angular', 'linear_pi', Fr(2, 6400)),          # NATO mil: 6400 per turn
    'MRad': ('Angular', 'linear', Fr(1, 1000)),
    'Thousandth': ('Angular', 'linear_pi', Fr(2, 6000)),   # 6000 per turn
    'InchesPer100Yd': ('Angular', 'tangent', Fr(3600)),    # 100 yd = 3600 inch
    'CmPer100m': ('Angular', 'tangent', Fr(10000)),        # 100 m = 10000 cm
    'OClock': ('Angular', 'linear_pi', Fr(2, 12)),         # 12 hours per turn

    # Distance: metres per unit
    'Inch': ('Distance', 'linear', INCH),
    'Foot': ('Distance', 'linear', INCH * 12),
    'Yard': ('Distance', 'linear', INCH * 36),
    'Mile': ('Distance', 'linear', INCH * 63360),
    'NauticalMile': ('Distance', 'linear', Fr(1852)),
    'Millimeter': ('Distance', 'linear', Fr('0.001')),
    'Centimeter': ('Distance', 'linear', Fr('0.01')),
    'Meter': ('Distance', 'linear', Fr(1)),
    'Kilometer': ('Distance', 'linear', Fr(1000)),
    'Line': ('Distance', 'linear', INCH / 10),             # 1 line = 1/10 inch

    # Energy: joules per unit
    'FootPound': ('Energy', 'linear', INCH * 12 * LB * G0),   # 1.3558179483314004
    'Joule': ('Energy', 'linear', Fr(1)),

    # Pressure: pascals per unit
    'MmHg': ('Pressure', 'linear', MMHG),
    'InHg': ('Pressure', 'linear', MMHG * Fr('25.4')),
    'Bar': ('Pressure', 'linear', Fr(100000)),
    'hPa': ('Pressure', 'linear', Fr(100)),
    'PSI': ('Pressure', 'linear', LB * G0 / (INCH * INCH)),   # 6894.757293168...

    # Temperature: kelvin = a*x + b
    'Fahrenheit': ('Temperature', 'affine', (Fr(5, 9), Fr('459.67') * Fr(5, 9))),
    'Celsius': ('Temperature', 'affine', (Fr(1), Fr('273.15'))),
    'Kelvin': ('Temperature', 'affine', (Fr(1), Fr(0))),
    'Rankin': ('Temperature', 'affine', (Fr(5, 9), Fr(0))),

    # Velocity: m/s per unit
    'MPS': ('Velocity', 'linear', Fr(1)),
    'KMH': ('Velocity', 'linear', Fr(1000, 3600)),
    'FPS': ('Velocity', 'linear', INCH * 12),
    'MPH': ('Velocity', 'linear', INCH * 63360 / 3600),       # 0.44704
    'KT': ('Velocity', 'linear', Fr(1852, 3600)),

    # Weight: kilograms per unit
    'Grain': ('Weight', 'linear', LB / 7000),
    'Ounce': ('Weight', 'linear', LB / 16),
    'Gram': ('Weight', 'linear', Fr('0.001')),
    'Pound': ('Weight', 'linear', LB),
    'Kilogram': ('Weight', 'linear', Fr(1)),
    'Newton': ('Weight', 'linear', 1 / G0),
}

DIMENSIONS = ('Angular', 'Distance', 'Energy', 'Pressure', 'Temperature', 'Velocity', 'Weight')
REL_TOL = 1e-6
