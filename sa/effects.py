"""Engine C: origins (may-alias) and effects.

For every function a forward, flow-sensitive walk assigns each local a set of abstract origins

    ('param', name) | ('self',) | ('fresh', site) | ('global', module, name) | ('const',)

Loading an attribute, an element or an iteration variable from a value yields what the value may
*contain*: for parameters / self / globals that is the same origin (field-insensitive
reachability), for a fresh object it is whatever was stored into it.  Effects are the stores that
land on a non-fresh origin: attribute / element stores, in-place container methods, setattr,
``global`` rebinding.  Per-function summaries (effects on parameters / self / globals, and what
the return value may alias or contain) are iterated to a fixed point over the call graph.
"""
from __future__ import annotations

import ast
from typing import Dict, FrozenSet, Iterable, List, Optional, Set, Tuple

from .loader import ClassInfo, Func, Module, Program, dotted, norm

Origin = Tuple
MUTATORS = {'sort', 'append', 'extend', 'insert', 'remove', 'pop', 'clear', 'reverse', 'update', 'setdefault',
            'add', 'discard', 'popitem', '__setitem__', '__delitem__', '__iadd__'}
# builtins / library calls that build a new container out of their arguments' elements
REPACK = {'sorted', 'list', 'tuple', 'reversed', 'enumerate', 'zip', 'iter', 'set', 'frozenset', 'dict', 'filter', 'map',
          'copy', 'next'}
PURE_SCALAR = {'len', 'float', 'int', 'abs', 'min', 'max', 'round', 'isinstance', 'bool', 'str', 'repr', 'hash', 'sum',
               'any', 'all', 'hasattr', 'id', 'type', 'range', 'print', 'format', 'divmod', 'pow'}
DEEP_COPY = {'deepcopy', 'copy.deepcopy'}
CONST: Origin = ('const',)


class Effect:
    __slots__ = ('origin', 'field', 'module', 'line', 'func', 'text', 'chain')

    def __init__(self, origin: Origin, field: str, module: Module, line: int, func: str, text: str,
                 chain: Tuple[str, ...] = ()):
        self.origin, self.field, self.module, self.line, self.func, self.text, self.chain = \
            origin, field, module, line, func, text, chain

    def key(self):
        return (self.origin, self.field)

    def __repr__(self):
        return f'<effect {self.origin} .{self.field} at {self.module.path}:{self.line} {self.text[:40]}>'


class Summary:
    def __init__(self):
        self.effects: Dict[Tuple[Origin, str], Effect] = {}
        # shapes of the return value: a non-fresh origin, or ('freshobj', frozenset(shapes of its contents)),
        # nested to depth 3, or ('fresh*',) beyond that
        self.ret: Set[Tuple] = set()
        self.calls: Set[str] = set()

    def size(self):
        return (len(self.effects), len(self.ret))

    @property
    def ret_contents(self) -> Set[Origin]:
        """Flattened non-fresh origins reachable through fresh return values (for reports)."""
        out: Set[Origin] = set()

        def walk(sh):
            if sh[0] == 'freshobj':
                for c in sh[1]:
                    walk(c)
            elif sh[0] not in ('fresh*',):
                out.add(sh)
        for sh in self.ret:
            if sh[0] == 'freshobj':
                walk(sh)
        return out


class Effects:
    def __init__(self, prog: Program):
        self.prog = prog
        self.summaries: Dict[str, Summary] = {f.fq: Summary() for f in prog.all_funcs()}
        self.funcs: Dict[str, Func] = {f.fq: f for f in prog.all_funcs()}
        self.unresolved: Set[str] = set()
        self._by_method: Dict[str, List[Func]] = {}
        self._props: Dict[str, List[Func]] = {}
        self._setters: Dict[str, List[Func]] = {}
        for ci in prog.all_classes():
            for n, m in ci.methods.items():
                (self._props if m.is_property else self._by_method).setdefault(n, []).append(m)
            for n, m in ci.setters.items():
                self._setters.setdefault(n, []).append(m)
        self._immutable_classes = {ci.name for ci in prog.all_classes() if prog.is_namedtuple(ci)}
        self.rounds = 0
        self.solve()

    # -- fixed point -------------------------------------------------------------------
    def solve(self) -> None:
        changed = True
        while changed and self.rounds < 30:
            changed = False
            self.rounds += 1
            for fq, f in self.funcs.items():
                before = self.summaries[fq].size()
                _Walker(self, f).run()
                if self.summaries[fq].size() != before:
                    changed = True

    # -- resolution ----------------------------------------------------------------------
    def resolve_call(self, call: ast.Call, f: Func, walker: '_Walker') -> Tuple[List[Func], Optional[ast.AST], str]:
        """-> (callees, receiver expression or None, kind).  kind: func | ctor | method | external"""
        fn = call.func
        mod = f.module
        if isinstance(fn, ast.Name):
            if fn.id in walker.local_funcs:
                return [walker.local_funcs[fn.id]], None, 'func'
            r = self.prog.resolve(mod, fn.id)
            if r is not None and r[0] == 'func':
                return [r[1]], None, 'func'
            if r is not None and r[0] == 'class':
                ci = r[1]
                init = self.prog.find_method(ci, '__init__')
                post = self.prog.find_method(ci, '__post_init__')
                return [m for m in (init, post) if m is not None], None, 'ctor'
            return [], None, 'external'
        if isinstance(fn, ast.Attribute):
            recv = fn.value
            name = fn.attr
            # super().m()
            if isinstance(recv, ast.Call) and isinstance(recv.func, ast.Name) and recv.func.id == 'super' and f.cls:
                m = self.prog.find_method(f.cls, name, start_after=f.cls)
                return ([m] if m else []), ast.Name(id=f.positional[0] if f.positional else 'self', ctx=ast.Load()), 'method'
            # self.m()
            if isinstance(recv, ast.Name) and f.cls is not None and f.positional and recv.id == f.positional[0] \
                    and not f.is_static:
                cands = []
                m = self.prog.find_method(f.cls, name)
                if m is not None:
                    cands.append(m)
                for sub in self.prog.subclasses(f.cls):
                    if name in sub.methods:
                        cands.append(sub.methods[name])
                if cands:
                    return cands, recv, 'method'
            # PreferredUnits.<slot>(x) / Distance.Foot(x) / Unit.Foot(x): Unit.__call__, which converts an existing
            # quantity in place (display unit only)
            dfull = dotted(fn)
            if dfull and dfull.count('.') == 1:
                head, attr = dfull.split('.')
                r0 = self.prog.resolve(mod, head)
                if r0 is not None and r0[0] == 'class':
                    hit = self.prog.find_class_attr(r0[1], attr)
                    if hit is not None and name not in r0[1].methods:
                        _owner, (_ann, val) = hit
                        dv = dotted(val) if val is not None else None
                        if dv and dv.startswith('Unit.'):
                            ucall = self.prog.modules.get('py_ballisticcalc.unit')
                            if ucall is not None and 'Unit.__call__' in ucall.funcs:
                                return [ucall.funcs['Unit.__call__']], recv, 'method'
            # Class.m() / module.f()
            d = dotted(recv)
            if d and '.' not in d:
                r = self.prog.resolve(mod, d)
                if r is not None and r[0] == 'class':
                    m = self.prog.find_method(r[1], name)
                    if m is not None:
                        return [m], None, 'func' if (m.is_static or m.is_classmethod) else 'unbound'
                if r is not None and r[0] == 'module':
                    r2 = self.prog.resolve(r[1], name)
                    if r2 is not None and r2[0] == 'func':
                        return [r2[1]], None, 'func'
                    if r2 is not None and r2[0] == 'class':
                        init = self.prog.find_method(r2[1], '__init__')
                        return ([init] if init else []), None, 'ctor'
                if r is not None and r[0] == 'external':
                    return [], None, 'external'
            # obj.m(): by method name over the package
            cands = list(self._by_method.get(name, []))
            if cands and not (name in MUTATORS and walker.is_builtin_container(recv)):
                return cands, recv, 'method'
            return [], recv, 'external'
        return [], None, 'external'


class _Walker:
    def __init__(self, eng: Effects, f: Func):
        self.eng = eng
        self.prog = eng.prog
        self.f = f
        self.sum = eng.summaries[f.fq]
        self.env: Dict[str, Set[Origin]] = {}
        self.contents: Dict[Origin, Set[Origin]] = {}
        self.local_funcs: Dict[str, Func] = dict(f.nested)
        self.globals_declared: Set[str] = set()
        self.container_locals: Set[str] = set()
        self.field_vals: Dict[Tuple[Origin, str], Set[Origin]] = {}
        self.selfname = f.positional[0] if (f.cls is not None and f.outer is None and not f.is_static
                                           and f.positional) else None

    # -- origins -------------------------------------------------------------------------
    def run(self) -> None:
        f = self.f
        for p in f.params:
            self.env[p] = {('self',)} if p == self.selfname else {('param', p)}
        a = f.node.args
        if a.vararg:
            self.env[a.vararg.arg] = {('param', a.vararg.arg)}
        if a.kwarg:
            self.env[a.kwarg.arg] = {('param', a.kwarg.arg)}
        if f.outer is not None:
            # closure: free variables of the enclosing function are its parameters / locals: treat the enclosing
            # function's parameters as parameters of this one too
            o = f.outer
            while o is not None:
                for p in o.params:
                    if p not in self.env:
                        so = o.positional[0] if (o.cls is not None and o.outer is None and not o.is_static and o.positional) else None
                        self.env[p] = {('self',)} if p == so else {('param', p)}
                o = o.outer
        for n in ast.walk(f.node):
            if isinstance(n, ast.Global):
                self.globals_declared |= set(n.names)
        # two passes so that loop-carried bindings are seen
        for _ in range(2):
            self.block(f.node.body)

    def fresh(self, node: ast.AST) -> Origin:
        return ('fresh', f'{self.f.fq}@{getattr(node, "lineno", 0)}:{getattr(node, "col_offset", 0)}')

    def load_from(self, origins: Set[Origin]) -> Set[Origin]:
        """What may be obtained by reading a field / element out of a value with these origins."""
        out: Set[Origin] = set()
        for o in origins:
            if o[0] == 'fresh':
                out |= self.contents.get(o, set()) or {o}
            elif o[0] == 'const':
                out.add(o)
            else:
                out.add(o)
        return out

    def put_into(self, targets: Set[Origin], values: Set[Origin]) -> None:
        for o in targets:
            if o[0] == 'fresh':
                self.contents.setdefault(o, set()).update(v for v in values if v != CONST)

    def is_builtin_container(self, recv: ast.AST) -> bool:
        if isinstance(recv, (ast.List, ast.Dict, ast.Set, ast.ListComp, ast.DictComp, ast.SetComp)):
            return True
        if isinstance(recv, ast.Name) and recv.id in self.container_locals:
            return True
        return False

    def expr(self, e: Optional[ast.AST]) -> Set[Origin]:
        if e is None:
            return set()
        m = getattr(self, 'x_' + type(e).__name__, None)
        if m is not None:
            return m(e)
        out: Set[Origin] = set()
        for c in ast.iter_child_nodes(e):
            if isinstance(c, ast.expr):
                out |= self.expr(c)
        return out

    def x_Constant(self, e):
        return {CONST}

    def x_JoinedStr(self, e):
        for v in e.values:
            self.expr(v)
        return {CONST}

    def x_FormattedValue(self, e):
        self.expr(e.value)
        return {CONST}

    def x_Name(self, e):
        if e.id in self.env:
            return set(self.env[e.id])
        r = self.prog.resolve(self.f.module, e.id)
        if r is not None and r[0] == 'const':
            return {('global', r[1].name, r[2])}
        if r is not None and r[0] == 'class':
            return {('global', r[1].module.name, r[1].name)}
        return {CONST}

    def x_Attribute(self, e):
        base = self.expr(e.value)
        out = self.load_from(base)
        if isinstance(e.ctx, ast.Load):
            for o in base:
                out |= self.field_vals.get((o, e.attr), set())
        # property getters may have effects and return something else
        for m in self.eng._props.get(e.attr, []):
            if isinstance(e.ctx, ast.Load):
                out |= self.apply_summary(m, e, base, [], {}, 'method')
        return out

    def x_Subscript(self, e):
        base = self.expr(e.value)
        self.expr(e.slice)
        return self.load_from(base)

    def x_Starred(self, e):
        return self.load_from(self.expr(e.value))

    def _display(self, e, elts):
        o = self.fresh(e)
        vals: Set[Origin] = set()
        for x in elts:
            if x is not None:
                vals |= self.expr(x)
        self.put_into({o}, vals)
        return {o}

    def x_List(self, e):
        return self._display(e, e.elts)

    def x_Tuple(self, e):
        return self._display(e, e.elts)

    def x_Set(self, e):
        return self._display(e, e.elts)

    def x_Dict(self, e):
        return self._display(e, list(e.keys) + list(e.values))

    def _comp(self, e, elts):
        for g in e.generators:
            it = self.expr(g.iter)
            self.bind_iter(g.target, g.iter, it)
            for c in g.ifs:
                self.expr(c)
        return self._display(e, elts)

    def x_ListComp(self, e):
        return self._comp(e, [e.elt])

    def x_SetComp(self, e):
        return self._comp(e, [e.elt])

    def x_GeneratorExp(self, e):
        return self._comp(e, [e.elt])

    def x_DictComp(self, e):
        return self._comp(e, [e.key, e.value])

    def x_IfExp(self, e):
        self.expr(e.test)
        return self.expr(e.body) | self.expr(e.orelse)

    def x_BoolOp(self, e):
        out: Set[Origin] = set()
        for v in e.values:
            out |= self.expr(v)
        return out

    def x_NamedExpr(self, e):
        v = self.expr(e.value)
        self.bind(e.target, v)
        return v

    def x_Lambda(self, e):
        return {CONST}

    def x_BinOp(self, e):
        l, r = self.expr(e.left), self.expr(e.right)
        # operators build new values; `<<` on a quantity returns the operand itself (convert): keep both
        if isinstance(e.op, (ast.LShift,)):
            self.operator_effect(e, l, r)
            return l | r
        if isinstance(e.op, ast.RShift):
            # q >> unit resolves to AbstractDimension.get_in (an alias in the class body)
            for m in self.eng._by_method.get('get_in', []):
                self.sum.calls.add(m.fq)
                self.apply_summary(m, e, l, [r], {}, 'method')
        return {self.fresh(e)}

    def operator_effect(self, e, l, r):
        # q << unit  and  unit << q resolve to AbstractDimension.convert
        for m in self.eng._by_method.get('convert', []):
            self.sum.calls.add(m.fq)
            self.apply_summary(m, e, l | r, [set()], {}, 'method')

    def x_UnaryOp(self, e):
        self.expr(e.operand)
        return {self.fresh(e)}

    def x_Compare(self, e):
        self.expr(e.left)
        for c in e.comparators:
            self.expr(c)
        return {CONST}

    def x_Call(self, e):
        args = [self.expr(a) for a in e.args]
        kwargs = {k.arg: self.expr(k.value) for k in e.keywords}
        callees, recv, kind = self.eng.resolve_call(e, self.f, self)
        name = dotted(e.func) or norm(e.func)
        short = name.split('.')[-1]
        recv_o = self.expr(recv) if recv is not None and not isinstance(e.func, ast.Name) else set()
        if isinstance(e.func, ast.Attribute) and recv is None:
            self.expr(e.func.value)
        if callees:
            out: Set[Origin] = set()
            for m in callees:
                self.sum.calls.add(m.fq)
                out |= self.apply_summary(m, e, recv_o, args, kwargs, kind)
            if kind == 'ctor':
                o = self.fresh(e)
                vals: Set[Origin] = set()
                for a in args:
                    vals |= a
                for a in kwargs.values():
                    vals |= a
                self.put_into({o}, vals)
                return {o}
            return out or {self.fresh(e)}
        if kind == 'ctor':
            o = self.fresh(e)
            vals = set()
            for a in args + list(kwargs.values()):
                vals |= a
            self.put_into({o}, vals)
            return {o}
        # external / builtin
        if isinstance(e.func, ast.Attribute) and short in MUTATORS:
            for o in recv_o:
                self.effect(o, f'.{short}()', e)
            vals = set()
            for a in args + list(kwargs.values()):
                vals |= a
                if short in ('extend', 'update'):
                    vals |= self.load_from(a)
            self.put_into(recv_o, vals)
            if short in ('pop', 'setdefault', 'popitem'):
                return self.load_from(recv_o)
            return {CONST}
        if short in ('setattr', '__setattr__') and len(e.args) >= 2:
            tgt = args[0] if short == 'setattr' else (recv_o or args[0])
            fld = e.args[1].value if isinstance(e.args[1], ast.Constant) else '<dynamic>'
            for o in tgt:
                self.effect(o, str(fld), e)
            return {CONST}
        if short in ('delattr',) and e.args:
            for o in args[0]:
                self.effect(o, 'delattr', e)
            return {CONST}
        if name in DEEP_COPY or short == 'deepcopy':
            return {self.fresh(e)}
        if short in PURE_SCALAR and isinstance(e.func, ast.Name):
            return {CONST}
        if short in ('enumerate', 'zip') and isinstance(e.func, ast.Name):
            # an iterable of tuples of the arguments' elements
            o = self.fresh(e)
            tup = ('fresh', o[1] + '#tuple')
            vals = set()
            for a in args + list(kwargs.values()):
                vals |= self.load_from(a)
            self.put_into({tup}, vals)
            self.put_into({o}, {tup})
            return {o}
        if short in REPACK or name in ('object.__new__',):
            o = self.fresh(e)
            vals = set()
            for a in args + list(kwargs.values()):
                vals |= self.load_from(a)
            if short == 'copy' and isinstance(e.func, ast.Attribute) and not e.args:
                # x.copy(): a new container holding the receiver's elements (shallow)
                vals |= self.load_from(recv_o)
            self.put_into({o}, vals)
            return {o}
        if isinstance(e.func, ast.Attribute) and short == 'items':
            o = self.fresh(e)
            tup = ('fresh', o[1] + '#tuple')
            self.put_into({tup}, self.load_from(recv_o))
            self.put_into({o}, {tup})
            return {o}
        if isinstance(e.func, ast.Attribute) and short in ('get', 'values', 'keys', 'copy'):
            o = self.fresh(e)
            self.put_into({o}, self.load_from(recv_o))
            return {o} if short != 'get' else self.load_from(recv_o)
        if short == 'replace' and name.endswith('dataclasses.replace') or name == 'replace':
            o = self.fresh(e)
            vals = set()
            for a in args + list(kwargs.values()):
                vals |= self.load_from(a)
            self.put_into({o}, vals)
            return {o}
        self.eng.unresolved.add(name)
        # unknown callee: assume it does not mutate, result may alias receiver and arguments
        out = set(recv_o)
        for a in args + list(kwargs.values()):
            out |= a
        o = self.fresh(e)
        self.put_into({o}, self.load_from(out))
        return {o} | {x for x in out if x != CONST}

    def apply_summary(self, m: Func, site: ast.AST, recv: Set[Origin], args: List[Set[Origin]],
                      kwargs: Dict[str, Set[Origin]], kind: str) -> Set[Origin]:
        s = self.eng.summaries.get(m.fq)
        if s is None:
            return set()
        # bind parameter names to argument origins
        pos = list(m.positional)
        bound: Dict[str, Set[Origin]] = {}
        selfname = pos[0] if (m.cls is not None and m.outer is None and not m.is_static and pos) else None
        a = list(args)
        if selfname is not None:
            pos = pos[1:]
            if kind == 'unbound' and a:
                recv = a.pop(0)
            if kind == 'ctor':
                recv = {self.fresh(site)}
        for p, v in zip(pos, a):
            bound[p] = v
        for k, v in kwargs.items():
            bound[k] = v

        def translate(o: Origin) -> Set[Origin]:
            if o[0] == 'param':
                return bound.get(o[1], set())
            if o[0] == 'self':
                return recv
            if o[0] == 'fresh':
                return {self.fresh(site)}
            return {o}
        for (o, fld), eff in s.effects.items():
            for t in translate(o):
                self.effect(t, fld, site, via=eff)
        sitekey = self.fresh(site)[1]

        def closure(os: Set[Origin]) -> Set[Origin]:
            seen: Set[Origin] = set()
            todo = list(os)
            while todo:
                x = todo.pop()
                if x in seen:
                    continue
                seen.add(x)
                if x[0] == 'fresh':
                    todo += list(self.contents.get(x, ()))
            return seen

        def instantiate(shape, path: str) -> Set[Origin]:
            if shape[0] == 'freshobj':
                o = ('fresh', f'{sitekey}#{m.name}{path}')
                for i, c in enumerate(sorted(shape[1], key=repr)):
                    self.put_into({o}, instantiate(c, f'{path}.{i}'))
                return {o}
            if shape[0] == 'fresh*':
                return {('fresh', f'{sitekey}#{m.name}*')}
            if shape[0] in ('param', 'self'):
                # the argument itself or anything reachable from it (field-insensitive in the callee)
                return closure(translate(shape))
            return {shape}
        out: Set[Origin] = set()
        for sh in s.ret:
            out |= instantiate(sh, '')
        return out

    # -- effects -------------------------------------------------------------------------
    def effect(self, o: Origin, field: str, site: ast.AST, via: Optional[Effect] = None) -> None:
        if o[0] in ('fresh', 'const'):
            return
        key = (o, field)
        if key in self.sum.effects:
            return
        text = norm(site)[:100] if not isinstance(site, str) else site
        if via is not None:
            chain = (f'{self.f.qualname} line {getattr(site, "lineno", 0)}: {text[:60]}',) + via.chain
            self.sum.effects[key] = Effect(o, field, via.module, via.line, via.func, via.text, chain)
        else:
            self.sum.effects[key] = Effect(o, field, self.f.module, getattr(site, 'lineno', 0), self.f.qualname, text)

    def bind_iter(self, target: ast.AST, it_expr: ast.AST, it: Set[Origin]) -> None:
        """Loop target over an iterable.  `for a, b in zip(X, Y)` / `for i, a in enumerate(X)` with a target of the same
        arity binds position by position (a gets the elements of X only); anything else the elements of the iterable."""
        if isinstance(target, (ast.Tuple, ast.List)) and isinstance(it_expr, ast.Call) and isinstance(it_expr.func, ast.Name) \
                and it_expr.func.id in ('zip', 'enumerate') and not it_expr.keywords \
                and not any(isinstance(a, ast.Starred) for a in it_expr.args) \
                and not any(isinstance(t, ast.Starred) for t in target.elts) \
                and it_expr.func.id not in self.env:
            if it_expr.func.id == 'zip' and len(target.elts) == len(it_expr.args):
                for t, a in zip(target.elts, it_expr.args):
                    self.bind(t, self.load_from(self.expr(a)))
                return
            if it_expr.func.id == 'enumerate' and len(target.elts) == 2 and len(it_expr.args) == 1:
                self.bind(target.elts[0], {CONST})
                self.bind(target.elts[1], self.load_from(self.expr(it_expr.args[0])))
                return
        self.bind(target, self.load_from(it))

    def bind(self, target: ast.AST, origins: Set[Origin]) -> None:
        if isinstance(target, ast.Name):
            if target.id in self.globals_declared:
                self.effect(('global', self.f.module.name, target.id), '=', target)
            self.env[target.id] = set(origins) or {CONST}
        elif isinstance(target, (ast.Tuple, ast.List)):
            inner = self.load_from(origins)
            for t in target.elts:
                self.bind(t.value if isinstance(t, ast.Starred) else t, inner)
        elif isinstance(target, ast.Attribute):
            base = self.expr(target.value)
            for o in base:
                self.effect(o, target.attr, target)
                if o[0] not in ('fresh', 'const'):
                    # what this function itself parks in a field of an object it was handed (self.x = param.y) is what a
                    # later read of that field, in this function, may hand back: an alias of the caller's object
                    self.field_vals.setdefault((o, target.attr), set()).update(v for v in origins if v not in (CONST, o))
            self.put_into(base, origins)
            # property setters
            for m in self.eng._setters.get(target.attr, []):
                self.apply_summary(m, target, base, [origins], {}, 'method')
        elif isinstance(target, ast.Subscript):
            base = self.expr(target.value)
            self.expr(target.slice)
            for o in base:
                self.effect(o, '[]', target)
            self.put_into(base, origins)

    # -- statements ------------------------------------------------------------------------
    def block(self, stmts) -> None:
        for s in stmts:
            self.stmt(s)

    def stmt(self, s: ast.stmt) -> None:
        if isinstance(s, ast.Assign):
            v = self.expr(s.value)
            for t in s.targets:
                self.bind(t, v)
                if isinstance(t, ast.Name) and isinstance(s.value, (ast.List, ast.Dict, ast.Set, ast.ListComp,
                                                                   ast.DictComp, ast.SetComp)):
                    self.container_locals.add(t.id)
                elif isinstance(t, ast.Name) and isinstance(s.value, ast.Call) and \
                        (dotted(s.value.func) or '') in ('list', 'dict', 'set', 'sorted'):
                    self.container_locals.add(t.id)
        elif isinstance(s, ast.AnnAssign):
            if s.value is not None:
                self.bind(s.target, self.expr(s.value))
                if isinstance(s.target, ast.Name) and isinstance(s.value, (ast.List, ast.Dict, ast.Set, ast.ListComp)):
                    self.container_locals.add(s.target.id)
        elif isinstance(s, ast.AugAssign):
            v = self.expr(s.value)
            if isinstance(s.target, ast.Name):
                cur = self.env.get(s.target.id, set())
                ann = self._param_annotation(s.target.id)
                if ann and any(k in ann for k in ('List', 'list', 'Dict', 'dict', 'Set', 'set')):
                    for o in cur:
                        self.effect(o, '+=', s)
                self.bind(s.target, cur | {self.fresh(s)})
            else:
                self.bind(s.target, v | {self.fresh(s)})
        elif isinstance(s, ast.Expr):
            self.expr(s.value)
        elif isinstance(s, ast.Return):
            if s.value is not None:
                v = self.expr(s.value)
                for o in v:
                    if o != CONST:
                        self.sum.ret.add(self.shape_of(o, 0, ()))
        elif isinstance(s, ast.If):
            self.expr(s.test)
            before = {k: set(v) for k, v in self.env.items()}
            self.block(s.body)
            after_body = self.env
            self.env = {k: set(v) for k, v in before.items()}
            self.block(s.orelse)
            for k, v in after_body.items():
                self.env.setdefault(k, set()).update(v)
        elif isinstance(s, (ast.For, ast.AsyncFor)):
            it = self.expr(s.iter)
            for _ in range(2):
                self.bind_iter(s.target, s.iter, it)
                self.block(s.body)
            self.block(s.orelse)
        elif isinstance(s, ast.While):
            for _ in range(2):
                self.expr(s.test)
                self.block(s.body)
            self.block(s.orelse)
        elif isinstance(s, ast.Try):
            self.block(s.body)
            for h in s.handlers:
                self.block(h.body)
            self.block(s.orelse)
            self.block(s.finalbody)
        elif isinstance(s, (ast.With, ast.AsyncWith)):
            for i in s.items:
                v = self.expr(i.context_expr)
                if i.optional_vars is not None:
                    self.bind(i.optional_vars, v)
            self.block(s.body)
        elif isinstance(s, ast.Delete):
            for t in s.targets:
                if isinstance(t, ast.Attribute):
                    for o in self.expr(t.value):
                        self.effect(o, t.attr, t)
                elif isinstance(t, ast.Subscript):
                    for o in self.expr(t.value):
                        self.effect(o, '[]', t)
        elif isinstance(s, ast.Raise):
            self.expr(s.exc)
        elif isinstance(s, ast.Assert):
            self.expr(s.test)
        elif isinstance(s, (ast.FunctionDef, ast.AsyncFunctionDef)):
            pass
        elif isinstance(s, ast.ImportFrom):
            mod = self.f.module._abs_module(s.level, s.module)
            for a in s.names:
                self.env[a.asname or a.name] = {('global', mod, a.name)}
        elif isinstance(s, ast.Import):
            for a in s.names:
                self.env[a.asname or a.name.split('.')[0]] = {('global', a.name, '<module>')}
        # pass / global: nothing

    def shape_of(self, o: Origin, depth: int, seen: Tuple) -> Tuple:
        if o[0] != 'fresh':
            return o
        if depth >= 3 or o in seen:
            return ('fresh*',)
        return ('freshobj', frozenset(self.shape_of(c, depth + 1, seen + (o,)) for c in self.contents.get(o, ())
                                      if c != CONST))

    def _param_annotation(self, name: str) -> Optional[str]:
        for a in self.f.arg_nodes():
            if a.arg == name and a.annotation is not None:
                return norm(a.annotation)
        return None


def reachable(eng: Effects, roots: Iterable[Func]) -> Set[str]:
    seen: Set[str] = set()
    todo = [r.fq for r in roots]
    while todo:
        fq = todo.pop()
        if fq in seen or fq not in eng.summaries:
            continue
        seen.add(fq)
        todo += list(eng.summaries[fq].calls)
        f = eng.funcs[fq]
        for sub in f.nested.values():
            todo.append(sub.fq)
    return seen
