"""C19 - Sight click counts are the angular correction divided by the click value."""
from __future__ import annotations

import ast
from typing import Dict, List, Optional

from .. import algebra as A
from ..abseval import (Cond, Const, Ctx, EnumVal, Evaluator, Inst, NONE, Raised, Scalar, State, S, Undecided,
                       cond_leaves)
from ..check import Variant
from ..loader import AnalysisError, Program
from . import common as C

ID = 'C19'
TECHNIQUE = ('abstract evaluation of Sight.get_adjustment / _adjust_sfp_reticle_steps / get_trajectory_adjustment per '
             'focal plane and per display unit of the click (finite enumeration) to rational normal forms, compared '
             'with the three formulas; guarded-case analysis of the constructor for the three rejections')
DECIDED = [
    'R1 FFP / SFP / LWIR click formulas per axis (vertical with the vertical click and drop correction, '
    'horizontal with the horizontal click and windage correction), for every display unit of the clicks - the seven linear ones and the two tangent-based ones (inch/100yd, cm/100m): scaling the number shown in a tangent-based unit scales the tangent, not the angle, and is refuted',
    'R2 construction raises for an unknown focal plane, for SFP without calibration distance, and exactly when a '
    'click magnitude is <= 0',
    'R3 the row-based entry forwards (distance, drop_adj, windage_adj, magnification) in the right roles',
    'R1b for FFP and LWIR the click count is the ratio of the angles also when the clicks are displayed in the tangent-based units (CmPer100m, InchesPer100Yd)',
]
NOT_DECIDED = ['nothing further: linearity and sign follow from the formulas']

LINEAR_UNITS = ('Radian', 'Degree', 'MOA', 'Mil', 'MRad', 'Thousandth', 'OClock')


def _principal(v):
    if isinstance(v, Cond) and v.test.kind == 'pos' and 'pi' in v.test.rf.symbols() and isinstance(v.a, (Scalar, Cond)):
        a_leaves = [x for _p, x in cond_leaves(v.a)]
        if all(isinstance(x, Scalar) and 'mod' in x.rf.functions() for x in a_leaves):
            return _principal(v.b)
    if isinstance(v, Cond):
        return Cond(v.test, _principal(v.a), _principal(v.b))
    return v


def _mk_sight(ev, st, prog, fp: str, unit: str):
    sc = prog.cls(C.M_MUN, 'Sight')
    return ev.new_inst(st, sc, {
        'focal_plane': Const(fp),
        'scale_factor': C.mk_quantity(ev, st, prog, 'Distance', 'S', 'Meter'),
        'h_click_size': C.mk_quantity(ev, st, prog, 'Angular', 'h', unit),
        'v_click_size': C.mk_quantity(ev, st, prog, 'Angular', 'vc', unit)})


def _expected(fp: str):
    da, wa, h, vc, Sf, D, m = (A.sym(x) for x in ('da', 'wa', 'h', 'vc', 'S', 'D', 'm'))
    if fp == 'FFP':
        return da / vc, wa / h
    if fp == 'SFP':
        return da / (vc * Sf / D * m), wa / (h * Sf / D * m)
    return da / (vc / m), wa / (h / m)


def _scalar_leaves(v):
    v = _principal(v)
    return [x for _p, x in cond_leaves(v)]


def run(prog: Program, rep, thorough: bool) -> None:
    A.reset()
    rep.rule('C19.R1', 'click formulas per focal plane and axis', 6)
    rep.rule('C19.R2', 'constructor rejections', 3)
    rep.rule('C19.R3', 'row-based entry forwards the right roles', 2)
    mun = prog.module(C.M_MUN)
    from ..abseval import DictVal
    ev = Evaluator(prog, hooks={'inst_dict': lambda ev_, inst, st_: DictVal({}), **C.pref_hooks(prog)})
    ga = prog.func(C.M_MUN, 'Sight.get_adjustment')
    gta = prog.func(C.M_MUN, 'Sight.get_trajectory_adjustment')
    init = prog.func(C.M_MUN, 'Sight.__init__')
    for f in (ga, gta, init):
        rep.saw(f)
    if prog.has_func(C.M_MUN, 'Sight._adjust_sfp_reticle_steps'):
        rep.saw(prog.func(C.M_MUN, 'Sight._adjust_sfp_reticle_steps'))
    planes_v = ev.global_name(mun, 'SightFocalPlane', Ctx(mun, None, None, 0))
    try:
        planes = [x.value for x in planes_v.items]
    except AttributeError as exc:
        raise AnalysisError('SightFocalPlane is not a Literal[...] alias any more') from exc
    if sorted(planes) != ['FFP', 'LWIR', 'SFP']:
        rep.note(f'focal planes declared: {planes}')

    # ---- R1 / R3 ---------------------------------------------------------------------------
    for entry, rule in ((ga, 'C19.R1'), (gta, 'C19.R3')):
        for fp in planes:
            if fp not in ('FFP', 'SFP', 'LWIR'):
                rep.undecided(rule, entry.where, f'focal plane {fp}', 'not named by the statement')
                continue
            exp_v, exp_h = _expected(fp)
            # SFP: every linear unit and the two tangent-based ones; FFP / LWIR: a linear unit and the two tangent-based
            # ones - the count must be the ratio of the angles whatever unit the clicks display in
            units = tuple(LINEAR_UNITS) + ('CmPer100m', 'InchesPer100Yd') if (fp == 'SFP' and rule == 'C19.R1') else \
                ('Mil', 'CmPer100m', 'InchesPer100Yd') if (fp != 'SFP' and rule == 'C19.R1') else ('Mil',)
            bad: Dict[str, str] = {}
            for unit in units:
                st = State()
                sight = _mk_sight(ev, st, prog, fp, unit)
                D = C.mk_quantity(ev, st, prog, 'Distance', 'D', 'Yard')
                da = C.mk_quantity(ev, st, prog, 'Angular', 'da', 'Mil')
                wa = C.mk_quantity(ev, st, prog, 'Angular', 'wa', 'Mil')
                ev.divisors = []
                try:
                    if entry is ga:
                        r, st = ev.call_value(ga, [D, da, wa, S('m')], self_val=sight, st=st)
                    else:
                        row = C.mk_row(ev, st, prog, 'row_', {'distance': D, 'drop_adj': da, 'windage_adj': wa})
                        r, st = ev.call_value(gta, [row, S('m')], self_val=sight, st=st)
                except Undecided as exc:
                    raise AnalysisError(f'{entry.qualname} ({fp}, clicks in {unit}): {exc}') from exc
                # where the count is defined: a first-focal-plane count exists at any magnification and distance, an LWIR
                # count at any distance - nothing evaluated on the way may divide by them
                if entry is ga and fp in ('FFP', 'LWIR'):
                    free = ('D', 'm') if fp == 'FFP' else ('D',)
                    hit = [d_ for d_ in ev.divisors if any(d_.depends_on(s_) for s_ in free)]
                    if hit and 'defined' not in bad:
                        what_ = 'target distance' if hit[0].depends_on('D') else 'magnification'
                        bad['defined'] = (f'computing the {fp} count divides by {hit[0]!r}: it fails at {what_} 0 (the muzzle row of every '
                                          f'table), although the {fp} click does not depend on the {what_}')
                ref_fields = None
                if entry is gta:
                    # R3 is relative: the row-based entry must equal the direct entry on the row's own fields
                    st_r = State()
                    sight_r = _mk_sight(ev, st_r, prog, fp, unit)
                    rr, st_r = ev.call_value(ga, [C.mk_quantity(ev, st_r, prog, 'Distance', 'D', 'Yard'),
                                                  C.mk_quantity(ev, st_r, prog, 'Angular', 'da', 'Mil'),
                                                  C.mk_quantity(ev, st_r, prog, 'Angular', 'wa', 'Mil'), S('m')],
                                             self_val=sight_r, st=st_r)
                    if isinstance(rr, Inst):
                        ref_fields = {ax: _scalar_leaves(st_r.heap[rr.oid].get(ax)) for ax in ('vertical', 'horizontal')}
                for axis, exp in (('vertical', exp_v), ('horizontal', exp_h)):
                    if ref_fields is not None and len(ref_fields[axis]) == 1 and isinstance(ref_fields[axis][0], Scalar):
                        exp = ref_fields[axis][0].rf
                    problem = None
                    for _p, leaf in cond_leaves(r):
                        if not isinstance(leaf, Inst) or leaf.cls.name != 'SightClicks':
                            problem = f'returns {leaf!r}'
                            break
                        got = st.heap[leaf.oid].get(axis)
                        for g in _scalar_leaves(got):
                            if not (isinstance(g, Scalar) and g.rf.equals(exp)):
                                problem = f'{axis} clicks = {g!r}, the statement says {exp!r}'
                    if problem and axis not in bad:
                        bad[axis] = f'{problem} (clicks displayed in {unit})'
            if 'defined' in bad:
                rep.fail(rule, mun.path, entry.node.lineno, entry.qualname, f'{fp}:defined', f'{fp} sight: {bad.pop("defined")}')
            for axis in ('vertical', 'horizontal'):
                if axis in bad:
                    rep.fail(rule, mun.path, entry.node.lineno, entry.qualname, f'{fp}:{axis}',
                             f'{fp} sight: {bad[axis]}')
                elif rule == 'C19.R1':
                    rep.ok(rule, entry.where, f'{fp} {axis}: clicks = {(exp_v if axis == "vertical" else exp_h)!r}')
            if rule == 'C19.R3' and not bad:
                rep.ok(rule, entry.where, f'{fp}: row fields (distance, drop_adj, windage_adj) forwarded in order')
    rep.assume('the corrections and click sizes are angles within one turn')

    # ---- R2 ----------------------------------------------------------------------------------
    sc = prog.cls(C.M_MUN, 'Sight')

    def construct(fp, scale, h, v):
        st = State()
        args = {'focal_plane': fp, 'scale_factor': scale(st) if callable(scale) else scale,
                'h_click_size': h(st), 'v_click_size': v(st)}
        try:
            return ev.construct(sc, [], args, st, Ctx(mun, None, None, 0)), st
        except Undecided as exc:
            raise AnalysisError(f'Sight.__init__: {exc}') from exc

    hq = lambda st: C.mk_quantity(ev, st, prog, 'Angular', 'h', 'Mil')
    vq = lambda st: C.mk_quantity(ev, st, prog, 'Angular', 'vc', 'Mil')
    sq = lambda st: C.mk_quantity(ev, st, prog, 'Distance', 'S', 'Meter')
    # (1) unknown focal plane
    r, _ = construct(Const('<not a focal plane>'), sq, hq, vq)
    if all(isinstance(x, Raised) for _p, x in cond_leaves(r)):
        rep.ok('C19.R2', init.where, 'unknown focal plane raises on every path')
    else:
        rep.fail('C19.R2', mun.path, init.node.lineno, init.qualname, 'focal-plane',
                 'a Sight with a focal plane outside the declared literals can be constructed')
    # (2) SFP without calibration distance
    r, _ = construct(Const('SFP'), NONE, hq, vq)
    if all(isinstance(x, Raised) for _p, x in cond_leaves(r)):
        rep.ok('C19.R2', init.where, 'SFP without scale_factor raises on every path')
    else:
        rep.fail('C19.R2', mun.path, init.node.lineno, init.qualname, 'sfp-scale',
                 'an SFP Sight without calibration distance can be constructed')
    # (3) non-positive clicks: raise exactly when h <= 0 or vc <= 0
    problems = []
    for fp in ('FFP', 'SFP', 'LWIR'):
        r, _ = construct(Const(fp), sq, hq, vq)
        nh, nv = -A.sym('h'), -A.sym('vc')
        for path, leaf in cond_leaves(r):
            nonpos = False
            unknown = []
            for t, pol in path:
                if t.kind == 'nonneg' and (t.rf.equals(nh) or t.rf.equals(nv)):
                    nonpos = nonpos or pol
                elif t.kind == 'pos' and (t.rf.equals(A.sym('h')) or t.rf.equals(A.sym('vc'))):
                    nonpos = nonpos or (not pol)
                else:
                    unknown.append((t, pol))
            raised = isinstance(leaf, Raised)
            if unknown:
                problems.append(f'{fp}: acceptance depends on {unknown[0][0]!r}, not on click <= 0')
            elif raised != nonpos:
                problems.append(f'{fp}: {"raises" if raised else "accepts"} when '
                                f'{" and ".join(("" if pol else "not ") + repr(t) for t, pol in path)}')
        for name, neg in (('h_click_size', nh), ('v_click_size', nv)):
            seen = any(isinstance(leaf, Raised) and any(
                (t.kind == 'nonneg' and t.rf.equals(neg) and pol) or
                (t.kind == 'pos' and t.rf.equals(-neg) and not pol) for t, pol in path)
                for path, leaf in cond_leaves(r))
            if not seen:
                problems.append(f'{fp}: no rejecting path tests {name} <= 0')
    if problems:
        rep.fail('C19.R2', mun.path, init.node.lineno, init.qualname, 'click-positive',
                 'click sizes are not rejected exactly when <= 0: ' + '; '.join(sorted(set(problems))[:3]))
    else:
        rep.ok('C19.R2', init.where, 'construction raises exactly when a click magnitude is <= 0')


MUN = 'py_ballisticcalc/munition.py'
VARIANTS = [
    Variant('sfp-step-scaled-in-the-display-unit', 'break', [(MUN, '            return Angular.Radian(\n                click_size.raw_value\n                * self.scale_factor.raw_value\n                / _td.raw_value\n                * magnification\n            ) << click_size.units\n', '            return click_size.units(\n                click_size.unit_value\n                * self.scale_factor.raw_value\n                / _td.raw_value\n                * magnification\n            )\n')], 'C19.R1', 'the defect repaired by 1dc3f43: the SFP step scales the number shown in the click\'s display unit, which follows PreferredUnits.adjustment'),
    Variant('row-entry-swapped', 'break', [(MUN, 'trajectory_point.drop_adj,\n                                   trajectory_point.windage_adj,', 'trajectory_point.windage_adj,\n                                   trajectory_point.drop_adj,')], 'C19.R3', '', 'pass'),
    Variant('ffp-windage-by-vertical-click', 'break', [(MUN, 'windage_adj.raw_value / self.h_click_size.raw_value\n', 'windage_adj.raw_value / self.v_click_size.raw_value\n')], 'C19.R1', '', 'pass'),
    Variant('zero-click-accepted', 'break', [(MUN, 'if self.h_click_size.raw_value <= 0 or self.v_click_size.raw_value <= 0:', 'if self.h_click_size.raw_value < 0 or self.v_click_size.raw_value < 0:')], 'C19.R2', '', 'pass'),
    Variant('lwir-times-magnification', 'break', [(MUN, 'drop_adj.raw_value / (self.v_click_size.raw_value / magnification)', 'drop_adj.raw_value / (self.v_click_size.raw_value * magnification)')], 'C19.R1', 'positive control', 'caught'),
    Variant('sfp-target-over-scale', 'break', [(MUN, '* self.scale_factor.raw_value\n                / _td.raw_value', '* _td.raw_value\n                / self.scale_factor.raw_value')], 'C19.R1', 'positive control', 'caught'),
    Variant('only-h-click-checked', 'break', [(MUN, 'if self.h_click_size.raw_value <= 0 or self.v_click_size.raw_value <= 0:', 'if self.h_click_size.raw_value <= 0:')], 'C19.R2'),
    Variant('focal-plane-check-dropped', 'break', [(MUN, '        if focal_plane not in get_args(SightFocalPlane):\n            raise ValueError("Wrong focal plane")\n', '')], 'C19.R2'),
    Variant('sfp-scale-in-display-units', 'break', [(MUN, '* self.scale_factor.raw_value\n', '* self.scale_factor.unit_value\n')], 'C19.R1', 'calibration distance read in its display unit, target distance raw'),
    Variant('sfp-steps-swapped', 'break', [(MUN, 'return SightReticleStep(vertical=_v_step, horizontal=_h_step)', 'return SightReticleStep(_h_step, _v_step)')], 'C19.R1', 'the defect repaired by 724973c', 'pass'),
    Variant('twin-ffp-reordered', 'twin', [(MUN, 'drop_adj.raw_value / self.v_click_size.raw_value,', '(1 / self.v_click_size.raw_value) * drop_adj.raw_value,')], None),
    Variant('twin-lwir-mul', 'twin', [(MUN, 'windage_adj.raw_value / (self.h_click_size.raw_value / magnification)', 'windage_adj.raw_value * magnification / self.h_click_size.raw_value')], None),
]
