"""Necessary conditions one property borrows from the rules of a sibling property.

The 20 statements overlap: "air-relative velocity" in C01 is only meaningful with the wind C12 describes, the
"muzzle state" row of C03 is the initial state C01 describes, "building a model twice gives the same model"
(C14) fails under exactly the memoisation C10.R3 looks for.  A rule of a sibling is *imported* into a property
when - and only when - a violation of that rule, at the places the filter admits, makes the importing
property's own statement false.  The rule runs where it lives (one implementation); the importing check
re-reports its findings under the same key.

IMPORTS[importer] = [(sibling, rules, where, reason)]
  rules : tuple of rule names of the sibling
  where : None, or a regular expression searched in  "<path>|<function>|<construct>"  of a finding
  reason: why a violation there falsifies the importer's statement (goes into the DECIDED text and evidence)

An analysis error of the sibling does not become an analysis error of the importer: the imported obligations
are then *undecided* here (the sibling's own check reports the error).  A finding that is a listed known
finding of the sibling is reported by the sibling only.
"""
from __future__ import annotations

from typing import Dict, List, Optional, Tuple

Import = Tuple[str, Tuple[str, ...], Optional[str], str]

TC = r'trajectory_calc/_trajectory_calc\.py'

IMPORTS: Dict[str, List[Import]] = {
    'C01': [
        ('C12', ('C12.R1', 'C12.R2', 'C12.R3'), None,
         'the air-relative velocity of the statement is V - W with W the wind in force at the projectile: a wind '
         'segment applied out of order, a stale or dropped wind vector or a wrong vector convention makes the '
         'integrated right-hand side a different one'),
        ('C09', ('C09.R2', 'C09.R3', 'C09.R4'), None,
         'the drag function of the statement is the one C09 pins down: a curve that misses its nodes, a solver that '
         'reads it with the wrong Mach list, constant or entry gives another retardation'),
        ('C08', ('C08.R2', 'C08.R4'), r'Atmo\.get_density_factor_and_mach_for_altitude',
         'the density ratio and speed of sound at the projectile\'s altitude come from this routine'),
        ('C10', ('C10.R2',), TC,
         'solver state that survives from an earlier shot makes the trajectory the solution for another shot\'s data'),
        ('C18', ('C18.R1',), r'gravity',
         'gravity of the statement is the configured constant, unscaled'),
        ('C18', ('C18.R1', 'C18.R3'), r'calc_step|step',
         'convergence "as the maximum integration step is refined" needs the configured step to reach the time step of the loop, '
         'and the step to bound the advance'),
    ],
    'C02': [
        ('C10', ('C10.R2',), TC,
         'the search fires the same solver repeatedly: per-shot state kept across entries means the elevation is '
         'measured on another trajectory than the one fired with it'),
        ('C10', ('C10.R3',), r'barrel_elevation_for_target|set_weapon_zero|zero_angle',
         'a memoised or shared zero solution is returned for a shot it was not measured with'),
        ('C04', ('C04.R2',), r'TrajectoryCalc\.zero_angle',
         'the zero search must measure with the solver\'s own integration, limits included'),
        ('C18', ('C18.R1',), r'barrel_elevation_for_target|set_weapon_zero|zero_angle',
         '"within the calculator\'s limits" and the zero accuracy are this calculator\'s configuration'),
    ],
    'C03': [
        ('C01', ('C01.R3',), None,
         'the first row is the muzzle state: time 0, muzzle velocity along the barrel, the canted sight-height offset'),
        ('C11', ('C11.R1',), None,
         'a loop bound or state that depends on the recording schedule drops or moves the row at the requested range'),
        ('C10', ('C10.R2',), TC,
         'the first row is the muzzle state of this shot: solver state kept from an earlier shot (velocity, curve) is not'),
        ('C18', ('C18.R3',), None,
         'one row at each multiple needs every integration step to advance by no more than the configured step, which the '
         'recording step is at least as large as'),
        ('C15', ('C15.R2',), r'\[(mach|zero|clear-order|history)',
         'an event check that overwrites the row flag instead of or-ing it drops the range row due at the same sample'),
    ],
    'C04': [
        ('C05', ('C05.R4',), r'\|TrajectoryCalc\._integrate\|site\d+:speed',
         'the speed compared with the minimum-velocity limit and reported in the last row is the magnitude of the '
         'velocity'),
        ('C18', ('C18.R1',), r'Minimum|Maximum|create_interface_config|cMinimum|cMaximum',
         'the limits are those of this calculator\'s configuration, as given'),
    ],
    'C05': [
        ('C15', ('C15.R2',), r'\[history',
         'Mach and the derived columns of an event row are computed from the filter\'s previous sample, which must '
         'be the previous integration point'),
        ('C10', ('C10.R2',), TC,
         'weight, length, diameter, twist and the drag curve the columns are computed from must be those of this shot'),
        ('C09', ('C09.R3',), None, 'the Mach list and curve wired into the solver are those of this shot\'s drag model'),
        ('C08', ('C08.R2',), r'Atmo\.get_density_factor_and_mach_for_altitude|machK|machF|machC',
         'Mach of a row is its speed over the local speed of sound at the row\'s altitude, which this routine supplies'),
    ],
    'C06': [
        ('C13', ('C13.R1',), r'memo:|convert-recomputes',
         'a memoised constructor / accessor, or a conversion that recomputes the magnitude through the target unit, '
         'makes A -> B -> C differ from A -> C (stale number after `<<`, atan(tan(x)) folding, accumulated rounding)'),
    ],
    'C07': [
        ('C06', ('C06.T4',), r':stored',
         'a bare number means exactly that number in the preferred unit, zero included: the quantity built from it '
         'must store to_raw of it for every value'),
    ],
    'C08': [
        ('C10', ('C10.R3',), r'conditions\.py\|Atmo',
         'a shared or memoised atmosphere object makes one station\'s values depend on another call'),
        ('C07', ('C07.R1',), r'conditions\.py\|Atmo',
         'a zero pressure / temperature / humidity given as a bare number must be that number, not the standard value'),
    ],
    'C09': [
        ('C01', ('C01.R1',), r'\[step:vel',
         'the retardation the solver applies is Cd(Mach) K / BC at the air-relative Mach number of the step'),
    ],
    'C10': [
        ('C18', ('C18.R1',), r'interface\.py',
         'a calculator whose solver or settings are rebuilt by a later call answers differently when long used than when fresh'),
    ],
    'C11': [
        ('C03', ('C03.R4', 'C03.R5', 'C03.R7'), None,
         'what happens to a sample after the filter hands it back (merged, dropped, rebuilt after the loop) decides '
         'whether the same row is reported under another request'),
        ('C15', ('C15.R2',), r'\[(clear-order|history|reach)',
         'extra-data output contains the plain rows plus event rows only if the flags are raised and cleared per sample'),
    ],
    'C12': [
        ('C10', ('C10.R2', 'C10.R3'), r'_WindSock|Wind\b|winds|_NO_WIND|conditions\.py\|Shot',
         'a wind sock or wind object shared between shots or calls applies another shot\'s segments'),
        ('C18', ('C18.R1',), r'calc_step',
         'a step that is re-derived per shot (from its winds, say) makes a segment beyond a distance change the rows before it'),
        ('C07', ('C07.R1',), r'conditions\.py\|Wind',
         'a zero until-distance given as a bare number is that distance'),
    ],
    'C14': [
        ('C10', ('C10.R3',), r'drag_model\.py',
         'a memo or module-level store in the model builder makes the second build depend on the first'),
        ('C07', ('C07.R1', 'C07.R3', 'C07.R5'), r'drag_model\.py',
         'the Mach of a (BC, velocity) point is the velocity read in its unit'),
    ],
    'C16': [
        ('C20', ('C20.R1',), r'index_at_distance|get_at_distance',
         'the target row is the first row at or beyond the requested range; asking beyond the trajectory is an error'),
        ('C07', ('C07.R1', 'C07.R3'), r'trajectory_data/_trajectory_data\.py',
         'range and target height are read in their preferred units at the time of the call'),
    ],
    'C18': [
        ('C04', ('C04.R1',), None,
         'the velocity, drop and altitude limits govern the computation: each ends it whenever it is violated'),
    ],
    'C19': [
        ('C10', ('C10.R3',), r'munition\.py\|Sight',
         'a click count served from a store shared between sights is not a function of this sight\'s click size'),
    ],
    'C20': [
        ('C07', ('C07.R1', 'C07.R3'), r'trajectory_data/_trajectory_data\.py|helpers\.py',
         'the requested distance is compared with the rows in one unit, read at the time of the call'),
    ],
}


def decided_lines(prop_id: str) -> List[str]:
    out = []
    for sib, rules, where, reason in IMPORTS.get(prop_id, []):
        scope = '' if where is None else ' (findings located at /' + where + '/ only)'
        out.append(f'imported from {sib} as a necessary condition{scope}: {", ".join(rules)} - {reason}')
    return out
