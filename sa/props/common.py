"""Helpers shared by the property rule sets."""
from __future__ import annotations

import ast
from typing import Dict, List, Optional, Tuple

from .. import algebra as A
from ..abseval import Ctx, EnumVal, Evaluator, Inst, Scalar, State, S
from ..loader import AnalysisError, ClassInfo, Func, Module, Program, dotted, norm

M_ROOT = 'py_ballisticcalc'
M_TC = 'trajectory_calc._trajectory_calc'
M_TCI = 'trajectory_calc'
M_UNIT = 'unit'
M_COND = 'conditions'
M_MUN = 'munition'
M_DM = 'drag_model'
M_DT = 'drag_tables'
M_TD = 'trajectory_data._trajectory_data'
M_IF = 'interface'
M_IFC = 'interface_config'
M_HELP = 'helpers'
M_EXC = 'exceptions.exceptions'
M_VEC = 'vector._vector'
M_CONST = 'constants'
M_LOG = 'logger'


def unit_class(prog: Program) -> ClassInfo:
    return prog.cls(M_UNIT, 'Unit')


def unit_members(prog: Program) -> Dict[str, int]:
    u = unit_class(prog)
    out = {}
    for name in u.attr_order:
        _ann, val = u.attrs[name]
        if isinstance(val, ast.Constant) and isinstance(val.value, int) and not isinstance(val.value, bool):
            out[name] = val.value
    if len(out) < 10:
        raise AnalysisError('Unit enum has fewer than 10 integer members: cannot be read')
    return out


def enum_val(prog: Program, name: str) -> EnumVal:
    mem = unit_members(prog)
    if name not in mem:
        raise AnalysisError(f'Unit.{name} vanished')
    return EnumVal(unit_class(prog), name, mem[name])


def dimension_classes(prog: Program) -> Dict[str, ClassInfo]:
    base = prog.cls(M_UNIT, 'AbstractDimension')
    out = {c.name: c for c in prog.subclasses(base)}
    if not out:
        raise AnalysisError('no subclasses of AbstractDimension found')
    return out


def declared_units(prog: Program, ci: ClassInfo) -> Dict[str, str]:
    """class attribute name -> Unit member name, for attributes whose value is ``Unit.X``."""
    mem = unit_members(prog)
    out = {}
    for name in ci.attr_order:
        _ann, val = ci.attrs[name]
        d = dotted(val) if val is not None else None
        if d and d.startswith('Unit.') and d[5:] in mem:
            out[name] = d[5:]
    return out


def unit_of_expr(prog: Program, module: Module, node: ast.AST) -> Optional[str]:
    """``Distance.Foot`` / ``Unit.Foot`` -> 'Foot'."""
    d = dotted(node)
    if not d or '.' not in d:
        return None
    head, attr = d.rsplit('.', 1)
    ci = prog.resolve_class(module, head) if '.' not in head else None
    if ci is None:
        return None
    if ci.name == 'Unit':
        return attr if attr in unit_members(prog) else None
    for c in prog.mro(ci):
        du = declared_units(prog, c)
        if attr in du:
            return du[attr]
    return None


def dimension_of_unit(prog: Program, unit_name: str) -> Optional[str]:
    """Dimension class that declares this unit as a class attribute."""
    for name, ci in dimension_classes(prog).items():
        if unit_name in declared_units(prog, ci).values():
            return name
    return None


def mk_vec(ev: Evaluator, st: State, prog: Program, x, y, z) -> Inst:
    vec = prog.cls(M_VEC, 'Vector')
    def sc(v):
        return v if isinstance(v, Scalar) else (S(v) if isinstance(v, str) else Scalar(v))
    return ev.new_inst(st, vec, {'x': sc(x), 'y': sc(y), 'z': sc(z)})


def mk_quantity(ev: Evaluator, st: State, prog: Program, dim: str, raw, unit_name: str) -> Inst:
    ci = prog.cls(M_UNIT, dim)
    rawv = raw if isinstance(raw, Scalar) else (S(raw) if isinstance(raw, str) else Scalar(raw))
    return ev.new_inst(st, ci, {'_value': rawv, '_defined_units': enum_val(prog, unit_name)})


def raw_of(ev: Evaluator, st: State, v) -> Optional[A.RF]:
    """Raw value of a quantity instance (or the scalar itself)."""
    if isinstance(v, Inst):
        r = st.heap[v.oid].get('_value')
        if isinstance(r, Scalar):
            return r.rf
        return None
    if isinstance(v, Scalar):
        return v.rf
    return None


def fail_at(rep, rule: str, func: Optional[Func], module: Module, node, construct: str, msg: str,
            chain: Optional[List[str]] = None):
    return rep.fail(rule, module.path, getattr(node, 'lineno', 0), func.qualname if func else '<module>',
                    construct, msg, chain)


def ok_at(rep, rule: str, module: Module, node, text: str) -> None:
    rep.ok(rule, f'{module.path}:{getattr(node, "lineno", 0)}', text)


def calls_in(node: ast.AST) -> List[ast.Call]:
    return [n for n in ast.walk(node) if isinstance(n, ast.Call)]


def call_name(call: ast.Call) -> str:
    return dotted(call.func) or norm(call.func)


def fold_number(prog: Program, module: Module, node: ast.AST, depth: int = 0) -> Optional[float]:
    """Constant folding of literals, + - * / ** and names of other module constants."""
    if depth > 8:
        return None
    if isinstance(node, ast.Constant) and isinstance(node.value, (int, float)) and not isinstance(node.value, bool):
        return float(node.value)
    if isinstance(node, ast.UnaryOp) and isinstance(node.op, (ast.USub, ast.UAdd)):
        v = fold_number(prog, module, node.operand, depth + 1)
        return None if v is None else (-v if isinstance(node.op, ast.USub) else v)
    if isinstance(node, ast.BinOp) and isinstance(node.op, (ast.Add, ast.Sub, ast.Mult, ast.Div, ast.Pow)):
        l, r = fold_number(prog, module, node.left, depth + 1), fold_number(prog, module, node.right, depth + 1)
        if l is None or r is None:
            return None
        try:
            return {ast.Add: l + r, ast.Sub: l - r, ast.Mult: l * r, ast.Div: l / r if r else None,
                    ast.Pow: l ** r}[type(node.op)]
        except (OverflowError, ZeroDivisionError, ValueError):
            return None
    if isinstance(node, ast.Name):
        return const_number(prog, module, node.id, depth + 1)
    return None


def const_number(prog: Program, module: Module, name: str, depth: int = 0) -> Optional[float]:
    home = prog.const_home(module, name)
    v = prog.const_value(module, name)
    if v is None or home is None:
        return None
    return fold_number(prog, home[0], v, depth)


# --------------------------------------------------------------------------------------
# PreferredUnits: a slot is an *unknown* unit of the slot's dimension
# --------------------------------------------------------------------------------------

def pref_slots(prog: Program) -> Dict[str, str]:
    """slot name -> Unit member name of the class-level default."""
    pu = prog.cls(M_UNIT, 'PreferredUnits')
    mem = unit_members(prog)
    out = {}
    for name in pu.attr_order:
        ann, val = pu.attrs[name]
        d = dotted(val) if val is not None else None
        if ann is not None and d and d.startswith('Unit.') and d[5:] in mem:
            out[name] = d[5:]
    if len(out) < 5:
        raise AnalysisError('PreferredUnits slots cannot be read')
    return out


def pref_hooks(prog: Program) -> Dict[str, object]:
    """Evaluator hooks: ``PreferredUnits.<slot>`` is an opaque unit.  Applying it to a quantity runs
    the analysed ``Unit.__call__`` (which only rewrites the display unit); applying it to a bare
    number yields a quantity of the slot's dimension whose magnitude is an uninterpreted function of
    the number (it depends on the setting in force)."""
    from ..abseval import Cond, Raised, SymObj, Undecided
    slots = pref_slots(prog)
    ucls = unit_class(prog)
    call = prog.func(M_UNIT, 'Unit.__call__')

    members = unit_members(prog)
    dims = dimension_classes(prog)

    def classattr(ev, owner, attr):
        # the slot holds some unit of its own dimension: range tests on it (0 <= unit < 10) are decided by that
        dim = dimension_of_unit(prog, slots[attr])
        dom = tuple(sorted(members[u] for u in declared_units(prog, dims[dim]).values())) if dim in dims else None
        return SymObj(f'PreferredUnits.{attr}', ucls, dom)

    def symcall(ev, fv, args, kwargs, st):
        if not fv.path.startswith('PreferredUnits.') or fv.path.count('.') != 1:
            return None
        slot = fv.path.split('.')[1]
        if slot not in slots or len(args) != 1:
            return None

        def one(x):
            if isinstance(x, Inst):
                return ev.call_func(call, [x], {}, st, Ctx(call.module, None, None, 1), self_val=fv)
            if isinstance(x, Scalar):
                dim = dimension_of_unit(prog, slots[slot])
                ci = prog.cls(M_UNIT, dim)
                return ev.new_inst(st, ci, {'_value': Scalar(A.fn(f'pref_to_raw[{slot}]', x.rf)), '_defined_units': fv})
            if isinstance(x, SymObj):
                return x            # an unknown quantity stays that quantity (only its display unit changes)
            raise Undecided(f'PreferredUnits.{slot} applied to {x!r}')
        return ev.lift(one, args[0])

    hooks: Dict[str, object] = {'symcall': symcall}
    for slot in slots:
        hooks[f'classattr:PreferredUnits.{slot}'] = classattr
    # reading / writing a quantity in an *unknown* unit of its own dimension: uninterpreted, mutually inverse maps
    def conv_hook(direction):
        def h(ev, func, args, kwargs, st, self_val):
            units = args[1] if len(args) > 1 else kwargs.get('units')
            value = args[0] if args else kwargs.get('value')
            if isinstance(units, SymObj) and units.path.startswith('PreferredUnits.') and isinstance(value, (Scalar, SymObj)):
                return ev.lift(lambda v_: Scalar(A.fn(f'{direction}[{units.path}]', ev.scalar(v_))), value)
            return None
        return h
    for dim in dimension_classes(prog):
        hooks[f'call:{dim}.to_raw'] = conv_hook('to_raw')
        hooks[f'call:{dim}.from_raw'] = conv_hook('from_raw')
    return hooks


# --------------------------------------------------------------------------------------
# attribute store inventory
# --------------------------------------------------------------------------------------

class Store:
    __slots__ = ('module', 'func', 'node', 'base', 'attr', 'form')

    def __init__(self, module, func, node, base, attr, form):
        self.module, self.func, self.node, self.base, self.attr, self.form = module, func, node, base, attr, form

    @property
    def base_text(self) -> str:
        return norm(self.base) if self.base is not None else '?'

    def __repr__(self):
        return f'<store {self.base_text}.{self.attr} [{self.form}] at {self.module.path}:{self.node.lineno}>'


def iter_attr_stores(prog: Program):
    """Every syntactic way the package writes an attribute: assignment / augmented / annotated /
    for-target / with-target / del, setattr(), object.__setattr__(), ``__dict__`` item stores and
    ``__dict__.update``.  ``attr`` is None when the name is not a literal."""
    from ..loader import find_func_for_node
    for mod in prog.modules.values():
        for node in ast.walk(mod.tree):
            if isinstance(node, ast.Attribute) and isinstance(node.ctx, (ast.Store, ast.Del)):
                yield Store(mod, find_func_for_node(prog, mod, node), node, node.value, node.attr,
                            'del' if isinstance(node.ctx, ast.Del) else 'assign')
            elif isinstance(node, ast.Call):
                name = dotted(node.func) or ''
                if name in ('setattr', 'object.__setattr__', 'delattr', 'object.__delattr__') and len(node.args) >= 2:
                    a = node.args[1]
                    attr = a.value if isinstance(a, ast.Constant) and isinstance(a.value, str) else None
                    yield Store(mod, find_func_for_node(prog, mod, node), node, node.args[0], attr, name)
                elif name.endswith('.__setattr__') and len(node.args) >= 2:
                    a = node.args[-2]
                    attr = a.value if isinstance(a, ast.Constant) and isinstance(a.value, str) else None
                    yield Store(mod, find_func_for_node(prog, mod, node), node, node.args[0], attr, name)
                elif isinstance(node.func, ast.Attribute) and node.func.attr in ('update', 'setdefault', '__setitem__') \
                        and isinstance(node.func.value, ast.Attribute) and node.func.value.attr == '__dict__':
                    yield Store(mod, find_func_for_node(prog, mod, node), node, node.func.value.value, None,
                                '__dict__.' + node.func.attr)
                elif isinstance(node.func, ast.Attribute) and node.func.attr in ('update', 'setdefault') \
                        and isinstance(node.func.value, ast.Call) and (dotted(node.func.value.func) or '') == 'vars':
                    yield Store(mod, find_func_for_node(prog, mod, node), node,
                                node.func.value.args[0] if node.func.value.args else None, None, 'vars().update')
            elif isinstance(node, ast.Subscript) and isinstance(node.ctx, (ast.Store, ast.Del)):
                v = node.value
                if isinstance(v, ast.Attribute) and v.attr == '__dict__':
                    s = node.slice
                    attr = s.value if isinstance(s, ast.Constant) and isinstance(s.value, str) else None
                    yield Store(mod, find_func_for_node(prog, mod, node), node, v.value, attr, '__dict__[]')
                elif isinstance(v, ast.Call) and (dotted(v.func) or '') == 'vars':
                    s = node.slice
                    attr = s.value if isinstance(s, ast.Constant) and isinstance(s.value, str) else None
                    yield Store(mod, find_func_for_node(prog, mod, node), node, v.args[0] if v.args else None, attr,
                                'vars()[]')


def fresh_object_locals(func_node: ast.AST, prog: Program, module: Module) -> Dict[str, str]:
    """local name -> class name, for locals bound exactly once in the function to
    ``object.__new__(<Class>)`` (the fast-constructor idiom)."""
    out: Dict[str, str] = {}
    counts: Dict[str, int] = {}
    for n in ast.walk(func_node):
        if isinstance(n, ast.Name) and isinstance(n.ctx, ast.Store):
            counts[n.id] = counts.get(n.id, 0) + 1
    for n in ast.walk(func_node):
        if isinstance(n, ast.Assign) and len(n.targets) == 1 and isinstance(n.targets[0], ast.Name) \
                and isinstance(n.value, ast.Call) and (dotted(n.value.func) or '') == 'object.__new__' \
                and len(n.value.args) == 1 and isinstance(n.value.args[0], ast.Name):
            name = n.targets[0].id
            ci = prog.resolve_class(module, n.value.args[0].id)
            if ci is not None and counts.get(name) == 1:
                out[name] = ci.name
    return out


def no_wrap_hooks() -> Dict[str, object]:
    """Post-processor for Angular.to_raw: keep the `angle within one turn` case of the 2*pi wrap
    (the quantifiers of the properties exclude the other one; recorded as an assumption by the rules)."""
    from ..abseval import Cond, Scalar

    def strip(ev, v):
        if isinstance(v, Cond) and v.test.kind == 'pos' and isinstance(v.a, Scalar) and 'mod' in v.a.rf.functions() \
                and 'pi' in v.test.rf.symbols():
            return strip(ev, v.b)
        if isinstance(v, Cond):
            return ev.mk_cond(v.test, strip(ev, v.a), strip(ev, v.b))
        return v
    return {'post:Angular.to_raw': strip}


def read_raw_in(ev: Evaluator, prog: Program, dim: str, raw, unit_name: str):
    """Oracle helper: the magnitude ``raw`` (RF / Scalar / symbol name) of dimension ``dim`` read in ``unit_name``
    according to the analysed ``from_raw`` table of unit.py (validated against SI by C06) - deliberately not through
    get_in / >>, so that a defect there does not distort what a rule expects.  Returns an RF."""
    from ..abseval import Cond, cond_leaves
    ci = prog.cls(M_UNIT, dim)
    f = prog.find_method(ci, 'from_raw')
    st = State()
    selfv = ev.new_inst(st, ci, {})
    rawv = raw if isinstance(raw, Scalar) else (S(raw) if isinstance(raw, str) else Scalar(raw))
    v, _ = ev.call_value(f, [rawv, enum_val(prog, unit_name)], self_val=selfv, st=st)
    if not isinstance(v, Scalar):
        raise AnalysisError(f'{dim}.from_raw(x, {unit_name}) does not fold to one normal form: {v!r}')
    return v.rf


def mk_row(ev: Evaluator, st: State, prog: Program, prefix: str, overrides: Optional[Dict[str, object]] = None) -> Inst:
    """A TrajectoryData row whose every field holds a value of its annotated type: quantities with the raw symbol
    ``<prefix><field>`` (displayed in a unit the solver does not use), plain numbers as symbols."""
    td = prog.cls(M_TD, 'TrajectoryData')
    display = {'Distance': 'Kilometer', 'Velocity': 'KMH', 'Angular': 'MOA', 'Energy': 'Joule', 'Weight': 'Kilogram'}
    fields: Dict[str, object] = {}
    for name in prog.namedtuple_fields(td):
        ann = td.attrs[name][0]
        names = [n.id for n in ast.walk(ann) if isinstance(n, ast.Name)] if ann is not None else []
        dim = next((n for n in names if n in display), None)
        if dim is not None:
            fields[name] = mk_quantity(ev, st, prog, dim, f'{prefix}{name}', display[dim])
        else:
            fields[name] = S(f'{prefix}{name}')
    fields.update(overrides or {})
    return ev.new_inst(st, td, fields)


# --------------------------------------------------------------------------------------
# memoising decorators: what the memoised body reads besides its arguments
# --------------------------------------------------------------------------------------

MEMO_DECORATORS = ('lru_cache', 'cache', 'cached_property')


def memo_decorator(f) -> Optional[str]:
    for d in f.decorators:
        if d.split('(')[0].split('.')[-1] in MEMO_DECORATORS:
            return d
    return None


def self_field_reads(prog: Program, ci: ClassInfo, func, seen: Optional[set] = None) -> set:
    """Instance fields read by func, transitively through self.method() / self.property."""
    seen = seen if seen is not None else set()
    if func.fq in seen:
        return set()
    seen.add(func.fq)
    me = func.positional[0] if func.positional else 'self'
    out = set()
    for n in ast.walk(func.node):
        if isinstance(n, ast.Attribute) and isinstance(n.value, ast.Name) and n.value.id == me and isinstance(n.ctx, ast.Load):
            m = prog.find_method(ci, n.attr)
            if m is not None:
                out |= self_field_reads(prog, ci, m, seen)
            elif prog.find_class_attr(ci, n.attr) is None or True:
                out.add(n.attr)
    return out


def fields_written_after_init(prog: Program, ci: ClassInfo) -> Dict[str, str]:
    """field -> the method / setter that stores it, for stores outside __init__ / __post_init__ (self.f = ...), plus
    the public plain attributes of the class: anything a caller may assign after construction."""
    out: Dict[str, str] = {}
    for c in prog.mro(ci):
        for nm, m in list(c.methods.items()) + list(c.setters.items()):
            if nm in ('__init__', '__post_init__', '__new__'):
                continue
            me = m.positional[0] if m.positional else 'self'
            for n in ast.walk(m.node):
                if isinstance(n, ast.Attribute) and isinstance(n.ctx, ast.Store) and isinstance(n.value, ast.Name) and n.value.id == me:
                    out.setdefault(n.attr, m.qualname)
    init = prog.find_method(ci, '__init__')
    if init is not None:
        me = init.positional[0]
        for n in ast.walk(init.node):
            if isinstance(n, ast.Attribute) and isinstance(n.ctx, ast.Store) and isinstance(n.value, ast.Name) and n.value.id == me \
                    and not n.attr.startswith('_'):
                out.setdefault(n.attr, 'the caller (public attribute)')
    return out


def reads_preferred_units(prog: Program, func, depth: int = 2, seen: Optional[set] = None) -> Optional[str]:
    """`PreferredUnits.<x>` read by func or by package functions it calls by name (to the given depth)."""
    seen = seen if seen is not None else set()
    if func.fq in seen:
        return None
    seen.add(func.fq)
    for n in ast.walk(func.node):
        if isinstance(n, ast.Attribute) and isinstance(n.value, ast.Name) and n.value.id == 'PreferredUnits':
            return f'{func.qualname} reads PreferredUnits.{n.attr}'
    if depth <= 0:
        return None
    for n in ast.walk(func.node):
        if isinstance(n, ast.Call) and isinstance(n.func, ast.Name):
            r = prog.resolve(func.module, n.func.id)
            if r and r[0] == 'func':
                hit = reads_preferred_units(prog, r[1], depth - 1, seen)
                if hit:
                    return hit
    return None
