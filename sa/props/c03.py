"""C03 - Range card has exactly one row at every requested distance, muzzle to range (thin)."""
from __future__ import annotations

import ast
import re
from fractions import Fraction
from typing import Dict, List, Optional, Tuple

from .. import algebra as A
from ..abseval import (Cond, Const, Ctx, Evaluator, Inst, Leaf, Lst, NONE, Raised, Scalar, State, S, SymObj, Tup, Undecided,
                       cond_leaves, leaves)
from ..check import Variant
from ..loader import AnalysisError, Program, dotted, norm, parent
from . import common as C
from .c15 import _flags, _mk_filter
from .flow import IntegrateFacts

ID = 'C03'
TECHNIQUE = ('abstract evaluation of Calculator.fire (default step), of the interpolation branch of '
             'should_record (rational identity: the recorded x is the record distance) and of should_record '
             'on the initial state; a value-class lattice over reaching definitions for every store of the '
             'record distance (zero / the step / distance + whole steps / integer / anything); dominance of '
             'the recording call over the state updates')
DECIDED = [
    'R1 with no step given the step handed to the solver is range / 10 (same magnitude scale); a given step '
    'is coerced with the distance slot; range and step reach the solver in the slots of the same name',
    'R2 a range row lies exactly on its multiple: the interpolated position has x = next_record_distance as a'
    ' rational identity; the record distance is 0 at construction and every other store, through whatever '
    'locals, keeps it a multiple of range_step (induction over all stores); the row is flagged RANGE',
    'R3 the muzzle row is the initial state: should_record runs before any update of time, position or '
    'velocity in an iteration, and on the initial state (x = 0, t = 0) it returns exactly (time, position, '
    'velocity, mach) given',
    'R4 a time row is due exactly when time > time of the last record + time step, is flagged RANGE, and the '
    'test runs whenever no range row is due',
    'R5 no row is created outside the recording call, rows that leave only inside an exception (the card of '
    'an abnormal stop) and the after-loop fallback, whose guard is false (evaluated) as soon as the card has '
    'two rows: nothing appends the final integration state, which lies on no multiple of the step, to an '
    'ordinary card',
    'R6 the loop runs while x <= range + m with m (read from the condition and the definitions reaching it, '
    'evaluated at sample launch / look angles) at least the integration step whenever the recording step is: '
    'the sample that reaches the requested range is still examined',
    'R7 one symbolic iteration of the integration loop with a row already on the card and the filter handing '
    'back a sample: on every outcome that does not raise the card is the earlier row (the same object) '
    'followed by exactly one new row built from the sample - a sample merged into or dropped in favour of an '
    'earlier row is refuted',
]
NOT_DECIDED = [
    'the number of rows, one row per multiple, strict monotonicity, the behaviour of the loop bound under '
    'head / tail wind, the time-step spacing bound: all depend on the runtime sequence of integration points',
]


def run(prog: Program, rep, thorough: bool) -> None:
    A.reset()
    rep.rule('C03.R1', 'default step = range / 10; slots', 4)
    rep.rule('C03.R2', 'range row exactly on its multiple', 4)
    rep.rule('C03.R3', 'muzzle row is the initial state', 2)
    rep.rule('C03.R4', 'time-step rows: due test and clock', 2)
    tc = prog.module(C.M_TC)
    ifm = prog.module(C.M_IF)
    fire = prog.func(C.M_IF, 'Calculator.fire')
    rep.saw(fire)
    captured: List = []

    def traj_hook(ev_, func, args, kwargs, st, self_val):
        captured.append((list(args), dict(kwargs)))
        return SymObj('rows')
    ev = Evaluator(prog, hooks={'call:TrajectoryCalc.trajectory': traj_hook, **C.pref_hooks(prog)})
    calc_c = prog.cls(C.M_IF, 'Calculator')

    def run_fire(step_val):
        captured.clear()
        st = State()
        calc = ev.new_inst(st, calc_c, {'_calc': ev.new_inst(st, prog.cls(C.M_TC, 'TrajectoryCalc'), {}), '_config': NONE})
        shot = SymObj('shot')
        rq = C.mk_quantity(ev, st, prog, 'Distance', 'R', 'Yard')
        kw = {'shot': shot, 'trajectory_range': rq, 'extra_data': Const(False), 'time_step': Scalar(0)}
        if step_val is not None:
            kw['trajectory_step'] = step_val(st)
        try:
            ev.call_value(fire, [], kw, self_val=calc, st=st)
        except Undecided as exc:
            raise AnalysisError(f'Calculator.fire: {exc}') from exc
        return st, list(captured)
    st, calls = run_fire(None)
    ok = False
    detail = ''
    if len(calls) == 1 and len(calls[0][0]) >= 3:
        a = calls[0][0]
        rng, step = a[1], a[2]
        r_raw, s_raw = C.raw_of(ev, st, rng), C.raw_of(ev, st, step)
        detail = f'range {r_raw!r}, step {s_raw!r}'
        ok = r_raw is not None and s_raw is not None and r_raw.equals(A.sym('R')) and s_raw.equals(A.sym('R') / 10)
    if ok:
        rep.ok('C03.R1', fire.where, 'no step given: step = range / 10 (raw magnitudes)')
    else:
        rep.fail('C03.R1', ifm.path, fire.node.lineno, fire.qualname, 'default-step',
                 f'with no step given the solver receives {detail}; the statement says one tenth of the range (11 rows)')
    st, calls = run_fire(lambda st_: C.mk_quantity(ev, st_, prog, 'Distance', 'Sx', 'Meter'))
    ok = len(calls) == 1 and len(calls[0][0]) >= 3 and (C.raw_of(ev, st, calls[0][0][2]) or A.rf(0)).equals(A.sym('Sx')) \
        and (C.raw_of(ev, st, calls[0][0][1]) or A.rf(0)).equals(A.sym('R'))
    if ok:
        rep.ok('C03.R1', fire.where, 'a given step reaches the solver with its own magnitude')
    else:
        rep.fail('C03.R1', ifm.path, fire.node.lineno, fire.qualname, 'given-step',
                 'a step given as a quantity does not reach the solver unchanged')
    # a bare-number step means that number in the preferred distance unit, whatever unit the range is displayed in
    st, calls_b = run_fire(lambda st_: Scalar(A.sym('sb')))
    okb = False
    detail_b = ''
    if calls_b and all(len(c_[0]) >= 3 for c_ in calls_b):
        # two paths: sb == 0 is the declared "not given" sentinel (default step), otherwise the number is coerced
        raws = [C.raw_of(ev, st, c_[0][2]) for c_ in calls_b]
        detail_b = repr(raws)
        want_b = A.fn('pref_to_raw[distance]', A.sym('sb'))
        okb = all(r_ is not None and (r_.equals(want_b) or r_.equals(A.sym('R') / 10)) for r_ in raws) \
            and any(r_ is not None and r_.equals(want_b) for r_ in raws)
    if okb:
        rep.ok('C03.R1', fire.where, 'a bare-number step is read in the preferred distance unit')
    else:
        rep.fail('C03.R1', ifm.path, fire.node.lineno, fire.qualname, 'bare-step',
                 f'a bare-number step sb reaches the solver as {detail_b}; the statement (and C07) read it in the preferred '
                 f'distance unit, independently of the unit the range happens to be displayed in')
    # slots in trajectory() -> _integrate checked by C11.R1; here: fire's extra_data / time_step forwarded
    a = calls[0][0] if calls else []
    if len(a) >= 5 and isinstance(a[3], Const) and a[3].value is False and isinstance(a[4], Scalar) and a[4].rf.is_zero():
        rep.ok('C03.R1', fire.where, 'extra_data and time_step forwarded in their own slots')
    else:
        rep.fail('C03.R1', ifm.path, fire.node.lineno, fire.qualname, 'slots',
                 f'fire does not forward (shot, range, step, extra_data, time_step) in order: {a!r}'[:200])

    # ---- R2 ------------------------------------------------------------------------------------
    sr = prog.func(C.M_TC, '_TrajectoryDataFilter.should_record')
    rep.saw(sr)
    ev2 = Evaluator(prog, opaque={'check_zero_crossing', 'check_mach_crossing', 'check_next_time'})
    flags = _flags(prog, ev2)
    st = State()
    flt = _mk_filter(ev2, st, prog, filter=Scalar(flags['RANGE']))
    pos = C.mk_vec(ev2, st, prog, 'qx', 'qy', 'qz')
    vel = C.mk_vec(ev2, st, prog, 'ux', 'uy', 'uz')
    try:
        tree, st = ev2.run_func(sr, {sr.positional[0]: flt, sr.positional[1]: pos, sr.positional[2]: vel,
                                     sr.positional[3]: S('am'), sr.positional[4]: S('tm')}, st)
    except Undecided as exc:
        raise AnalysisError(f'should_record: {exc}') from exc
    interp = 0
    problems = []
    for path, leaf in leaves(tree):
        if leaf.kind != 'return' or not isinstance(leaf.value, Inst):
            continue
        h = leaf.state.heap
        d = h[leaf.value.oid]
        p = d.get('position')
        if not isinstance(p, Inst):
            continue
        px = h[p.oid].get('x')
        if not isinstance(px, Scalar):
            continue
        if px.rf.equals(A.sym('qx')):
            continue          # the un-interpolated fallback (event or muzzle row)
        interp += 1
        nrd_after = h[flt.oid].get('next_record_distance')
        rs = A.sym('rs')
        if isinstance(nrd_after, Scalar):
            lp, ln = ({A.ATOMS[a_].name for a_ in r_.all_atoms() if "@loop" in str(A.ATOMS[a_].name)} for r_ in (px.rf, nrd_after.rf))
            if lp and ln and lp != ln:
                # the row and the stored distance are carried through the catch-up loop in two different locals: how they
                # relate after the loop is an invariant of the loop, which the havoc reading of a loop does not keep
                raise AnalysisError(f'should_record: the catch-up loop carries the record distance in several variables '
                                    f'({sorted(lp | ln)}); their relation after the loop is not readable')
        elif '@loop' in repr(nrd_after):
            raise AnalysisError(f'should_record: the record distance stored after the catch-up loop is {nrd_after!r}, a value '
                                f'carried through the loop in a local; its relation to the row is not readable')
        if not (isinstance(nrd_after, Scalar) and px.rf.equals(nrd_after.rf - rs)):
            problems.append(f'the interpolated row has x = {px.rf!r} while the record distance it was made for is '
                            f'{(nrd_after.rf - rs) if isinstance(nrd_after, Scalar) else nrd_after!r}')
        fl = h[flt.oid].get('current_flag')
        if not (isinstance(fl, Scalar) and fl.rf.is_const() and int(fl.rf.const_value()) & flags['RANGE']):
            problems.append('an interpolated range row is not flagged RANGE')
        # between the two bracketing points: y and z use the same ratio (reported; an obligation only for x)
    if interp == 0:
        problems.append('no interpolated sample is produced: range rows are taken from whatever integration point '
                        'comes next (off by up to one step)')
    if problems:
        rep.fail('C03.R2', tc.path, sr.node.lineno, sr.qualname, 'on-multiple', '; '.join(sorted(set(problems))[:3]))
    else:
        rep.ok('C03.R2', sr.where, f'interpolated rows ({interp} case(s)): x = record distance exactly')
        rep.ok('C03.R2', sr.where, 'interpolated rows are flagged RANGE')
    # record distance: a multiple of the step by induction over every store (value classes over reaching definitions:
    # zero, the step, distance + n * step, integer, anything)
    from .flow import StepClasses
    fc = prog.cls(C.M_TC, '_TrajectoryDataFilter')
    bad = []
    n_st = 0
    for s_ in C.iter_attr_stores(prog):
        if s_.attr != 'next_record_distance':
            continue
        n_st += 1
        if s_.func is None or s_.form != 'assign' or not isinstance(s_.base, ast.Name):
            bad.append((s_, 'a store the rule cannot follow'))
            continue
        sc = StepClasses(prog, s_.func, s_.base.id, 'next_record_distance', 'range_step')
        cls_ = sc.store_class(s_.node)
        if s_.func.name == '__init__' and s_.func.cls is fc:
            if cls_ != 'Z':
                bad.append((s_, 'the first record distance is not 0'))
        elif cls_ not in ('Z', 'S', 'M'):
            bad.append((s_, 'not (record distance + whole steps)'))
    if n_st < 2:
        raise AnalysisError('the stores of the record distance were not found')
    if bad:
        s0, why0 = bad[0]
        rep.fail('C03.R2', s0.module.path, s0.node.lineno, s0.func.qualname if s0.func else fc.name,
                 'record-distance-store',
                 f'the record distance is set by `{norm(parent(s0.node))[:60]}` ({why0}): rows no longer fall on multiples of the step')
    else:
        rep.ok('C03.R2', f'{tc.path}:{fc.node.lineno}', f'record distance: 0 at construction, every other store keeps it a multiple '
               f'of range_step ({n_st} stores, value classes over reaching definitions)')
    F = IntegrateFacts(prog)
    rc = F.record_calls[0] if F.record_calls else None
    ctor = [c for c in ast.walk(F.func.node) if isinstance(c, ast.Call) and norm(c.func) == '_TrajectoryDataFilter']
    if len(F.func.positional) != 6:
        raise AnalysisError(f'_integrate takes {F.func.positional}: not (self, shot, range, record step, flags, time step) - which '
                            f'parameter is the record step is not readable')
    if not ctor:
        raise AnalysisError('_integrate does not build the record filter itself: the step it is given is not readable here')
    step_p = F.func.positional[3]
    kw = {k.arg: norm(k.value) for c in ctor for k in c.keywords}
    if ctor and (kw.get('range_step') == step_p or (len(ctor[0].args) > 1 and norm(ctor[0].args[1]) == step_p)):
        rep.ok('C03.R2', tc.where(ctor[0]), f'the filter records every `{step_p}` (the requested step in feet)')
    else:
        rep.fail('C03.R2', tc.path, ctor[0].lineno if ctor else F.func.node.lineno, F.func.qualname, 'filter-step',
                 f'the filter\'s range step is `{kw.get("range_step")}`, not the requested step')

    # ---- R4: time-step recording -----------------------------------------------------------------
    # should_record is evaluated whole (the elapsed-time test may live in a helper or inline) in plain mode; which
    # case a path belongs to is found by evaluating its guards at one point of every ordering of
    # (time - last record) against the time step, with no range row due.
    from .c16 import reachable_leaves
    ev5 = Evaluator(prog, opaque={'check_zero_crossing', 'check_mach_crossing'})
    st = State()
    flt5 = _mk_filter(ev5, st, prog, filter=Scalar(flags['RANGE']))
    pos5 = C.mk_vec(ev5, st, prog, 'qx', 'qy', 'qz')
    vel5 = C.mk_vec(ev5, st, prog, 'ux', 'uy', 'uz')
    try:
        tree5, st = ev5.run_func(sr, {sr.positional[0]: flt5, sr.positional[1]: pos5, sr.positional[2]: vel5,
                                      sr.positional[3]: S('am'), sr.positional[4]: S('tm')}, st)
    except Undecided as exc:
        raise AnalysisError(f'should_record: {exc}') from exc
    probs4 = []
    undec4 = []
    base_env = {'qx': 50.0, 'nrd': 100.0, 'px': 49.0, 'tlr': 2.0}
    points = [('a time step has elapsed (time = last + 1.5 step)', True, dict(base_env, rs=100.0, ts=2.0, tm=5.0)),
              ('a time step has elapsed, no distance step set', True, dict(base_env, rs=0.0, ts=2.0, tm=5.0)),
              ('exactly one time step has elapsed', False, dict(base_env, rs=100.0, ts=2.0, tm=4.0)),
              ('less than a time step has elapsed', False, dict(base_env, rs=100.0, ts=2.0, tm=3.0)),
              ('no time step set', False, dict(base_env, rs=100.0, ts=0.0, tm=50.0))]
    n_seen = 0
    for what, due, env_ in points:
        env_['pt'] = env_['tm'] - 0.001          # the previous sample is one integration step earlier
        for leaf in reachable_leaves(tree5, env_):
            if leaf.kind == 'raise':
                probs4.append(f'{what}: should_record raises')
                continue
            n_seen += 1
            h5 = leaf.state.heap[flt5.oid]
            fl, last, nrd5 = h5.get('current_flag'), h5.get('time_of_last_record'), h5.get('next_record_distance')
            if not (isinstance(nrd5, Scalar) and nrd5.rf.equals(A.sym('nrd'))):
                probs4.append(f'{what}: the record distance advances although the projectile is short of it')
                continue
            flagged = isinstance(fl, Scalar) and fl.rf.is_const() and int(fl.rf.const_value()) & flags['RANGE']
            got_row = isinstance(leaf.value, Inst)
            if due:
                if not flagged or not got_row:
                    probs4.append(f'{what} and no range row is due: ' + ('the sample is not flagged RANGE' if not flagged else
                                                                          'no row is returned') + ': time rows vanish')
                elif not (isinstance(last, Scalar) and last.rf.equals(A.sym('tm'))):
                    # an earlier clock only produces more rows (the spacing bound still holds); a later one cannot be
                    # excluded statically: reported, not failed
                    undec4.append(f'after a time row the clock becomes {last!r} instead of the current time')
            else:
                if flagged or got_row:
                    probs4.append(f'{what}: a row is recorded although none is due')
                elif not (isinstance(last, Scalar) and last.rf.equals(A.sym('tlr'))):
                    probs4.append(f'{what}: the time of the last record changes although no row is recorded')
    # the same "nothing due" cases with a crossing event flagged for the sample (which a plain request does not report):
    # still no row, and the clock must not move - a clock restarted without a row lets two rows drift more than a time
    # step apart
    def raise_event(ev_, func, args, kwargs, st_, self_val):
        h_ = ev_.hp(st_, self_val.oid)
        f_ = h_.get('current_flag')
        if isinstance(f_, Scalar) and f_.rf.is_const():
            h_['current_flag'] = Scalar(int(f_.rf.const_value()) | flags['ZERO_DOWN'])
        return NONE
    ev6 = Evaluator(prog, opaque={'check_mach_crossing'}, hooks={'call:_TrajectoryDataFilter.check_zero_crossing': raise_event})
    st6 = State()
    flt6 = _mk_filter(ev6, st6, prog, filter=Scalar(flags['RANGE']))
    try:
        tree6, st6 = ev6.run_func(sr, {sr.positional[0]: flt6, sr.positional[1]: C.mk_vec(ev6, st6, prog, 'qx', 'qy', 'qz'),
                                       sr.positional[2]: C.mk_vec(ev6, st6, prog, 'ux', 'uy', 'uz'),
                                       sr.positional[3]: S('am'), sr.positional[4]: S('tm')}, st6)
    except Undecided as exc:
        raise AnalysisError(f'should_record (a crossing flagged): {exc}') from exc
    for what, due, env_ in points:
        if due:
            continue
        for leaf in reachable_leaves(tree6, env_):
            if leaf.kind == 'raise':
                continue
            h6 = leaf.state.heap[flt6.oid]
            last6 = h6.get('time_of_last_record')
            if isinstance(leaf.value, Inst):
                probs4.append(f'{what}, a sight-line crossing flagged, plain request: a row is recorded although none is due')
            elif not (isinstance(last6, Scalar) and last6.rf.equals(A.sym('tlr'))):
                probs4.append(f'{what}, a sight-line crossing flagged that the plain request does not report: the time of the last '
                              f'record becomes {last6!r} although no row is recorded, so the next time row comes up to a full step late')
    if n_seen == 0:
        raise AnalysisError('should_record: no path read for the time-step cases')
    for u_ in sorted(set(undec4)):
        rep.undecided('C03.R4', sr.where, 'clock after a time row', u_)
    if probs4:
        rep.fail('C03.R4', tc.path, sr.node.lineno, sr.qualname, 'time-step', '; '.join(sorted(set(probs4))[:3]))
    else:
        rep.ok('C03.R4', sr.where, 'with no range row due, a time row is recorded (flag RANGE, row returned, clock restarted) exactly '
               'when time > last record + time step, also when no distance step is set')
        rep.ok('C03.R4', sr.where, 'one step exactly, less than a step, or no time step: nothing recorded, clock untouched')
    # a range row restarts the clock (reported: a clock that is not restarted only produces more rows)
    restart = []
    for leaf in reachable_leaves(tree5, dict(base_env, qx=150.0, px=140.0, rs=100.0, ts=2.0, tm=2.5)):
        if leaf.kind != 'raise':
            last = leaf.state.heap[flt5.oid].get('time_of_last_record')
            restart.append(isinstance(last, Scalar) and last.rf.equals(A.sym('tm')))
    rep.extra['range_row_restarts_time_clock'] = bool(restart) and all(restart)

    # ---- R3 ------------------------------------------------------------------------------------
    dom = F.cfg.dominators()
    if rc is None:
        raise AnalysisError('_integrate: should_record call not found')
    rn = F.cfg.node_of(rc)
    from ..cfg import defs_of
    upd = [n for n in F.cfg.nodes if F.in_loop(n) and n.kind == 'stmt' and n.ast is not None
           and set(defs_of(n)) & {F.t, F.P, F.V}]
    late = [n for n in upd if not _after(F, rn, n)]
    if late:
        rep.fail('C03.R3', tc.path, late[0].line, F.func.qualname, 'record-after-update',
                 f'`{late[0].text()[:50]}` updates the state before should_record sees it: the first row is no longer '
                 f'the muzzle state')
    else:
        rep.ok('C03.R3', tc.where(rc), f'should_record precedes all {len(upd)} state updates of an iteration')
    # should_record on the initial state returns the state itself
    st = State()
    p0 = C.mk_vec(ev2, st, prog, 0, 'y0', 'z0')
    v0 = C.mk_vec(ev2, st, prog, 'ux', 'uy', 'uz')
    flt = _mk_filter(ev2, st, prog, filter=Scalar(flags['RANGE']), previous_position=p0, previous_velocity=v0,
                     next_record_distance=Scalar(0), previous_time=Scalar(0), time_of_last_record=Scalar(0),
                     previous_mach=Scalar(0))
    try:
        tree, st = ev2.run_func(sr, {sr.positional[0]: flt, sr.positional[1]: p0, sr.positional[2]: v0,
                                     sr.positional[3]: S('am'), sr.positional[4]: Scalar(0)}, st)
    except Undecided as exc:
        raise AnalysisError(f'should_record (initial state): {exc}') from exc
    probs = []
    n_ret = 0
    for path, leaf in leaves(tree):
        step_pos = None
        for t, pol in path:
            if t.kind == 'pos' and t.rf.equals(A.sym('rs')):
                step_pos = pol
        if step_pos is not True or leaf.kind != 'return':
            continue
        n_ret += 1
        v = leaf.value
        if not isinstance(v, Inst):
            probs.append(f'with a positive step the muzzle sample is {v!r}')
            continue
        d = leaf.state.heap[v.oid]
        same = d.get('position') is p0 and d.get('velocity') is v0 and isinstance(d.get('time'), Scalar) \
            and d['time'].rf.is_zero() and isinstance(d.get('mach'), Scalar) and d['mach'].rf.equals(A.sym('am'))
        if not same:
            probs.append(f'the muzzle sample is (t={d.get("time")!r}, mach={d.get("mach")!r}, position/velocity '
                         f'{"kept" if d.get("position") is p0 else "changed"}), not the initial state')
    if probs or n_ret == 0:
        rep.fail('C03.R3', tc.path, sr.node.lineno, sr.qualname, 'muzzle-row',
                 '; '.join(sorted(set(probs))[:2]) or 'no row is produced at the muzzle')
    else:
        rep.ok('C03.R3', sr.where, 'at x = 0, t = 0 the sample returned is exactly the initial (time, position, velocity, mach)')
    check_extra_rows(prog, rep, F, 'C03.R5')
    check_sample_becomes_row(prog, rep, F, 'C03.R7')
    check_loop_margin(prog, rep, F, 'C03.R6')


def check_loop_margin(prog: Program, rep, F: IntegrateFacts, rule: str) -> None:
    """The sample that reaches the requested range is examined at the top of an iteration, so the loop must still be
    entered with it: it runs while x <= range + m, and one step advances x by up to the integration step (level flight
    in still air).  For recording steps not smaller than the integration step - the statement's quantifier - the margin
    m must therefore be at least the integration step.  m is read from the loop condition and the definitions that
    reach it, and evaluated at sample values of everything else it mentions."""
    import itertools
    import math as _m
    rep.rule(rule, 'the loop is still entered with the sample that reaches the requested range', 1)
    tc = F.mod
    ev = Evaluator(prog)
    st = State()
    tcc = prog.cls(C.M_TC, 'TrajectoryCalc')
    selfv = ev.new_inst(st, tcc, {'calc_step': S('cs'), 'barrel_elevation': S('be'), 'look_angle': S('la'),
                                  'muzzle_velocity': S('mv'), 'sight_height': S('sh')})
    params = F.func.positional
    st.env.update({params[0]: selfv, params[2]: S('R'), params[3]: S('rs'),
                   F.P: C.mk_vec(ev, st, prog, 'x', 'y', 'z')})
    # definitions reaching the loop condition, evaluated in order
    need = {n.id for n in ast.walk(F.loop.test) if isinstance(n, ast.Name)} - set(st.env)
    done = set()
    for _round in range(4):
        for name in sorted(need - done):
            defs = [d for d in F.defs_reaching(F.loop.test, name) if not F.in_loop(d)]
            if len(defs) != 1 or not isinstance(defs[0].ast, (ast.Assign, ast.AnnAssign)) or defs[0].ast.value is None:
                continue
            val = defs[0].ast.value
            more = {n.id for n in ast.walk(val) if isinstance(n, ast.Name)} - set(st.env) - {'min', 'max', 'abs', 'math'}
            if more - done:
                need |= more
                continue
            try:
                st.env[name] = ev.eval(val, st, Ctx(tc, F.func, None, 0))
                done.add(name)
            except Undecided:
                pass
    try:
        tv = ev.eval(F.loop.test, st, Ctx(tc, F.func, None, 0))
    except Undecided as exc:
        rep.undecided(rule, tc.where(F.loop), 'loop margin', f'loop condition not readable: {exc}')
        return
    if not (isinstance(tv, Cond) and tv.test.rf is not None and tv.test.kind in ('nonneg', 'pos') and isinstance(tv.a, Const)):
        rep.undecided(rule, tc.where(F.loop), 'loop margin', f'loop condition is {tv!r}: not a comparison of the distance with a bound')
        return
    rf = tv.test.rf if tv.a.value is True else -tv.test.rf          # condition holds while rf >= 0 (or > 0)
    co = rf.coeffs_in('x')
    if co is None or set(co) - {0, 1} or 1 not in co or not co[1].equals(A.rf(-1)):
        rep.undecided(rule, tc.where(F.loop), 'loop margin', f'the loop runs while {tv.test!r}: not `x <= bound`')
        return
    margin = co.get(0, A.rf(0)) - A.sym('R')
    others = sorted(margin.symbols() - {'cs', 'rs'})
    worst = None
    grid = {'be': (0.0, 0.6, 1.3), 'la': (0.0, -0.4, 0.5)}
    for rs_, combo in itertools.product((1.0, 4.0), itertools.product(*[grid.get(o, (0.5, 2.0)) for o in others])):
        env_ = {'cs': 1.0, 'rs': rs_, **dict(zip(others, combo))}
        try:
            mval = margin.evalf(env_)
        except (KeyError, ValueError, ZeroDivisionError):
            rep.undecided(rule, tc.where(F.loop), 'loop margin', f'margin {margin!r} not evaluable')
            return
        if mval < 1.0 - 1e-12 and (worst is None or mval < worst[0]):
            worst = (mval, env_)
    if worst:
        rep.fail(rule, tc.path, F.loop.lineno, F.func.qualname, 'loop-margin',
                 f'the loop runs while x <= range + {margin!r}; with an integration step of 1 and a recording step of '
                 f'{worst[1]["rs"]:g} the margin is {worst[0]:.3g} at {dict((k, v) for k, v in worst[1].items() if k not in ("cs", "rs"))}, '
                 f'less than the step: a sample can jump from short of the range to beyond the bound, the loop ends and the '
                 f'row at the requested range is never recorded (a trajectory that has flattened by then)')
    else:
        rep.ok(rule, tc.where(F.loop), f'loop margin {margin!r} >= the integration step whenever the recording step is')


TRUE_MARK = Const(True)


def check_sample_becomes_row(prog: Program, rep, F: IntegrateFacts, rule: str) -> None:
    """One symbolic iteration of the integration loop with a row already on the card and the filter handing back a
    sample: on every outcome that does not raise, the card is the earlier row - the same object - followed by exactly one
    new row built from the sample.  A sample merged into, or dropped in favour of, an earlier row loses a requested
    distance."""
    from .c01 import loop_iteration
    from .flow import DENSITY_CALL
    rep.rule(rule, 'a sample handed back by the filter becomes a row of its own', 1)
    tc = F.mod
    btd = prog.cls(C.M_TC, 'BaseTrajData') if 'BaseTrajData' in tc.classes else None

    samples: List[int] = []

    def symcall(ev_, fv, args, kwargs, st_):
        if fv.path.endswith('.' + DENSITY_CALL):
            return Tup([S('rho'), S('a')])
        if fv.path.endswith('.should_record'):
            fields = {'time': S('dt'), 'position': C.mk_vec(ev_, st_, prog, 'dx', 'dy', 'dz'),
                      'velocity': C.mk_vec(ev_, st_, prog, 'dvx', 'dvy', 'dvz'), 'mach': S('dm')}
            if btd is None:
                raise Undecided('BaseTrajData vanished')
            smp = ev_.new_inst(st_, btd, fields)
            samples.append(smp.oid)
            return smp
        return None
    ev = Evaluator(prog, hooks={'symcall': symcall, 'call:_calculate_by_curve_and_mach_list': lambda ev_, func, args, kwargs, st_, sv: S('Cd'),
                                **C.no_wrap_hooks()},
                   opaque={'create_trajectory_row', 'spin_drift'})
    earlier = SymObj('earlier_row')
    env0: Dict[str, object] = {}
    try:
        st, _selfv, tree, _w = loop_iteration(prog, F, ev, Ctx(tc, F.func, None, 0), rows_before=[earlier], env_out=env0)
    except Undecided as exc:
        raise AnalysisError(f'one iteration with a sample recorded: {exc}') from exc
    lst = env0.get('ranges')
    problems = []
    n_leaf = 0
    for _path, leaf in leaves(tree):
        holds_sample = any(isinstance(v_, Inst) and v_.oid in samples for v_ in leaf.state.env.values())
        if leaf.kind == 'raise' or not isinstance(lst, Lst) or not holds_sample:
            continue            # (a request without rows does not ask the filter at all: no sample exists on this path)
        n_leaf += 1
        items = leaf.state.heap[lst.oid]['$items']
        new_rows = [x for x in items if isinstance(x, SymObj) and x.path.startswith('create_trajectory_row')]
        if not items or items[0] is not earlier:
            problems.append(f'the row already on the card is replaced by {ev.describe(items[0]) if items else "nothing"}'[:160])
        else:
            # the row built from the sample (its time `dt` is among the arguments) comes right after the earlier row, once;
            # a further row built from the state of the step (the closing row of an abnormal stop) may follow it
            from_sample = [x for x in new_rows if re.search(r'\bdt\b', x.path)]
            if len(from_sample) != 1 or len(items) < 2 or items[1] is not from_sample[0] or len(new_rows) != len(items) - 1:
                problems.append(f'the card holds {len(items)} row(s), {len(from_sample)} of them built from the sample, after a sample was '
                                f'handed back with one row on it: the sample does not become a row of its own on some path')
    if n_leaf == 0:
        raise AnalysisError('one iteration with a sample recorded: no non-raising outcome')
    if problems:
        rep.fail(rule, tc.path, F.loop.lineno, F.func.qualname, 'sample-row', '; '.join(sorted(set(problems))[:2]) +
                 ': a requested distance can be missing from the card')
    else:
        rep.ok(rule, tc.where(F.loop), f'on all {n_leaf} outcomes of one iteration the card is the earlier row followed by one new row built from '
               f'the sample')


def check_extra_rows(prog: Program, rep, F: IntegrateFacts, rule: str) -> None:
    """Rows come from the recording call only.  A row built after the loop (from the final integration state, which
    lies on no multiple of the step) is allowed only as the fallback for a card with fewer than two rows: its guard,
    evaluated for 2, 3, 7 and 100 rows already present, must be false."""
    from .c16 import truth_at
    rep.rule(rule, 'no row outside the recording call except the fewer-than-two-rows fallback', 1)
    tc = F.mod
    cd = F.cfg.control_dependence()
    ev = Evaluator(prog)
    n_post = 0
    for call in F.row_calls:
        if F._inside(call, F.loop):
            continue
        encl = call
        while encl is not None and not isinstance(encl, (ast.FunctionDef, ast.Lambda)):
            encl = getattr(encl, '_parent', None)
        if encl is not F.func.node:
            rep.undecided(rule, tc.where(call), f'row site at line {call.lineno}', 'inside a nested function: when it runs is not traced')
            continue
        node = F.cfg.node_of(call)
        if node is None:
            continue
        if node.line < F.loop.lineno:
            rep.fail(rule, tc.path, call.lineno, F.func.qualname, 'row-before-loop',
                     'a row is built before the integration loop, outside the recording call')
            continue
        n_post += 1
        reach = {F.cfg.nodes[i] for i in F.cfg.reachable_from(node)}
        normal_exit = any(isinstance(x.ast, ast.Return) for x in reach) or any(
            p_ in reach and not isinstance(p_.ast, (ast.Raise, ast.Return)) for p_, _l in F.cfg.exit.pred)
        if not normal_exit:
            rep.ok(rule, tc.where(call), 'the row after the loop leaves only inside an exception (the card of an abnormal stop, C04)')
            continue
        app = getattr(call, '_parent', None)
        lst = app.func.value.id if isinstance(app, ast.Call) and isinstance(app.func, ast.Attribute) \
            and isinstance(app.func.value, ast.Name) else None
        guards = [(F.cfg.nodes[t], lab) for t, lab in cd[node.id]]
        verdict = None
        if not guards:
            verdict = 'is unconditional'
        for g, lab in guards:
            st = State({lst or 'ranges': SymObj('rows')})
            for n_ in ast.walk(g.ast):
                if isinstance(n_, ast.Name) and isinstance(n_.ctx, ast.Load) and n_.id not in st.env and n_.id not in ('len', 'bool'):
                    st.env[n_.id] = S(f'${n_.id}')
            try:
                tv = ev.eval(g.ast, st, Ctx(tc, F.func, None, 0))
            except Undecided as exc:
                raise AnalysisError(f'post-loop row guard `{g.text()[:50]}`: {exc}') from exc
            for k in (2, 3, 7, 100):
                tr = truth_at(ev, tv, {'len(rows)': float(k)})
                want_false = (lab == 'T')
                if tr is None or tr is want_false:
                    verdict = (f'is guarded by `{g.text()[:70]}`, which {"can hold" if tr is None else "holds"} when the card '
                               f'already has {k} rows')
                    break
        if verdict:
            rep.fail(rule, tc.path, call.lineno, F.func.qualname, 'extra-row',
                     f'the row built after the loop at line {call.lineno} {verdict}: a row at the final integration state, '
                     f'which lies on no multiple of the recording step, is added to an ordinary range card')
        else:
            rep.ok(rule, tc.where(call), 'the row after the loop is the fallback for a card with fewer than two rows')
    if n_post == 0:
        rep.ok(rule, tc.where(F.loop), 'no row is built after the loop')


def _after(F: IntegrateFacts, rn, n) -> bool:
    """True when node n can only execute after the recording node rn within one iteration."""
    dom = F.cfg.dominators()
    # either dominated by the recording node, or dominated by the test guarding it (if filter_flags: ...)
    if rn.id in dom[n.id]:
        return True
    cd = F.cfg.control_dependence()
    guards = [t for t, _l in cd[rn.id] if F.cfg.nodes[t] not in F.loop_controls]
    return bool(guards) and all(g in dom[n.id] for g in guards) and n.line > rn.line


TCF = 'py_ballisticcalc/trajectory_calc/_trajectory_calc.py'
IFF = 'py_ballisticcalc/interface.py'
VARIANTS = [
    Variant('loop-margin-scaled-by-launch-angle', 'break', [(TCF, '        min_step = min(self.calc_step, record_step)\n', '        min_step = min(self.calc_step * math.cos(self.barrel_elevation), record_step)\n')], 'C03.R6', 'seeded change C03/9: steep shots lose the row at the range'),
    Variant('twin-loop-margin-two-steps', 'twin', [(TCF, '        while range_vector.x <= maximum_range + min_step:', '        while range_vector.x <= maximum_range + 2 * min_step:')], None, 'a wider margin only adds iterations'),
    Variant('final-state-row-appended', 'break', [(TCF, '        # Ensure that we have at least two data points in trajectory\n', '        if ranges and maximum_range - (ranges[-1].distance >> Distance.Foot) > min_step:\n            ranges.append(create_trajectory_row(\n                time, range_vector, velocity_vector,\n                velocity, mach, self.spin_drift(time), self.look_angle,\n                density_factor, drag, self.weight, TrajFlag.RANGE))\n        # Ensure that we have at least two data points in trajectory\n')], 'C03.R5', 'seeded change C03/4'),
    Variant('fallback-row-unconditional', 'break', [(TCF, '        if len(ranges) < 2:\n            ranges.append(create_trajectory_row(', '        if len(ranges) < 2 or True:\n            ranges.append(create_trajectory_row(')], 'C03.R5'),
    Variant('twin-fallback-le-one', 'twin', [(TCF, '        if len(ranges) < 2:\n            ranges.append(create_trajectory_row(', '        if len(ranges) <= 1:\n            ranges.append(create_trajectory_row(')], None),
    Variant('default-step-eleventh', 'break', [(IFF, 'trajectory_step = trajectory_range.raw_value / 10.0', 'trajectory_step = trajectory_range.raw_value / 11.0')], 'C03.R1', 'positive control', 'caught'),
    Variant('default-step-display-value', 'break', [(IFF, 'trajectory_step = trajectory_range.raw_value / 10.0', 'trajectory_step = trajectory_range.unit_value / 10.0')], 'C03.R1', 'display value stored as inches'),
    Variant('ratio-against-wrong-end', 'break', [(TCF, 'ratio = (self.next_record_distance - self.previous_position.x) / (position.x - self.previous_position.x)', 'ratio = (position.x - self.next_record_distance) / (position.x - self.previous_position.x)')], 'C03.R2'),
    Variant('no-interpolation', 'break', [(TCF, "                data = BaseTrajData(\n                    time=self.previous_time + (time - self.previous_time) * ratio,\n                    position=self.previous_position + (position - self.previous_position) * ratio,", "                data = BaseTrajData(\n                    time=self.previous_time + (time - self.previous_time) * ratio,\n                    position=position,")], 'C03.R2', 'rows off their multiple by up to a step'),
    Variant('record-after-step', 'break', [(TCF, '            # region Check whether to record TrajectoryData row at current point\n            if filter_flags:  # require check before call to improve performance\n\n                # Record TrajectoryData row\n                if (data := data_filter.should_record(range_vector, velocity_vector, mach, time)) is not None:\n                    ranges.append(create_trajectory_row(data.time, data.position, data.velocity,\n                        data.velocity.magnitude(), data.mach, self.spin_drift(data.time), self.look_angle,\n                        density_factor, drag, self.weight, data_filter.current_flag\n                    ))\n            # endregion\n', ''), (TCF, '            time += delta_time\n\n            if (\n', '            time += delta_time\n            if filter_flags:\n                if (data := data_filter.should_record(range_vector, velocity_vector, mach, time)) is not None:\n                    ranges.append(create_trajectory_row(data.time, data.position, data.velocity,\n                        data.velocity.magnitude(), data.mach, self.spin_drift(data.time), self.look_angle,\n                        density_factor, drag, self.weight, data_filter.current_flag\n                    ))\n\n            if (\n')], 'C03.R3', 'the first row is one step after the muzzle'),
    Variant('record-distance-rounding', 'break', [(TCF, '            self.current_flag |= TrajFlag.RANGE\n            self.next_record_distance += self.range_step\n', '            self.current_flag |= TrajFlag.RANGE\n            self.next_record_distance = position.x + self.range_step\n')], 'C03.R2', 'multiples drift with the integration points'),
    Variant('muzzle-row-shifted-time', 'break', [(TCF, "            data = BaseTrajData(time=time, position=position,\n                                velocity=velocity, mach=mach)", "            data = BaseTrajData(time=time + 1e-9, position=position,\n                                velocity=velocity, mach=mach)")], 'C03.R3'),
    Variant('time-row-due-after-two-steps', 'break', [(TCF, 'if time > self.time_of_last_record + self.time_step:', 'if time > self.time_of_last_record + 2 * self.time_step:')], 'C03.R4', 'spacing bound broken'),
    Variant('time-check-dropped', 'break', [(TCF, '        elif self.time_step > 0:\n            self.check_next_time(time)\n', '')], 'C03.R4', 'no time rows at all'),
    Variant('twin-time-check-inlined', 'twin', [(TCF, '        elif self.time_step > 0:\n            self.check_next_time(time)\n', '        elif self.time_step > 0 and time > self.time_of_last_record + self.time_step:\n            self.current_flag |= TrajFlag.RANGE\n            self.time_of_last_record = time\n')], None, 'the helper inlined'),
    Variant('twin-time-check-uses-previous-time', 'twin', [(TCF, '            self.check_next_time(time)\n', '            self.check_next_time(self.previous_time)\n')], None, 'one step late: inside the two-step allowance'),
    Variant('twin-range-row-keeps-time-clock', 'twin', [(TCF, '            self.next_record_distance += self.range_step\n            self.time_of_last_record = time\n', '            self.next_record_distance += self.range_step\n')], None, 'more rows, spacing bound still holds'),
    Variant('twin-mach-not-interpolated', 'twin', [(TCF, 'mach=self.previous_mach + (mach - self.previous_mach) * ratio', 'mach=mach')], None, 'within one step: tolerated', 'pass'),
    Variant('twin-velocity-from-previous-point', 'twin', [(TCF, 'velocity=self.previous_velocity + (velocity - self.previous_velocity) * ratio,', 'velocity=self.previous_velocity,')], None, 'within one step', 'pass'),
    Variant('twin-ratio-helper', 'twin', [(TCF, 'position=self.previous_position + (position - self.previous_position) * ratio,', 'position=self.previous_position.add((position - self.previous_position).mul_by_const(ratio)),')], None),
]
