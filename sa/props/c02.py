"""C02 - Zeroing returns an elevation that actually hits the point of aim."""
from __future__ import annotations

import ast
import math
from typing import Dict, List, Optional, Set, Tuple

from .. import algebra as A
from ..abseval import (Cond, Const, Ctx, Evaluator, Inst, Leaf, NONE, Raised, Scalar, State, S, SymObj, Undecided,
                       cond_leaves, leaves)
from ..cfg import CFG, Deps, Node, defs_of, run_typestate
from ..check import Variant
from ..effects import Effects
from ..loader import AnalysisError, Program, dotted, norm, parent
from . import common as C
from .c18 import _locals_from_config

ID = 'C02'
TECHNIQUE = ('predicate-tracking typestate over the statement CFG of zero_angle (a return is reached only '
             'with an error measured with the returned elevation and known to be within the accuracy), effect'
             ' summaries for the stored zero, abstract evaluation of set_weapon_zero around a recorder of the'
             ' search, of one pass of the zero loop with the integration replaced by a symbolic row, and of '
             'the stored-zero round trip')
DECIDED = [
    'R1 zero_angle returns only in states where the error was computed from a trajectory integrated with the '
    "returned elevation and the test `error > accuracy` (accuracy from this calculator's Config) is known "
    'false; every other exit raises; the value returned is the elevation measured; what the search loop tests'
    ' and advances (error, iteration count) has a definition inside zero_angle that reaches the loop, so no '
    'budget is carried over from an earlier call',
    'R2 nothing reachable from barrel_elevation_for_target stores into the shot; set_weapon_zero evaluated '
    'around a recorder of the search: when the search starts every field of the shot and of the weapon is '
    'still the object it was, afterwards the weapon holds the elevation found, so a failed attempt leaves the'
    ' shot untouched',
    'R3 the stored zero is (total elevation - look angle) and an un-canted shot without hold-over fires at '
    'look + zero = the elevation found',
    'R4 by evaluation of the statements before the loop and of one pass of the loop body (_integrate replaced'
    ' by a recorder handing back a row whose height and distance are symbols in metres, the distance given in '
    'yards): the shot given is integrated to cos(look) d in feet, and after the pass the error - read at 7 look '
    'angles x 3 overshoots of the measured row beyond the aim point\'s distance - is zero exactly when the row lies '
    'on the sight line at the row\'s own distance and non-zero off it',
    'R5 first-order contraction: under the geometric sensitivity of the height at a fixed distance to the '
    'elevation (x / cos^2 per radian) one pass multiplies the error by a factor of magnitude below 1 at every '
    'sampled look angle from -45 to 75 degrees (a step sized for a level sight line is refuted: factor -tan^2)',
]
NOT_DECIDED = [
    'that the iteration converges within the iteration cap for every reachable target (R5 decides only the '
    'first-order contraction under a drag-free sensitivity model); the numerical closeness of the fired '
    'trajectory to the sight line',
]


def run(prog: Program, rep, thorough: bool) -> None:
    A.reset()
    rep.rule('C02.R1', 'no elevation returned unless its own measurement met the accuracy', 2)
    rep.rule('C02.R2', 'failed attempt leaves the stored zero untouched', 2)
    rep.rule('C02.R3', 'stored zero round-trips to the elevation found; searched on the shot itself', 2)
    rep.rule('C02.R4', 'aim-point geometry', 3)
    rep.rule('C02.R5', 'the correction contracts the error (first order, geometric sensitivity)', 1)
    tc = prog.module(C.M_TC)
    za = prog.func(C.M_TC, 'TrajectoryCalc.zero_angle')
    rep.saw(za)
    cfg = CFG(za.node)
    deps = Deps(cfg, za.params)
    lm = _locals_from_config(za)
    from .c18 import config_aliases
    acc_names = {n for n, f in lm.items() if f == 'cZeroFindingAccuracy'} | {'self._config.cZeroFindingAccuracy'} | \
        {f'{a_}.cZeroFindingAccuracy' for a_ in config_aliases(za)}
    if len(acc_names) < 1:
        raise AnalysisError('zero_angle: accuracy is not read from self._config')

    # the error variable: the name compared with the accuracy
    def cmp_of(test: ast.AST) -> List[Tuple[str, str, str]]:
        out = []
        for c in ast.walk(test):
            if isinstance(c, ast.Compare) and len(c.ops) == 1:
                l, r = norm(c.left), norm(c.comparators[0])
                op = type(c.ops[0]).__name__
                if r in acc_names and isinstance(c.left, ast.Name):
                    out.append((l, op, r))
                elif l in acc_names and isinstance(c.comparators[0], ast.Name):
                    flip = {'Gt': 'Lt', 'Lt': 'Gt', 'GtE': 'LtE', 'LtE': 'GtE'}.get(op, op)
                    out.append((r, flip, l))
        return out
    err_names = set()
    for n in cfg.nodes:
        if n.kind == 'test':
            err_names |= {e for e, _o, _a in cmp_of(n.ast)}
    if len(err_names) != 1:
        raise AnalysisError(f'zero_angle: cannot identify the error variable compared with the accuracy: {err_names}')
    err = next(iter(err_names))
    integrate_nodes = {n.id for n in cfg.nodes if n.ast is not None and n.kind == 'stmt'
                       and any(isinstance(c, ast.Call) and norm(c.func) == 'self._integrate' for c in ast.walk(n.ast))}
    if not integrate_nodes:
        raise AnalysisError('zero_angle: no call to self._integrate')

    def err_from_measurement(n: Node) -> bool:
        sl = deps.backward_slice(n.id, control=False)
        return bool(set(sl) & integrate_nodes)

    def assigns(n: Node, what: str) -> bool:
        return n.ast is not None and n.kind == 'stmt' and what in defs_of(n)

    BE = 'self.barrel_elevation'

    def held_location(e: Optional[ast.AST]) -> Optional[str]:
        """the location an expression takes the elevation from: the attribute, a local, or either wrapped as an Angular"""
        if e is None:
            return None
        if norm(e) == BE:
            return BE
        if isinstance(e, ast.Name):
            return e.id
        if isinstance(e, ast.Call) and (dotted(e.func) or '').split('.')[0] == 'Angular' and e.args and not isinstance(e.args[0], ast.Starred):
            return held_location(e.args[0])
        return None

    def predicate_sense(e: ast.AST) -> Optional[Tuple[str, str]]:
        """what an expression over the error says about `error > accuracy`: (its value when the expression is true, when it
        is false), '?' where nothing follows; None when the expression is not such a comparison"""
        if isinstance(e, ast.UnaryOp) and isinstance(e.op, ast.Not):
            inner = predicate_sense(e.operand)
            return None if inner is None else (inner[1], inner[0])
        if isinstance(e, ast.Compare):
            cs = [c for c in cmp_of(e) if c[0] == err]
            if len(cs) == 1:
                return {'Gt': ('T', 'F'), 'LtE': ('F', 'T'), 'Lt': ('F', '?'), 'GtE': ('?', 'F')}.get(cs[0][1])
        return None

    def transfer(n: Node, s):
        # fresh = (M, Q): M the locations that hold the elevation of the last measurement, Q the locals known equal to the
        # attribute's current value; the iterate may live in the attribute or in a local written back before each run
        (M, Q), errfresh, P, B = s
        if n.ast is None or n.kind not in ('stmt',):
            return s
        a_ = n.ast
        # B: boolean locals that hold the outcome of the comparison, as (name, value of `error > accuracy` when it is true)
        for loc in defs_of(n):
            B = frozenset(b for b in B if b[0] != loc)
        if assigns(n, err):
            B = frozenset()
        if isinstance(a_, (ast.Assign, ast.AnnAssign)) and len(defs_of(n)) == 1 and a_.value is not None:
            sense = predicate_sense(a_.value)
            if sense is not None and not assigns(n, err):
                B = B | {(next(iter(defs_of(n))), sense)}
        if n.id in integrate_nodes:
            if BE not in M:
                errfresh = False          # a measurement at another elevation: the error on hand belongs to the old one
            M = frozenset(Q | {BE})
        for loc in defs_of(n):
            if n.id in integrate_nodes and loc != BE:
                M, Q = M - {loc}, Q - {loc}
                continue
            if n.id in integrate_nodes:
                continue
            src = held_location(a_.value) if isinstance(a_, (ast.Assign, ast.AnnAssign)) and len(defs_of(n)) == 1 else None
            if loc == BE:
                if src is not None and src != BE and isinstance(a_.value, ast.Name):
                    Q = frozenset({src})
                    M = (M | {BE}) if src in M else (M - {BE})
                else:
                    Q = frozenset()
                    M = M - {BE}
            elif loc == err:
                continue
            else:
                if src is not None and src != loc:
                    M = (M | {loc}) if src in M else (M - {loc})
                    Q = (Q | {loc}) if (src == BE or src in Q) and isinstance(a_.value, (ast.Name, ast.Attribute)) else (Q - {loc})
                else:
                    M, Q = M - {loc}, Q - {loc}
        fresh = (frozenset(M), frozenset(Q))
        if assigns(n, err):
            if err_from_measurement(n) and isinstance(n.ast, (ast.Assign, ast.AnnAssign)):
                errfresh, P = bool(fresh[0]), '?'
            else:
                errfresh = False
                P = '?'
                v = getattr(n.ast, 'value', None)
                if isinstance(v, ast.BinOp) and isinstance(v.op, ast.Mult):
                    parts = [norm(v.left), norm(v.right)]
                    nums = [x for x in (v.left, v.right) if isinstance(x, ast.Constant) and isinstance(x.value, (int, float))]
                    if any(p in acc_names for p in parts) and nums and nums[0].value > 1:
                        P = 'T'       # error := accuracy * k, k > 1 (assumption accuracy > 0)
        return (fresh, errfresh, P, B)

    opaque_tests: List[Node] = []

    def branch(n: Node, s, lab: str):
        fresh, errfresh, P, B = s
        if n.kind != 'test' or lab not in ('T', 'F'):
            return s

        def learn(newP):
            if newP == '?':
                return s
            if P in ('T', 'F') and P != newP:
                return None        # contradicts what is already known on this path
            return (fresh, errfresh, newP, B)

        def sense_of(e: ast.AST) -> Optional[Tuple[str, str]]:
            """through the comparison itself or a local holding its outcome"""
            if isinstance(e, ast.UnaryOp) and isinstance(e.op, ast.Not):
                inner = sense_of(e.operand)
                return None if inner is None else (inner[1], inner[0])
            if isinstance(e, ast.Name):
                hit = [b[1] for b in B if b[0] == e.id]
                return hit[0] if len(hit) == 1 else None
            return predicate_sense(e)
        t = n.ast
        whole = sense_of(t)
        if whole is not None:
            return learn(whole[0] if lab == 'T' else whole[1])
        if isinstance(t, ast.BoolOp):
            senses = [x for x in (sense_of(v) for v in t.values) if x is not None]
            if len(senses) == 1:
                if isinstance(t.op, ast.And) and lab == 'T':
                    return learn(senses[0][0])
                if isinstance(t.op, ast.Or) and lab == 'F':
                    return learn(senses[0][1])
                return s
        # a test that reads the error (or something computed from it) in a form not understood: remembered, so that a
        # return the analysis cannot justify is reported as unreadable and not as a violation
        names_t = {x.id for x in ast.walk(t) if isinstance(x, ast.Name)} | {norm(x) for x in ast.walk(t) if isinstance(x, ast.Attribute)}
        if n not in opaque_tests and ((names_t & judged) or ((names_t & tainted) and (names_t & set(acc_names)))):
            opaque_tests.append(n)
        return s
    # locals computed from the error (transitively), and among them those computed together with the accuracy: only a test
    # on the latter (or on error and accuracy at once) can say anything about `error > accuracy`
    tainted: Set[str] = {err}
    judged: Set[str] = set()
    changed = True
    while changed:
        changed = False
        for n_ in cfg.nodes:
            if n_.kind == 'stmt' and isinstance(n_.ast, (ast.Assign, ast.AnnAssign, ast.AugAssign)) and n_.ast.value is not None:
                v_ = n_.ast.value
                used = {x.id for x in ast.walk(v_) if isinstance(x, ast.Name)} | {norm(x) for x in ast.walk(v_) if isinstance(x, ast.Attribute)}
                locs = {d for d in defs_of(n_) if '.' not in d}
                if used & tainted and locs - tainted:
                    tainted |= locs
                    changed = True
                if ((used & judged) or ((used & tainted) and (used & set(acc_names)))) and (locs - {err}) - judged:
                    judged |= locs - {err}
                    changed = True
    states = run_typestate(cfg, ((frozenset(), frozenset()), False, '?', frozenset()), transfer, branch)
    rets = [n for n in cfg.nodes if isinstance(n.ast, ast.Return)]
    raises = [n for n in cfg.nodes if isinstance(n.ast, ast.Raise)]
    rep.assume('cZeroFindingAccuracy > 0 (the initial error `accuracy * 2` is then above the accuracy)')
    if not rets:
        raise AnalysisError('zero_angle has no return')
    for r in rets:
        src = held_location(r.ast.value)
        bad = [s for s in states[r.id] if not (s[1] and s[2] == 'F' and src is not None and src in s[0][0])]
        val_ok = src is not None
        if bad and opaque_tests and all(s[1] and src is not None and src in s[0][0] for s in bad):
            # only the accuracy test is missing, and a test the analysis does not read is on the way
            raise AnalysisError(f'zero_angle: the test at line {opaque_tests[0].line} reads the error in a form this rule '
                                f'does not understand (`{norm(opaque_tests[0].ast)[:70]}`); the return cannot be judged')
        if bad:
            s = bad[0]
            why = []
            if not s[1] or src is None or src not in s[0][0]:
                why.append('the error was not computed from a trajectory integrated with the elevation being returned '
                           '(the elevation changed after the last measurement, or no measurement was made)')
            if s[2] != 'F':
                why.append('the error is not known to be within the accuracy (`error > accuracy` '
                           + ('is true' if s[2] == 'T' else 'was not tested') + ' on this path)')
            rep.fail('C02.R1', tc.path, r.line, za.qualname, 'return',
                     'zero_angle can return an elevation although ' + ' and '.join(why))
        elif not val_ok:
            rep.fail('C02.R1', tc.path, r.line, za.qualname, 'return-value',
                     f'zero_angle returns `{norm(r.ast.value)[:60]}`, not the elevation that was measured')
        else:
            rep.ok('C02.R1', tc.where(r.ast), f'return reached only with error measured at the returned elevation and '
                   f'`{err} > accuracy` false ({len(states[r.id])} abstract states)')
    falls = [p for p, lab in cfg.exit.pred if not isinstance(p.ast, ast.Return)]
    if falls:
        rep.fail('C02.R1', tc.path, falls[0].line, za.qualname, 'fall-off', 'zero_angle can end without returning or raising')
    elif raises:
        rep.ok('C02.R1', tc.where(raises[0].ast), f'every other exit raises ({len(raises)} raise statement(s))')
    else:
        rep.fail('C02.R1', tc.path, za.node.lineno, za.qualname, 'no-raise',
                 'zero_angle has no raising exit: an unreachable target cannot be reported')
    for r in raises:
        if isinstance(r.ast.exc, ast.Call) and norm(r.ast.exc.func) == 'ZeroFindingError':
            continue
        rep.note(f'raise at line {r.line}: {norm(r.ast)[:60]}')

    # ---- R2 ------------------------------------------------------------------------------------
    eng = Effects(prog)
    bet = prog.func(C.M_IF, 'Calculator.barrel_elevation_for_target')
    swz = prog.func(C.M_IF, 'Calculator.set_weapon_zero')
    rep.saw(bet)
    rep.saw(swz)
    bad = [e for (o, fld), e in eng.summaries[bet.fq].effects.items()
           if o[0] == 'param' and o[1] == bet.positional[1] and fld != '_defined_units']
    if bad:
        e = bad[0]
        rep.fail('C02.R2', e.module.path, e.line, bet.qualname, f'shot:{e.field}',
                 f'finding the zero stores `{e.field}` of something reachable from the shot (`{e.text}` in {e.func}): '
                 f'a failed attempt does not leave the shot as it was', list(e.chain))
    else:
        rep.ok('C02.R2', bet.where, 'no store into the shot while the zero is being found')
    # set_weapon_zero by evaluation: the search is replaced by a recorder; at the moment it is called the weapon must
    # still hold its old zero (so an exception from the search leaves it untouched), afterwards the zero found
    ifm = prog.module(C.M_IF)
    at_call = []

    def h_bet(ev_, func, args, kwargs, st_, self_val):
        w_ = st_.heap[shot_i.oid].get('weapon')
        at_call.append((st_.heap[w_.oid].get('zero_elevation') if isinstance(w_, Inst) else None, list(args)))
        for o_, name_ in ((shot_i, 'shot'), (weapon_i, 'shot.weapon')):
            for k_, v0 in initial[o_.oid].items():
                v1 = st_.heap[o_.oid].get(k_)
                if v1 is not v0:
                    changed.append(f'{name_}.{k_} is {ev_.describe(v1) if v1 is not None else None} (was {ev_.describe(v0)})')
        return SymObj('zero@found')
    ev2 = Evaluator(prog, hooks={f'call:{bet.qualname}': h_bet, **C.no_wrap_hooks()})
    st2 = State()
    weapon_i = ev2.new_inst(st2, prog.cls(C.M_MUN, 'Weapon'), {'zero_elevation': SymObj('zero@old'), 'sight_height': SymObj('sh'),
                                                              'twist': SymObj('tw'), 'sight': NONE})
    shot_i = ev2.new_inst(st2, prog.cls(C.M_COND, 'Shot'), {'weapon': weapon_i, 'ammo': SymObj('ammo'), 'atmo': SymObj('atmo'),
                                                           '_winds': SymObj('winds'), 'look_angle': SymObj('look'),
                                                           'relative_angle': SymObj('rel'), 'cant_angle': SymObj('cant')})
    calc_i = ev2.new_inst(st2, prog.cls(C.M_IF, 'Calculator'), {'_calc': SymObj('solver'), '_config': SymObj('cfg')})
    initial = {o_.oid: dict(st2.heap[o_.oid]) for o_ in (shot_i, weapon_i)}
    changed: List[str] = []
    try:
        tree2, _st2 = ev2.run_func(swz, {swz.positional[0]: calc_i, swz.positional[1]: shot_i, swz.positional[2]: SymObj('dist')}, st2)
    except Undecided as exc:
        raise AnalysisError(f'set_weapon_zero: {exc}') from exc
    problems = []
    if not at_call:
        raise AnalysisError('set_weapon_zero does not reach barrel_elevation_for_target in the abstract evaluation')
    if changed:
        problems.append(f'when the search starts {changed[0]}: a failed search does not leave the shot as it was')
    for old, args_ in at_call:
        if not (isinstance(old, SymObj) and old.path == 'zero@old'):
            problems.append(f'the stored zero is already {old!r} when the search starts: a failed search leaves it changed')
        if not (len(args_) >= 2 and args_[0] is shot_i and isinstance(args_[1], SymObj) and args_[1].path == 'dist'):
            problems.append('the search is not run for this shot and the distance given')
    for _p, leaf in leaves(tree2):
        if leaf.kind == 'raise':
            continue
        z = leaf.state.heap[weapon_i.oid].get('zero_elevation')
        if not all(isinstance(x, SymObj) and x.path == 'zero@found' for _cp, x in cond_leaves(z)):
            problems.append(f'the zero stored is {z!r}, not the elevation found')
        if leaf.state.heap[shot_i.oid].get('weapon') is not weapon_i:
            problems.append('the shot no longer holds the weapon it was given')
    # the evaluator follows the non-raising path of a try statement only: what the handlers of the two zeroing entry
    # points do on the failing path is read directly - no handler / finally block may store into the shot
    for fz in (swz, bet):
        shot_name = fz.positional[1] if len(fz.positional) > 1 else None
        for t_ in ast.walk(fz.node):
            if not isinstance(t_, ast.Try):
                continue
            for blk in [h_.body for h_ in t_.handlers] + [t_.finalbody]:
                for n_ in (x for b_ in blk for x in ast.walk(b_)):
                    tgt = None
                    if isinstance(n_, ast.Attribute) and isinstance(n_.ctx, (ast.Store, ast.Del)):
                        tgt = n_
                    elif isinstance(n_, ast.Call) and (dotted(n_.func) or '') == 'setattr' and n_.args:
                        tgt = n_.args[0]
                    if tgt is None:
                        continue
                    root = tgt
                    while isinstance(root, (ast.Attribute, ast.Subscript)):
                        root = root.value
                    par_ = parent(tgt)
                    if isinstance(par_, ast.Assign) and isinstance(par_.value, ast.Name) and any(
                            isinstance(a_, ast.Assign) and len(a_.targets) == 1 and isinstance(a_.targets[0], ast.Name)
                            and a_.targets[0].id == par_.value.id and norm(a_.value) == norm(tgt) for a_ in ast.walk(fz.node)):
                        continue        # puts back a value saved from the same place: a restore, not a change
                    if isinstance(root, ast.Name) and root.id == shot_name:
                        problems.append(f'{fz.qualname} stores `{norm(tgt)[:50]}` in an exception handler / finally block (line '
                                        f'{n_.lineno}): a failed attempt does not leave the stored zero (or the shot) untouched')
    if problems:
        rep.fail('C02.R2', ifm.path, swz.node.lineno, swz.qualname, 'store-order', 'set_weapon_zero: ' + '; '.join(sorted(set(problems))))
    else:
        rep.ok('C02.R2', swz.where, 'the weapon holds its old zero until barrel_elevation_for_target(shot, distance) has returned, '
               'then the elevation found: an exception leaves before the store')

    # ---- R3 ------------------------------------------------------------------------------------
    searched: List[object] = []
    searched_dist: List[object] = []

    def za_hook(ev_, func, args, kwargs, st, self_val):
        searched.append((args[0] if args else kwargs.get(func.positional[1]), dict(st.heap)))
        dist_ = args[1] if len(args) > 1 else kwargs.get(func.positional[2])
        searched_dist.append(C.raw_of(ev_, st, dist_) if isinstance(dist_, Inst) else dist_)
        return C.mk_quantity(ev_, st, prog, 'Angular', 'E', 'Radian')
    ev = Evaluator(prog, hooks={'call:TrajectoryCalc.zero_angle': za_hook, **C.pref_hooks(prog)})
    st = State()
    shot_c, weap_c = prog.cls(C.M_COND, 'Shot'), prog.cls(C.M_MUN, 'Weapon')
    weapon = ev.new_inst(st, weap_c, {'zero_elevation': C.mk_quantity(ev, st, prog, 'Angular', 'Zold', 'Radian'),
                                      'sight_height': C.mk_quantity(ev, st, prog, 'Distance', 'sh', 'Inch'),
                                      'twist': C.mk_quantity(ev, st, prog, 'Distance', 'tw', 'Inch'), 'sight': NONE})
    shot = ev.new_inst(st, shot_c, {'look_angle': C.mk_quantity(ev, st, prog, 'Angular', 'L', 'Radian'),
                                    'relative_angle': C.mk_quantity(ev, st, prog, 'Angular', 0, 'Radian'),
                                    'cant_angle': C.mk_quantity(ev, st, prog, 'Angular', 0, 'Radian'),
                                    'weapon': weapon, 'ammo': SymObj('ammo_given'), 'atmo': SymObj('atmo_given'),
                                    '_winds': SymObj('winds_given')})
    calc_c = prog.cls(C.M_IF, 'Calculator')
    calc = ev.new_inst(st, calc_c, {'_calc': ev.new_inst(st, prog.cls(C.M_TC, 'TrajectoryCalc'), {}), '_config': NONE})
    try:
        r, st = ev.call_value(swz, [shot, C.mk_quantity(ev, st, prog, 'Distance', 'D', 'Yard')], self_val=calc, st=st)
        be = ev.getattr(shot, 'barrel_elevation', st, Ctx(prog.module(C.M_COND), None, None, 0))
    except Undecided as exc:
        raise AnalysisError(f'set_weapon_zero round trip: {exc}') from exc
    # the distance searched for is the look-distance given (zero_angle itself takes cos / sin of the look angle, R4)
    want_d = C.read_raw_in(ev, prog, 'Distance', 'D', 'Inch') if False else A.sym('D')
    bad_d = [d_ for d_ in searched_dist if not (isinstance(d_, A.RF) and d_.equals(want_d))]
    if not searched_dist:
        raise AnalysisError('set_weapon_zero does not reach zero_angle in the abstract evaluation')
    if bad_d:
        rep.fail('C02.R3', prog.module(C.M_IF).path, bet.node.lineno, bet.qualname, 'searched-distance',
                 f'the zero is searched for the distance {bad_d[0]!r} (raw), not for the look-distance given ({want_d!r}): zero_angle '
                 f'already places the aim point at (cos(look) d, sin(look) d), so the shot is zeroed for another distance whenever the '
                 f'sight line is inclined')
    else:
        rep.ok('C02.R3', bet.where, 'the zero is searched for the look-distance given')
    # the shot searched on is the caller's shot - or a copy that agrees with it in everything the zero depends on
    for sv, heap_ in searched:
        if isinstance(sv, Inst) and sv.oid == shot.oid:
            rep.ok('C02.R3', swz.where, 'the zero is searched on the caller\'s own shot (its winds, atmosphere, ammunition, look angle)')
            continue
        if not (isinstance(sv, Inst) and sv.cls is shot_c):
            raise AnalysisError(f'the zero is searched on {sv!r}')
        h_new, h_old = heap_.get(sv.oid, {}), st.heap[shot.oid]
        diff = []
        for fld, label in (('_winds', 'winds'), ('atmo', 'atmosphere'), ('ammo', 'ammunition'), ('weapon', 'weapon')):
            a_, b_ = h_new.get(fld), h_old.get(fld)
            if isinstance(a_, Cond) and a_.test.kind == 'truthy' and isinstance(a_.a, SymObj) and isinstance(b_, SymObj) \
                    and a_.a.path == b_.path:
                a_ = a_.a              # `given or default`: the given object when there is one
            same = (isinstance(a_, SymObj) and isinstance(b_, SymObj) and a_.path == b_.path) or \
                   (isinstance(a_, Inst) and isinstance(b_, Inst) and a_.oid == b_.oid)
            if not same:
                diff.append(label)
        la_new = C.raw_of(ev, State({}, heap_), h_new.get('look_angle'))
        if la_new is None or not la_new.equals(A.sym('L')):
            diff.append('look angle')
        if diff:
            rep.fail('C02.R3', prog.module(C.M_IF).path, bet.node.lineno, bet.qualname, 'searched-shot',
                     f'the zero is searched on a copy of the shot that does not carry its {", ".join(diff)}: the elevation '
                     f'found is not the one that hits the aim point when the shot itself is fired (head or tail wind, other '
                     f'atmosphere)')
        else:
            rep.ok('C02.R3', swz.where, 'the zero is searched on a copy that carries the shot\'s winds, atmosphere, ammunition, weapon and look angle')
    raw = C.raw_of(ev, st, be)
    stored = C.raw_of(ev, st, st.heap[weapon.oid].get('zero_elevation'))
    if raw is not None and raw.equals(A.sym('E')) and stored is not None and stored.equals(A.sym('E') - A.sym('L')):
        rep.ok('C02.R3', swz.where, 'stored zero = E - look; un-canted shot without hold-over fires at look + zero = E')
    else:
        rep.fail('C02.R3', prog.module(C.M_IF).path, swz.node.lineno, swz.qualname, 'round-trip',
                 f'after zeroing the stored zero is {stored!r} and the shot fires at {raw!r}; the elevation found was E '
                 f'(look angle L)')

    # ---- R1 (budget): what the search loop carries from one pass to the next starts afresh in every call ----------
    top_loops = [s_ for s_ in za.node.body if isinstance(s_, ast.While)]
    if len(top_loops) == 1:
        lp = top_loops[0]
        head = cfg.node_of(lp.test)
        in_loop = {n.id for n in cfg.nodes if n.ast is not None and any(n.ast is x for x in ast.walk(lp))}
        carried = set()
        for n in cfg.nodes:
            if n.id in in_loop and n.ast is not None and n.ast is not lp.test:
                carried |= set(defs_of(n))
        read = {x.id for x in ast.walk(lp.test) if isinstance(x, ast.Name)} | \
               {norm(x) for x in ast.walk(lp.test) if isinstance(x, ast.Attribute)}
        stale = []
        for loc in sorted(carried & read):
            before = [d for d in deps.rd[head.id].get(loc, set()) if d not in in_loop and d != cfg.entry.id]
            if not before:
                stale.append(loc)
        if stale:
            rep.fail('C02.R1', tc.path, lp.lineno, za.qualname, f'budget:{stale[0]}',
                     f'the search loop tests and advances `{stale[0]}`, which zero_angle never initialises: its value is left '
                     f'over from earlier calls on the same calculator, so the iteration budget (or the error) is shared by '
                     f'all zeroings and a reachable target eventually fails')
        else:
            rep.ok('C02.R1', tc.where(lp), f'loop-carried {sorted(carried & read)} are initialised in zero_angle before the loop')

    # ---- R4 ------------------------------------------------------------------------------------
    # by evaluation: the statements before the loop, then one pass of the loop body with _integrate replaced by a
    # recorder that hands back one row whose height is a symbol in metres
    measured = []

    def h_integrate(ev_, func, args, kwargs, st_, self_val):
        a_ = list(args) + [kwargs[k] for k in func.positional[1 + len(args):] if k in kwargs]
        measured.append(a_)
        row = C.mk_row(ev_, st_, prog, 'row_', {'height': C.mk_quantity(ev_, st_, prog, 'Distance', 'Hraw', 'Meter'),
                                               'distance': C.mk_quantity(ev_, st_, prog, 'Distance', 'Xraw', 'Meter')})
        return ev_.new_list(st_, [row])
    ev2 = Evaluator(prog, opaque={'_init_trajectory'}, hooks={'call:TrajectoryCalc._integrate': h_integrate, **C.no_wrap_hooks()})
    st = State()
    tcc = prog.cls(C.M_TC, 'TrajectoryCalc')
    cfgc = prog.cls(C.M_TC, 'Config')
    selfv = ev2.new_inst(st, tcc, {'look_angle': S('L'), 'barrel_elevation': S('be'),
                                   '_config': ev2.new_inst(st, cfgc, {f: S(f'cfg.{f}') for f in prog.namedtuple_fields(cfgc)})})
    loops = [s for s in za.node.body if isinstance(s, (ast.While, ast.For))]
    if len(loops) != 1:
        raise AnalysisError('zero_angle: expected one top-level loop')
    pre = za.node.body[:za.node.body.index(loops[0])]
    env = {za.positional[0]: selfv, za.positional[1]: SymObj('shot'),
           za.positional[2]: C.mk_quantity(ev2, st, prog, 'Distance', 'Draw', 'Yard')}
    st.env.update(env)
    zctx = Ctx(tc, za, None, 0)
    try:
        t0 = ev2.exec_block(pre, st, zctx)
    except Undecided as exc:
        raise AnalysisError(f'zero_angle prefix: {exc}') from exc
    starts = [lf.state for _p, lf in leaves(t0) if lf.kind == 'fall']
    if not starts:
        raise AnalysisError('zero_angle: the loop is not reached in the abstract evaluation')
    D = C.read_raw_in(ev2, prog, 'Distance', 'Draw', 'Foot')
    L = A.sym('L')
    want_x, want_y = A.fn('cos', L) * D, A.fn('sin', L) * D
    H = C.read_raw_in(ev2, prog, 'Distance', 'Hraw', 'Foot')
    X = C.read_raw_in(ev2, prog, 'Distance', 'Xraw', 'Foot')
    p_aim, p_int, p_err, p_gain = [], [], [], []
    n_gain = 0
    self_oid = selfv.oid
    n_pass = 0
    for s0 in starts:
        measured.clear()
        try:
            t1 = ev2.exec_block(list(loops[0].body), s0, zctx)
        except Undecided as exc:
            raise AnalysisError(f'zero_angle loop body: {exc}') from exc
        if not measured:
            raise AnalysisError('zero_angle: one pass of the loop does not reach _integrate in the abstract evaluation')
        for a_ in measured:
            if not (a_ and isinstance(a_[0], SymObj) and a_[0].path == 'shot'):
                p_int.append('the measurement does not integrate the shot given')
            rng = a_[1] if len(a_) > 1 else None
            if not all(isinstance(x, Scalar) and x.rf.equals(want_x) for _cp, x in cond_leaves(rng)):
                p_aim.append(f'the trajectory is integrated to {rng!r}, not to the horizontal distance of the aim point '
                             f'cos(look) d = {want_x!r} (feet)')
        for _p, lf in leaves(t1):
            if lf.kind == 'raise':
                continue
            n_pass += 1
            e_ = lf.state.env.get(err)
            why = _error_by_sampling(e_, H, X, err)
            if why:
                p_err.append(why)
            be_ = lf.state.heap.get(self_oid, {}).get('barrel_elevation')
            g = _gain_by_sampling(be_, H, X)
            if g is not None:
                n_gain += 1
                if g:
                    p_gain.append(g)
    if p_aim:
        rep.fail('C02.R4', tc.path, za.node.lineno, za.qualname, 'aim-point', sorted(set(p_aim))[0])
    else:
        rep.ok('C02.R4', za.where, 'aim point: the trajectory is integrated to cos(look) d (feet, the distance given in yards)')
    if p_int:
        rep.fail('C02.R4', tc.path, loops[0].lineno, za.qualname, 'integrate-args', sorted(set(p_int))[0])
    else:
        rep.ok('C02.R4', tc.where(loops[0]), 'the measurement integrates the shot given')
    if p_err:
        rep.fail('C02.R4', tc.path, loops[0].lineno, za.qualname, 'error-def', sorted(set(p_err))[0])
    else:
        rep.ok('C02.R4', tc.where(loops[0]), f'error = distance of the measured row from the sight line at the row\'s own '
               f'down-range distance (zero exactly on the line, at 7 look angles x 3 overshoots) on {n_pass} paths of one pass')
    if p_gain:
        rep.fail('C02.R5', tc.path, loops[0].lineno, za.qualname, 'gain', sorted(set(p_gain))[0])
    elif n_gain:
        rep.ok('C02.R5', tc.where(loops[0]), f'the correction contracts the error to first order at every sampled look angle '
               f'({n_gain} updating path(s))')
    else:
        rep.undecided('C02.R5', tc.where(loops[0]), 'gain of the correction', 'no path of one pass changes the elevation by an '
                      'amount that depends on the measured height')


LOOKS = (0.0, 0.3, -0.3, math.pi / 4, -math.pi / 4, 1.0, 1.3)
OVERSHOOT = (0.0, 0.2, 0.45)          # feet beyond the aim point's distance (one integration step is 0.5 ft at most)


def _env(look: float, d_yd: float, x_ft: float, h_ft: float, Hrf, Xrf) -> Dict[str, float]:
    """Numeric point for the symbols of one evaluated pass: the row lies at (x_ft, h_ft) feet, the distance given is
    d_yd yards (raw magnitudes are whatever the analysed unit tables make of that)."""
    base = {'pi': math.pi, 'L': look, 'be': look + 0.002, 'cfg.cZeroFindingAccuracy': 1e-9, 'cfg.cMaxIterations': 20.0}
    cH = Hrf.evalf(dict(base, Hraw=1.0))
    cX = Xrf.evalf(dict(base, Xraw=1.0))
    return dict(base, Draw=d_yd * 36.0, Hraw=h_ft / cH, Xraw=x_ft / cX)


def _error_by_sampling(e_, Hrf, Xrf, name: str) -> Optional[str]:
    """The error of one pass, read at numeric sample points (the normal form is evaluated, never the code): it must
    vanish exactly when the measured row lies on the sight line - at the row's own distance, which is up to one step
    beyond the aim point's - and be positive off the line."""
    from .c16 import value_at
    if e_ is None:
        return f'after one pass `{name}` has no value'
    for look in LOOKS:
        for over in OVERSHOOT:
            d_yd = 200.0
            x = math.cos(look) * d_yd * 3.0 + over
            on_line = math.tan(look) * x
            for off in (0.0, 0.37, -0.21):
                env = _env(look, d_yd, x, on_line + off, Hrf, Xrf)
                v = value_at(e_, env)
                if not isinstance(v, Scalar):
                    return None if isinstance(v, Cond) else f'after one pass `{name}` is {v!r}'
                try:
                    val = v.rf.evalf(env)
                except (KeyError, ZeroDivisionError, ValueError):
                    return None
                if off == 0.0 and abs(val) > 1e-9:
                    at_aim = abs(on_line - math.sin(look) * d_yd * 3.0)
                    hint = (' (it is the height above the aim point: the row is compared with the aim point\'s height although '
                            'it lies beyond the aim point\'s distance)') if abs(abs(val) - at_aim) < 1e-9 else ''
                    return (f'look angle {look:.3f} rad, measured row {over} ft beyond the aim point\'s distance and exactly on '
                            f'the sight line: `{name}` = {v.rf!r} evaluates to {val:.6f} ft, not 0{hint}; the search then settles '
                            f'{abs(val):.4f} ft off the sight line, far outside accuracy + one step x relative slope')
                if off != 0.0 and abs(val) < 1e-12:
                    return (f'look angle {look:.3f} rad, measured row {off} ft off the sight line: `{name}` = {v.rf!r} evaluates '
                            f'to 0 - a miss is taken for a hit')
    return None


def _gain_by_sampling(be_, Hrf, Xrf) -> Optional[str]:
    """First-order contraction of the search.  Geometric sensitivity (the model of this rule): at a fixed down-range
    distance x the height of the trajectory changes by x / cos^2(elevation) per radian of elevation.  If one pass
    replaces the elevation by  be - g * (height error),  the error after the pass is  (1 - g x / cos^2) * error.
    None: this path does not update the elevation; '': contracts; text: does not."""
    from .c16 import value_at
    if be_ is None:
        return None
    worst = None
    updated = False
    for look in LOOKS:
        d_yd = 200.0
        x = math.cos(look) * d_yd * 3.0
        on_line = math.tan(look) * x
        vals = []
        for off in (0.4, 0.8):
            env = _env(look, d_yd, x, on_line + off, Hrf, Xrf)
            v = value_at(be_, env)
            if not isinstance(v, Scalar):
                return None
            try:
                vals.append(v.rf.evalf(env) - env['be'])
            except (KeyError, ZeroDivisionError, ValueError):
                return None
        if abs(vals[0]) < 1e-15 and abs(vals[1]) < 1e-15:
            continue
        updated = True
        g = -(vals[1] - vals[0]) / 0.4                      # d(elevation) / d(height error), sign turned
        rho = 1.0 - g * x / math.cos(look) ** 2
        if abs(rho) >= 1.0 - 1e-9 and (worst is None or abs(rho) > abs(worst[1])):
            worst = (look, rho, g, x)
    if not updated:
        return None
    if worst:
        look, rho, g, x = worst
        return (f'at look angle {look:.3f} rad ({math.degrees(look):.0f} deg) one pass changes the elevation by {g:.3e} rad per foot '
                f'of height error at {x:.1f} ft, while the height there changes by x / cos^2 = {x / math.cos(look) ** 2:.1f} ft per '
                f'radian: the error is multiplied by {rho:+.3f} per pass, so the search does not converge for such a sight line '
                f'although the target is within reach')
    return ''


TCF = 'py_ballisticcalc/trajectory_calc/_trajectory_calc.py'
IFF = 'py_ballisticcalc/interface.py'
VARIANTS = [
    Variant('iteration-counter-on-the-instance', 'break', [(TCF, '        iterations_count = 0\n', ''), (TCF, 'iterations_count', 'self.iterations_count', 3)], 'C02.R1', 'seeded change C02/5: the budget is shared by all zeroings of one calculator'),
    Variant('final-raise-removed', 'break', [(TCF, '        if zero_finding_error > _cZeroFindingAccuracy:\n            # ZeroFindingError contains an instance of last barrel elevation; so caller can check how close zero is\n            raise ZeroFindingError(zero_finding_error, iterations_count, Angular.Radian(self.barrel_elevation))\n', '')], 'C02.R1', 'returns the last elevation although the accuracy was not met', 'pass'),
    Variant('adjust-after-last-measurement', 'break', [(TCF, '            if zero_finding_error > _cZeroFindingAccuracy:\n                # Adjust barrel elevation to close height at zero distance\n                # (the height at a fixed distance changes by distance / cos^2 per radian of elevation)\n                self.barrel_elevation -= (height - height_at_zero) / (zero_distance * (1.0 + look_tangent * look_tangent))\n            else:  # last barrel_elevation hit zero!\n                break\n', '            # Adjust barrel elevation to close height at zero distance\n            self.barrel_elevation -= (height - height_at_zero) / (zero_distance * (1.0 + look_tangent * look_tangent))\n')], 'C02.R1', 'the elevation returned was never measured'),
    Variant('compare-double-accuracy', 'break', [(TCF, '        if zero_finding_error > _cZeroFindingAccuracy:\n            # ZeroFindingError', '        if zero_finding_error > _cZeroFindingAccuracy * 2:\n            # ZeroFindingError')], 'C02.R1'),
    Variant('zero-angle-writes-weapon', 'break', [(TCF, '                self.barrel_elevation -= (height - height_at_zero) / (zero_distance * (1.0 + look_tangent * look_tangent))\n', '                self.barrel_elevation -= (height - height_at_zero) / (zero_distance * (1.0 + look_tangent * look_tangent))\n                shot_info.weapon.zero_elevation = Angular.Radian(self.barrel_elevation)\n')], 'C02.R2', '', 'pass'),
    Variant('stored-zero-includes-look', 'break', [(IFF, '            (total_elevation >> Angular.Radian) - (shot.look_angle >> Angular.Radian)\n', '            (total_elevation >> Angular.Radian)\n')], 'C02.R3', 'uphill shots fire at look + total'),
    Variant('error-against-the-aim-point-height', 'break', [(TCF, 'height_at_zero = look_tangent * (t.distance >> Distance.Foot)', 'height_at_zero = math.sin(self.look_angle) * distance_feet')], 'C02.R4', 'the defect repaired by the first zero_angle fix: the terminal sample lies up to one step beyond the aim point but is compared with the aim point\'s height (1 inch off the sight line at 10 degrees)'),
    Variant('error-uses-sine-of-look', 'break', [(TCF, 'look_tangent = math.tan(self.look_angle)', 'look_tangent = math.sin(self.look_angle)')], 'C02.R4', 'wrong sight line for inclined shots only'),
    Variant('step-sized-for-a-level-sight-line', 'break', [(TCF, ' / (zero_distance * (1.0 + look_tangent * look_tangent))', ' / zero_distance')], 'C02.R5', 'the defect repaired by the second zero_angle fix: no convergence at look angles of 45 degrees and beyond'),
    Variant('twin-gain-by-cosine-squared', 'twin', [(TCF, ' / (zero_distance * (1.0 + look_tangent * look_tangent))', ' * math.cos(self.look_angle) ** 2 / zero_distance')], None),
    Variant('twin-perpendicular-distance', 'twin', [(TCF, 'zero_finding_error = math.fabs(height - height_at_zero)', 'zero_finding_error = math.fabs(height - height_at_zero) * math.cos(self.look_angle)')], None, 'a positive multiple of the vertical distance is still zero exactly on the line (the accuracy is then met a little earlier)'),
    Variant('zero-store-before-search', 'break', [(IFF, '        shot.weapon.zero_elevation = self.barrel_elevation_for_target(shot, zero_distance)\n        return shot.weapon.zero_elevation', '        shot.weapon.zero_elevation = Angular.Radian(0)\n        shot.weapon.zero_elevation = self.barrel_elevation_for_target(shot, zero_distance)\n        return shot.weapon.zero_elevation')], 'C02.R2', 'a failed attempt resets the stored zero'),
    Variant('return-on-cap-without-test', 'break', [(TCF, '        while zero_finding_error > _cZeroFindingAccuracy and iterations_count < _cMaxIterations:', '        while iterations_count < _cMaxIterations:'), (TCF, '        if zero_finding_error > _cZeroFindingAccuracy:\n            # ZeroFindingError', '        if iterations_count > _cMaxIterations:\n            # ZeroFindingError')], 'C02.R1'),
    Variant('twin-accuracy-local-renamed', 'twin', [(TCF, '_cZeroFindingAccuracy', '_acc', 5)], None),
    Variant('twin-le-else-form', 'twin', [(TCF, '            if zero_finding_error > _cZeroFindingAccuracy:\n                # Adjust barrel elevation to close height at zero distance\n                # (the height at a fixed distance changes by distance / cos^2 per radian of elevation)\n                self.barrel_elevation -= (height - height_at_zero) / (zero_distance * (1.0 + look_tangent * look_tangent))\n            else:  # last barrel_elevation hit zero!\n                break\n', '            if zero_finding_error <= _cZeroFindingAccuracy:\n                break\n            self.barrel_elevation -= (height - height_at_zero) / (zero_distance * (1.0 + look_tangent * look_tangent))\n')], None),
]
