"""C16 - Danger space is the contiguous stretch of trajectory within the target."""
from __future__ import annotations

import ast
import re
from typing import Dict, List, Optional, Tuple

from .. import algebra as A
from ..abseval import (Branch, Cond, Const, Ctx, Evaluator, Inst, Leaf, NONE, Raised, Scalar, State, S, SymObj, Test,
                       Undecided, cond_leaves, leaves)
from ..check import Variant
from ..loader import AnalysisError, Func, Program, dotted, norm, parent
from . import common as C

ID = 'C16'
TECHNIQUE = ('abstract evaluation of the two scan predicates to guard normal forms, classified over the '
             'finite set of orderings of (row drop - centre drop) against +-half height; normal forms of '
             'slice bounds, fallbacks and of the half height; guarded-case analysis of the sentinel check')
DECIDED = [
    'R1 each scan stops on |drop - centre drop| >= half height: the predicate is true above and below and '
    'false inside',
    'R2 both sides of the comparison are on one scale (raw magnitudes; half height = raw height / 2), the '
    'begin scan walks the rows before the target row backwards and falls back to the first row, the end scan '
    'walks the rows after it and falls back to the last row, and the target row is the looked-up row',
    'R3 the -1 sentinel of the look-up raises before it can be used as a subscript',
    'R4 refutation only: on every row list of length 1-4 with drops 0 / 1 / 3 ft against a 4 ft target, every'
    ' target row and a look-up that found no row (engine D reading danger_space with for loops over known '
    'lists and while loops with decided conditions unrolled), the rows returned satisfy the statement and the'
    ' -1 look-up raises; a counterexample names the rows; bounds the reading cannot pin to single rows are '
    'unreadable, never a counterexample',
]
NOT_DECIDED = [
    'that the scans are correct over arbitrary row lists (loop correctness), monotonicity in target height',
]


def truth_at(ev: Evaluator, v, env: Dict[str, float]) -> Optional[bool]:
    """Truth of a guarded boolean at a numeric sample point of its symbols (ordering enumeration)."""
    while isinstance(v, Cond):
        t = v.test
        if t.rf is None:
            return None
        try:
            x = t.rf.evalf(env)
        except (KeyError, ZeroDivisionError, ValueError):
            return None
        pol = {'nz': x != 0, 'pos': x > 0, 'nonneg': x >= 0}[t.kind]
        v = v.a if pol else v.b
    if isinstance(v, Const):
        return bool(v.value)
    return None


def value_at(v, env: Dict[str, float]):
    """The alternative of a guarded value selected at a numeric sample point of its guards' symbols (guards that cannot
    be evaluated there leave the value guarded)."""
    while isinstance(v, Cond):
        t = v.test
        if t.rf is None:
            return v
        try:
            x = t.rf.evalf(env)
        except (KeyError, ZeroDivisionError, ValueError):
            return v
        pol = {'nz': x != 0, 'pos': x > 0, 'nonneg': x >= 0}.get(t.kind)
        if pol is None:
            return v
        v = v.a if pol else v.b
    return v


def reachable_leaves(tree, env: Dict[str, float]) -> List[Leaf]:
    if isinstance(tree, Leaf):
        return [tree]
    t = tree.test
    pol = None
    if t.rf is not None:
        try:
            x = t.rf.evalf(env)
            pol = {'nz': x != 0, 'pos': x > 0, 'nonneg': x >= 0}[t.kind]
        except (KeyError, ZeroDivisionError, ValueError):
            pol = None
    if pol is True:
        return reachable_leaves(tree.then, env)
    if pol is False:
        return reachable_leaves(tree.orelse, env)
    return reachable_leaves(tree.then, env) + reachable_leaves(tree.orelse, env)


def _row(ev, st, prog, name: str):
    return C.mk_row(ev, st, prog, name + '_', {'target_drop': C.mk_quantity(ev, st, prog, 'Distance', name, 'Foot')})


def run(prog: Program, rep, thorough: bool) -> None:
    A.reset()
    rep.rule('C16.R1', 'scan predicates are two-sided', 2)
    rep.rule('C16.R2', 'one scale, right slices, right fallbacks', 6)
    rep.rule('C16.R3', 'sentinel raises before use', 1)
    td = prog.module(C.M_TD)
    ds = prog.func(C.M_TD, 'HitResult.danger_space')
    rep.saw(ds)
    rep.rule('C16.R4', 'no counterexample in the finite family of row lists (any shape of the function)', 1)
    wit = witness_search(prog, rep, 'C16.R4')
    if wit:
        rep.fail('C16.R4', td.path, ds.node.lineno, ds.qualname, 'counterexample', 'counterexample: ' + wit)
    elif rep.extra.get('witness_search', {}).get('inputs_read'):
        rep.ok('C16.R4', ds.where, f'{rep.extra["witness_search"]["inputs_read"]} row lists read: bounds bracket the target row, '
               f'rows between are in the band, bounds are out of it or the ends')
    else:
        rep.undecided('C16.R4', ds.where, 'finite family', f'danger_space not readable: {rep.extra.get("witness_search", {}).get("unreadable")}')
    try:
        _shape_rules(prog, rep, td, ds)
    except AnalysisError as exc:
        read = rep.extra.get('witness_search', {}).get('inputs_read', 0)
        if wit:
            rep.note(f'shape rules not applicable to this danger_space ({exc}); the statement is refuted by the counterexample')
        elif read and rep.extra.get('witness_search', {}).get('unreadable') is None:
            # another shape of the scans: nothing is claimed for all inputs, but the finite family (R4) was read in
            # full without a counterexample, so this is not an alarm either
            for r_ in ('C16.R1', 'C16.R2', 'C16.R3'):
                if r_ == 'C16.R3' and (rep.rules[r_].instances or not rep.extra['witness_search'].get('sentinel_inputs_read')):
                    continue
                rep.rules[r_].min_instances = 0
                rep.undecided(r_, ds.where, 'scan shape', f'not readable ({exc}); the finite family of R4 holds')
        else:
            raise


def _shape_rules(prog: Program, rep, td, ds) -> None:
    # the scans: the nested functions that loop over the trajectory rows; other nested functions are helpers, inlined
    # by the evaluator where a scan calls them
    def _loops_over_rows(f: Func) -> bool:
        return any(isinstance(n, ast.For) and any(isinstance(x, ast.Attribute) and x.attr == 'trajectory' for x in ast.walk(n.iter))
                   for n in ast.walk(f.node))
    scans = {n: f for n, f in ds.nested.items() if _loops_over_rows(f)}
    helpers = {n: f for n, f in ds.nested.items() if n not in scans}
    scans_readable = len(scans) == 2
    ev = Evaluator(prog, hooks=C.pref_hooks(prog), opaque={'index_at_distance'})
    hr = prog.cls(C.M_TD, 'HitResult')

    # ---- prefix: half height -----------------------------------------------------------------
    defs_ = [f.node.lineno for f in (scans or ds.nested).values()] or [max(s_.lineno for s_ in ds.node.body)]
    first_def = min(defs_)
    last_def = max(defs_)
    prefix = [s for s in ds.node.body if (s.lineno < first_def and not isinstance(s, ast.FunctionDef))
              or (isinstance(s, ast.FunctionDef) and s.name in helpers and s.lineno < last_def)]
    st = State()
    selfv = SymObj('self', hr)
    env = {ds.positional[0]: selfv, 'at_range': C.mk_quantity(ev, st, prog, 'Distance', 'R', 'Yard'),
           'target_height': C.mk_quantity(ev, st, prog, 'Distance', 'H', 'Inch'), 'look_angle': NONE}
    st.env.update(env)
    try:
        tree = ev.exec_block(prefix, st, Ctx(td, ds, None, 0))
    except Undecided as exc:
        raise AnalysisError(f'danger_space prefix: {exc}') from exc
    # sentinel
    idx_syms = set()
    for _p, leaf in leaves(tree):
        for t, _pol in _p:
            if t.rf is not None:
                idx_syms |= {s for s in t.rf.symbols() if 'index_at_distance' in s}
    if len(idx_syms) != 1:
        rep.fail('C16.R3', td.path, ds.node.lineno, ds.qualname, 'sentinel',
                 'danger_space does not test the result of index_at_distance before using it as a subscript')
        idx_sym = None
    else:
        idx_sym = next(iter(idx_syms))
        at_m1 = reachable_leaves(tree, {idx_sym: -1.0})
        ok_m1 = all(l.kind == 'raise' for l in at_m1)
        ok_pos = all(any(l.kind != 'raise' for l in reachable_leaves(tree, {idx_sym: float(k)})) for k in (0, 1, 7))
        if ok_m1 and ok_pos:
            rep.ok('C16.R3', ds.where, 'index -1 raises on every path; indices 0, 1, 7 proceed')
        else:
            rep.fail('C16.R3', td.path, ds.node.lineno, ds.qualname, 'sentinel',
                     'the sentinel check does not raise for index -1 (Python would silently use the last row)'
                     if not ok_m1 else 'the sentinel check also rejects valid indices')
    if not scans_readable:
        raise AnalysisError(f'danger_space: expected two nested scan functions looping over the rows, found {sorted(scans)} '
                            f'(other nested functions {sorted(helpers)})')
    half = None
    half_name = None
    for _p, leaf in leaves(tree):
        if leaf.kind == 'raise':
            continue
        for n, v in leaf.state.env.items():
            if isinstance(v, Scalar) and v.rf.depends_on('H') and not isinstance(env.get(n), Inst):
                half, half_name = v.rf, n
    if half is None:
        raise AnalysisError('danger_space: half target height not found before the scans')
    closure_env: Dict[str, object] = {}
    closure_heap: Dict[int, object] = {}
    for _p, leaf in leaves(tree):
        if leaf.kind != 'raise':
            closure_env = dict(leaf.state.env)
            closure_heap = dict(leaf.state.heap)
            break
    # ---- scans ---------------------------------------------------------------------------------
    roles = {}
    for name, f in scans.items():
        rep.saw(f)
        loops = [s for s in f.node.body if isinstance(s, ast.For)]
        if len(loops) != 1:
            raise AnalysisError(f'{name}: expected one for loop')
        loop = loops[0]
        # The loop body is evaluated once on a symbolic scanned row p (centre row c = self.trajectory[row_num], half
        # height h): the paths on which it returns are the bound predicate, and what it returns there must be p itself.
        # The loop may run over the rows or over their indices; locals set in the body are read through.
        st = State()
        st.heap.update(closure_heap)
        if not f.positional:
            raise AnalysisError(f'{name}: the scan takes no row index (the centre row is closed over): shape not read')
        rownum = f.positional[0]
        st.env.update(closure_env)
        st.env[rownum] = S('k')
        st.env[ds.positional[0]] = SymObj('self', hr)
        st.env['__centre__'] = _row(ev, st, prog, 'c')
        st.env[half_name] = S('h')
        tgt = loop.target.id if isinstance(loop.target, ast.Name) else None
        if tgt is None:
            raise AnalysisError(f'{name}: structured loop target')
        over_indices = isinstance(loop.iter, ast.Call) and (dotted(loop.iter.func) or '') == 'range'
        traj = f'{ds.positional[0]}.trajectory'

        class _Centre(ast.NodeTransformer):
            def visit_Subscript(self_, node):
                if norm(node.value) == traj and norm(node.slice) == rownum:
                    return ast.copy_location(ast.Name(id='__centre__', ctx=ast.Load()), node)
                if over_indices and norm(node.value) == traj and norm(node.slice) == tgt:
                    return ast.copy_location(ast.Name(id='__p__', ctx=ast.Load()), node)
                return self_.generic_visit(node)
        import copy
        pre_loop = [_Centre().visit(copy.deepcopy(s_)) for s_ in f.node.body
                    if s_.lineno < loop.lineno and not (isinstance(s_, ast.Expr) and isinstance(s_.value, ast.Constant))]
        body2 = [_Centre().visit(copy.deepcopy(s_)) for s_ in loop.body]
        for s_ in pre_loop + body2:
            ast.fix_missing_locations(s_)
        try:
            t_pre = ev.exec_block(pre_loop, st, Ctx(td, f, None, 0))
            if not isinstance(t_pre, Leaf) or t_pre.kind != 'fall':
                raise Undecided('branching before the scan loop')
            st = t_pre.state
            prow = _row(ev, st, prog, 'p')
            st.env['__p__'] = prow
            st.env[tgt] = S('j') if over_indices else prow
            body_tree = ev.exec_block(body2, st, Ctx(td, f, None, 0))
        except Undecided as exc:
            raise AnalysisError(f'{name} loop body: {exc}') from exc
        rets = [(pth, lf) for pth, lf in leaves(body_tree) if lf.kind == 'return']
        if not rets:
            raise AnalysisError(f'{name}: the loop body never returns')
        wrong_val = [lf for _pth, lf in rets if not (isinstance(lf.value, Inst) and lf.value.oid == prow.oid)]
        first_if = next((s_ for s_ in loop.body if isinstance(s_, ast.If)), loop)
        if wrong_val:
            rep.fail('C16.R2', td.path, first_if.lineno, f.qualname, f'{name}:returns',
                     f'{name} returns {wrong_val[0].value!r} instead of the row that met the bound')

        class _IfsShim:          # the messages below name the test and its line
            pass
        ifs = [first_if]
        test = first_if.test if isinstance(first_if, ast.If) else loop.iter

        def _truth(env_):
            kinds = {lf.kind for lf in reachable_leaves(body_tree, env_)}
            if kinds == {'return'}:
                return True
            if 'return' not in kinds and 'raise' not in kinds:
                return False
            return None

        class _PV:               # what truth_at needs: a callable view of the body tree
            pass
        pv = None
        used = set()
        for pth, _lf in leaves(body_tree):
            for t, _pol in pth:
                if t.rf is not None:
                    used |= t.rf.symbols()
                elif t.kind == 'opaque':
                    used.add(t.key)
        # classification over the orderings of delta = p - c against +-h (h > 0)
        samples = {'above (delta = +2h)': {'p': 3.0, 'c': 1.0, 'h': 1.0}, 'at +h': {'p': 2.0, 'c': 1.0, 'h': 1.0},
                   'inside (delta = 0.5h)': {'p': 1.5, 'c': 1.0, 'h': 1.0}, 'inside (delta = -0.5h)': {'p': 0.5, 'c': 1.0, 'h': 1.0},
                   'at -h': {'p': 0.0, 'c': 1.0, 'h': 1.0}, 'below (delta = -2h)': {'p': -1.0, 'c': 1.0, 'h': 1.0}}
        want = {'above (delta = +2h)': True, 'at +h': True, 'inside (delta = 0.5h)': False, 'inside (delta = -0.5h)': False,
                'at -h': True, 'below (delta = -2h)': True}
        got = {k: _truth(e) for k, e in samples.items()}
        if None in got.values() or not used <= {'p', 'c', 'h'}:
            extra = sorted(used - {'p', 'c', 'h'})
            rep.fail('C16.R2', td.path, ifs[0].lineno, f.qualname, f'{name}:scale',
                     f'{name}: the bound test `{norm(test)[:80]}` is not a comparison of (drop of the scanned row - drop of '
                     f'the target row self.trajectory[{rownum}]) with the half height on one scale: it reads {extra[:4]}')
            continue
        rep.ok('C16.R2', td.where(ifs[0]), f'{name}: drops and half height compared as raw magnitudes')
        wrong = [k for k in want if got[k] != want[k]]
        if wrong:
            side = 'one-sided' if all(('above' in k or 'below' in k or 'at ' in k) for k in wrong) else 'wrong'
            rep.fail('C16.R1', td.path, ifs[0].lineno, f.qualname, f'{name}:predicate',
                     f'{name}: the bound test `{norm(test)[:90]}` is {side}: it is {got[wrong[0]]} for a row {wrong[0]}; '
                     f'rows further than half the target height on that side stay inside the danger space')
        else:
            rep.ok('C16.R1', td.where(ifs[0]), f'{name}: |drop - centre drop| >= half height (true above and below, false inside)')
        # slices and fallbacks
        it = loop.iter
        rev = isinstance(it, ast.Call) and (dotted(it.func) or '') == 'reversed' and len(it.args) == 1
        sl = it.args[0] if rev else it
        fallback = [s for s in f.node.body if isinstance(s, ast.Return) and s.lineno > loop.lineno]
        fb = norm(fallback[-1].value) if fallback else None
        kind = None
        if isinstance(sl, ast.Subscript) and norm(sl.value) == 'self.trajectory' and isinstance(sl.slice, ast.Slice) \
                and sl.slice.step is None:
            k = A.sym('k')
            def bound(e):
                if e is None:
                    return None
                try:
                    v = ev.eval(e, State({rownum: S('k')}), Ctx(td, f, None, 0))
                    return v.rf if isinstance(v, Scalar) else 'x'
                except Undecided as exc:
                    raise AnalysisError(f'{name}: slice bound {norm(e)}: {exc}') from exc
            lo, hi = bound(sl.slice.lower), bound(sl.slice.upper)
            if rev and (lo is None or (isinstance(lo, A.RF) and lo.is_zero())) and isinstance(hi, A.RF) \
                    and (hi.equals(k) or hi.equals(k + 1)):
                kind = 'begin'
            elif not rev and hi is None and isinstance(lo, A.RF) and (lo.equals(k + 1) or lo.equals(k)):
                kind = 'end'
        elif over_indices and not loop.iter.keywords and 2 <= len(loop.iter.args) <= 3:
            # for i in range(k + 1, len(self.trajectory))   /   for i in range(k - 1, -1, -1)
            k = A.sym('k')
            nrows = A.sym('len(self.trajectory)')
            try:
                vals = [ev.eval(a_, State({rownum: S('k'), ds.positional[0]: SymObj('self', hr)}), Ctx(td, f, None, 0))
                        for a_ in loop.iter.args]
            except Undecided as exc:
                raise AnalysisError(f'{name}: range bounds: {exc}') from exc
            if all(isinstance(v_, Scalar) for v_ in vals):
                lo, hi = vals[0].rf, vals[1].rf
                step = vals[2].rf if len(vals) == 3 else A.rf(1)
                if step.equals(A.rf(1)) and (lo.equals(k + 1) or lo.equals(k)) and hi.equals(nrows):
                    kind = 'end'
                elif step.equals(A.rf(-1)) and (lo.equals(k - 1) or lo.equals(k)) and hi.equals(A.rf(-1)):
                    kind = 'begin'
        else:
            raise AnalysisError(f'{name}: the scan iterates `{norm(it)[:60]}`: not a slice of the rows or a range of their indices')
        if kind is None:
            rep.fail('C16.R2', td.path, loop.lineno, f.qualname, f'{name}:slice',
                     f'{name} scans `{norm(it)[:70]}`: neither the rows before the target row walked backwards nor the '
                     f'rows after it walked forwards')
            continue
        want_fb = 'self.trajectory[0]' if kind == 'begin' else 'self.trajectory[-1]'
        if fb == want_fb:
            rep.ok('C16.R2', td.where(loop), f'{name}: {kind} scan over `{norm(it)}`, falls back to {want_fb}')
        else:
            rep.fail('C16.R2', td.path, (fallback[-1].lineno if fallback else loop.lineno), f.qualname, f'{name}:fallback',
                     f'{name} ({kind} scan) falls back to `{fb}`, expected {want_fb}')
        roles[kind] = name
    # constructor roles
    rets = [r for r in ds.node.body if isinstance(r, ast.Return) and isinstance(r.value, ast.Call)
            and (dotted(r.value.func) or '') == 'DangerSpace']
    if not rets:
        raise AnalysisError('danger_space does not return DangerSpace(...)')
    dsc = prog.cls(C.M_TD, 'DangerSpace')
    flds = prog.namedtuple_fields(dsc)
    args = dict(zip(flds, rets[0].value.args))
    args.update({k.arg: k.value for k in rets[0].value.keywords})
    idx_names = [n for n in ast.walk(ds.node) if isinstance(n, ast.NamedExpr) and isinstance(n.value, ast.Call)
                 and isinstance(n.value.func, ast.Attribute) and n.value.func.attr == 'index_at_distance']
    idx_names += [n for n in ast.walk(ds.node) if isinstance(n, ast.Assign) and isinstance(n.value, ast.Call)
                  and isinstance(n.value.func, ast.Attribute) and n.value.func.attr == 'index_at_distance']
    iname = None
    if idx_names:
        n0 = idx_names[0]
        iname = n0.target.id if isinstance(n0, ast.NamedExpr) else n0.targets[0].id
    want_args = {'at_range': f'self.trajectory[{iname}]', 'begin': f'{roles.get("begin")}({iname})',
                 'end': f'{roles.get("end")}({iname})'}
    # names that are plain copies of the index found (an inlined helper hands it over through a temporary)
    alias = {iname} if iname else set()
    grew = True
    while grew:
        grew = False
        for a_ in ast.walk(ds.node):
            if isinstance(a_, ast.Assign) and len(a_.targets) == 1 and isinstance(a_.targets[0], ast.Name) \
                    and isinstance(a_.value, ast.Name) and a_.value.id in alias and a_.targets[0].id not in alias:
                alias.add(a_.targets[0].id)
                grew = True

    def canon(e) -> str:
        t = norm(e)
        for nm in sorted(alias - {iname}, key=len, reverse=True):
            t = re.sub(rf'\b{re.escape(nm)}\b', iname, t)
        return t
    bad = {k: norm(args[k]) for k in want_args if k not in args or canon(args[k]) != want_args[k]}
    if bad:
        rep.fail('C16.R2', td.path, rets[0].lineno, ds.qualname, 'roles',
                 f'DangerSpace is built with {bad}, expected {want_args}')
    else:
        rep.ok('C16.R2', td.where(rets[0]), f'DangerSpace(at_range = row {iname}, begin = begin scan, end = end scan)')
    want_half = A.sym('H') / 2
    if half.equals(want_half):
        rep.ok('C16.R2', ds.where, 'half height = raw target height / 2 (same scale as the raw drops)')
    else:
        rep.fail('C16.R2', td.path, ds.node.lineno, ds.qualname, 'half-height',
                 f'half height is {half!r} for a target of raw height H; the drops are compared as raw magnitudes, so '
                 f'it must be H/2')


def witness_search(prog: Program, rep, rule: str) -> Optional[str]:
    """Counterexample search over a finite family, whatever the shape of danger_space: engine D reads the function with
    every `for` over a known list unrolled (opt-in) on row lists of length 1-4 whose drops are 0, 1 or 3 against a half
    height of 2 (so 0 and 1 are within the band of each other, 3 is outside it of 0 and exactly on its edge of 1), for
    every target row.  The statement is then checked on the rows returned: the bounds bracket the target row, every row
    strictly between them is within half the height of the target row's drop, and each bound is the first / last row
    or a row at least half the height away.  Only a violation carries weight (it names the rows); finding none proves
    nothing and is reported as such."""
    import itertools
    from fractions import Fraction
    td = prog.module(C.M_TD)
    ds = prog.func(C.M_TD, 'HitResult.danger_space')
    hr = prog.cls(C.M_TD, 'HitResult')
    idx_box = {}

    def h_index(ev_, func, args, kwargs, st_, self_val):
        return Scalar(idx_box['k'])
    ev = Evaluator(prog, hooks={**C.pref_hooks(prog), 'call:HitResult.index_at_distance': h_index,
                                'call:HitResult.__check_extra__': lambda *a: NONE})
    ev.unroll = True
    tried = 0
    sentinel_read = 0
    unreadable = None
    for n in (1, 2, 3, 4):
        for drops in itertools.product((0, 1, 3), repeat=n):
            for k in [-1] + list(range(n)):
                idx_box['k'] = k
                st = State()
                rows = [C.mk_row(ev, st, prog, f'r{i}_', {'target_drop': C.mk_quantity(ev, st, prog, 'Distance', Scalar(Fraction(d)), 'Foot'),
                                                           'distance': C.mk_quantity(ev, st, prog, 'Distance', Scalar(Fraction(100 * i)), 'Yard')})
                        for i, d in enumerate(drops)]
                selfv = ev.new_inst(st, hr, {'trajectory': ev.new_list(st, rows), 'extra': Const(True), 'shot': SymObj('shot')})
                ev.evals, ev.budget = 0, 60000
                try:
                    r, st = ev.call_value(ds, [C.mk_quantity(ev, st, prog, 'Distance', Scalar(Fraction(100 * k)), 'Yard'),
                                               C.mk_quantity(ev, st, prog, 'Distance', Scalar(Fraction(4)), 'Foot')],
                                          self_val=selfv, st=st)
                except Undecided as exc:
                    unreadable = str(exc)
                    continue
                outs = [x for _p, x in cond_leaves(r)]
                if k == -1:
                    # the look-up found no row: the call must raise, whatever the rows are
                    if len(outs) == 1 and isinstance(outs[0], Raised):
                        sentinel_read += 1
                    elif len(outs) == 1 and isinstance(outs[0], Inst):
                        return (f'drops {list(drops)} (feet), a target beyond the last row (look-up result -1): a danger space is '
                                f'returned instead of an error (Python takes row -1, the last row)')
                    else:
                        unreadable = f'result {outs!r} for the -1 look-up'
                    continue
                if len(outs) != 1 or not isinstance(outs[0], Inst):
                    unreadable = f'result {outs!r}'
                    continue
                fields = st.heap[outs[0].oid]
                if not all(isinstance(fields.get(f), Inst) for f in ('begin', 'end', 'at_range')):
                    unreadable = f'bounds {[fields.get(f) for f in ("begin", "end", "at_range")]!r} are not single rows in the abstract reading'
                    continue
                tried += 1
                pos = {row.oid: i for i, row in enumerate(rows)}
                b, e, a = (pos.get(getattr(fields.get(f), 'oid', None)) for f in ('begin', 'end', 'at_range'))
                where = f'drops {list(drops)} (feet), target height 4 ft, target row {k}'
                if b is None or e is None or a is None:
                    return f'{where}: the danger space is not bounded by rows of the trajectory'
                if a != k:
                    return f'{where}: the row reported as the target row is row {a}'
                if not b <= k <= e:
                    return f'{where}: bounds are rows {b} and {e}, which do not bracket the target row'
                far = lambda i: abs(drops[i] - drops[k]) >= 2
                inside = [i for i in range(b + 1, e) if i != k and far(i)]
                if inside:
                    return (f'{where}: bounds are rows {b} and {e}, but row {inside[0]} between them has drop {drops[inside[0]]}, '
                            f'{abs(drops[inside[0]] - drops[k])} ft from the target row\'s: not within half the height')
                if b != 0 and b != k and not far(b) or (b == k and k != 0):
                    return f'{where}: the begin bound is row {b}, neither the first row nor a row half the height away'
                if e != n - 1 and e != k and not far(e) or (e == k and k != n - 1):
                    return f'{where}: the end bound is row {e}, neither the last row nor a row half the height away'
    rep.extra['witness_search'] = {'inputs_read': tried, 'sentinel_inputs_read': sentinel_read, 'unreadable': unreadable}
    return None


TDF = 'py_ballisticcalc/trajectory_data/_trajectory_data.py'
VARIANTS = [
    Variant('sentinel-guard-weakened', 'break', [(TDF, '        if (index := self.index_at_distance(at_range)) < 0:', '        if (index := self.index_at_distance(at_range)) < -1:')], 'C16.R3', '', 'pass'),
    Variant('half-height-in-feet', 'break', [(TDF, 'target_height_half = target_height.raw_value / 2.0', 'target_height_half = (target_height >> Distance.Foot) / 2.0')], 'C16.R2', 'drop raw (inch) compared with half height in feet'),
    Variant('begin-scan-one-sided', 'break', [(TDF, 'if abs(prime_row.target_drop.raw_value - center_row.target_drop.raw_value) >= target_height_half:\n                    return prime_row\n            return self.trajectory[0]', 'if (prime_row.target_drop.raw_value - center_row.target_drop.raw_value) >= target_height_half:\n                    return prime_row\n            return self.trajectory[0]')], 'C16.R1', 'the defect repaired in /repo', 'pass'),
    Variant('end-scan-falls-back-to-first', 'break', [(TDF, '            return self.trajectory[-1]', '            return self.trajectory[0]')], 'C16.R2'),
    Variant('begin-scan-forward', 'break', [(TDF, 'for prime_row in reversed(self.trajectory[:row_num]):', 'for prime_row in self.trajectory[:row_num]:')], 'C16.R2', 'returns the farthest qualifying row: not contiguous'),
    Variant('strict-bound', 'break', [(TDF, 'if abs(center_row.target_drop.raw_value - prime_row.target_drop.raw_value) >= target_height_half:', 'if abs(center_row.target_drop.raw_value - prime_row.target_drop.raw_value) > target_height_half:')], 'C16.R1', 'a row exactly half a height away no longer bounds'),
    Variant('at-range-off-by-one', 'break', [(TDF, 'return DangerSpace(self.trajectory[index],', 'return DangerSpace(self.trajectory[index - 1],')], 'C16.R2'),
    Variant('twin-drop-helper', 'twin', [(TDF, '        def find_begin_danger(row_num: int) -> TrajectoryData:', '        def drop_of(row: TrajectoryData) -> float:\n            return row.target_drop.raw_value\n\n        def find_begin_danger(row_num: int) -> TrajectoryData:'), (TDF, '            center_row = self.trajectory[row_num]\n            for prime_row in reversed(self.trajectory[:row_num]):\n                if abs(prime_row.target_drop.raw_value - center_row.target_drop.raw_value) >= target_height_half:', '            center_drop = drop_of(self.trajectory[row_num])\n            for prime_row in reversed(self.trajectory[:row_num]):\n                if abs(drop_of(prime_row) - center_drop) >= target_height_half:')], None, 'the centre taken through a nested helper and kept as a number'),
    Variant('drops-in-preferred-drop-unit', 'break', [(TDF, '        def find_begin_danger(row_num: int) -> TrajectoryData:', '        def drop_of(row: TrajectoryData) -> float:\n            return row.target_drop >> PreferredUnits.drop\n\n        def find_begin_danger(row_num: int) -> TrajectoryData:'), (TDF, '            center_row = self.trajectory[row_num]\n            for prime_row in reversed(self.trajectory[:row_num]):\n                if abs(prime_row.target_drop.raw_value - center_row.target_drop.raw_value) >= target_height_half:', '            center_drop = drop_of(self.trajectory[row_num])\n            for prime_row in reversed(self.trajectory[:row_num]):\n                if abs(drop_of(prime_row) - center_drop) >= target_height_half:')], 'C16.R2', 'seeded change C16/4 in part: drops in the preferred drop unit against a raw half height'),
    Variant('centre-from-look-angle', 'break', [(TDF, '            center_row = self.trajectory[row_num]\n            for prime_row in self.trajectory[row_num + 1:]:\n                if abs(center_row.target_drop.raw_value - prime_row.target_drop.raw_value) >= target_height_half:', '            center_row = self.trajectory[row_num]\n            for prime_row in self.trajectory[row_num + 1:]:\n                if abs(center_row.target_drop.raw_value - (prime_row.height.raw_value - prime_row.distance.raw_value * math.tan(_look_angle.raw_value))) >= target_height_half:'), (TDF, 'from dataclasses import dataclass, field\n', 'import math\nfrom dataclasses import dataclass, field\n')], 'C16.R2', 'seeded change C16/6 in part: the scanned row\'s drop recomputed from the look_angle argument'),
    Variant('whole-trajectory-band', 'break', [(TDF, '        return DangerSpace(self.trajectory[index],\n                           target_height,\n                           find_begin_danger(index),\n                           find_end_danger(index),', '        c_ = self.trajectory[index].target_drop.raw_value\n        hits = [i for i, row in enumerate(self.trajectory) if abs(row.target_drop.raw_value - c_) < target_height_half] or [index]\n        return DangerSpace(self.trajectory[index],\n                           target_height,\n                           self.trajectory[max(hits[0] - 1, 0)],\n                           self.trajectory[min(hits[-1] + 1, len(self.trajectory) - 1)],')], 'C16.R4', 'seeded change C16/2 in spirit: first / last in-band row over the whole trajectory'),
    Variant('twin-end-scan-over-indices', 'twin', [(TDF, '            center_row = self.trajectory[row_num]\n            for prime_row in self.trajectory[row_num + 1:]:\n                if abs(center_row', '            center_row = self.trajectory[row_num]\n            for i in range(row_num + 1, len(self.trajectory)):\n                prime_row = self.trajectory[i]\n                if abs(center_row')], None),
    Variant('twin-begin-scan-next-generator', 'twin', [(TDF, '            center_row = self.trajectory[row_num]\n            for prime_row in reversed(self.trajectory[:row_num]):\n                if abs(prime_row.target_drop.raw_value - center_row.target_drop.raw_value) >= target_height_half:\n                    return prime_row\n            return self.trajectory[0]\n', '            center = self.trajectory[row_num].target_drop.raw_value\n            return next((prime_row for prime_row in reversed(self.trajectory[:row_num])\n                         if abs(prime_row.target_drop.raw_value - center) >= target_height_half), self.trajectory[0])\n')], None, 'shape not readable by the scan rules; the finite family holds: undecided, exit 0'),
    Variant('twin-explicit-or', 'twin', [(TDF, 'if abs(center_row.target_drop.raw_value - prime_row.target_drop.raw_value) >= target_height_half:', 'if (center_row.target_drop.raw_value - prime_row.target_drop.raw_value) >= target_height_half or (prime_row.target_drop.raw_value - center_row.target_drop.raw_value) >= target_height_half:')], None),
    Variant('twin-guard-eq-minus-one', 'twin', [(TDF, '        if (index := self.index_at_distance(at_range)) < 0:', '        if (index := self.index_at_distance(at_range)) == -1:')], None),
    Variant('twin-guard-le-minus-one', 'twin', [(TDF, '        if (index := self.index_at_distance(at_range)) < 0:', '        if (index := self.index_at_distance(at_range)) <= -1:')], None),
]
