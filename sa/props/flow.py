"""Facts about the integration loop shared by several properties (roles are read from the code:
the variables passed to ``create_trajectory_row`` are the state, the loop that queries the
atmosphere is the integration loop, ...)."""
from __future__ import annotations

import ast
from typing import Dict, List, Optional, Set, Tuple

from ..cfg import CFG, Deps, Node, defs_of, loc_of, reaching_definitions, uses_of
from ..loader import AnalysisError, Func, Program, dotted, norm
from . import common as C

DENSITY_CALL = 'get_density_factor_and_mach_for_altitude'
ROW_ROLES = ['time', 'range_vector', 'velocity_vector', 'velocity', 'mach', 'spin_drift', 'look_angle', 'density_factor',
             'drag', 'weight', 'flag']


class IntegrateFacts:
    def __init__(self, prog: Program):
        self.prog = prog
        self.func = prog.func(C.M_TC, 'TrajectoryCalc._integrate')
        self.mod = self.func.module
        fn = self.func.node
        self.cfg = CFG(fn)
        self.params = self.func.params
        self.deps = Deps(self.cfg, self.params)
        self.rd = self.deps.rd
        # the integration loop: the while statement whose body queries the atmosphere
        loops = [n for n in ast.walk(fn) if isinstance(n, ast.While)
                 and any(isinstance(c, ast.Call) and isinstance(c.func, ast.Attribute) and c.func.attr == DENSITY_CALL
                         for c in ast.walk(n))]
        if len(loops) != 1:
            raise AnalysisError(f'_integrate: expected one loop calling {DENSITY_CALL}, found {len(loops)}')
        self.loop = loops[0]
        self.loop_head = self.cfg.node_of(self.loop.test)
        # the loop's end test may also be spelled as leading `if <cond>: break` statements (`while True:` + a guard)
        self.loop_controls = {self.loop_head}
        for st_ in self.loop.body:
            if isinstance(st_, ast.If) and not st_.orelse and len(st_.body) == 1 and isinstance(st_.body[0], ast.Break):
                n_ = self.cfg.node_of(st_.test)
                if n_ is not None:
                    self.loop_controls.add(n_)
                continue
            if isinstance(st_, ast.Expr) and isinstance(st_.value, ast.Constant):
                continue
            break
        self.loop_nodes = {n.id for n in self.cfg.nodes if n.ast is not None and self._inside(n.ast, self.loop)}
        # row creation sites
        self.row_calls = [c for c in ast.walk(fn) if isinstance(c, ast.Call)
                          and isinstance(c.func, ast.Name) and c.func.id == 'create_trajectory_row']
        if len(self.row_calls) < 2:
            raise AnalysisError('_integrate: fewer than two create_trajectory_row call sites')
        # the row builder's parameters are known by role; a renamed parameter keeps its role by position
        actual = prog.func(C.M_TC, 'create_trajectory_row').positional
        if len(actual) < len(ROW_ROLES):
            raise AnalysisError(f'create_trajectory_row takes {actual}: not the {len(ROW_ROLES)} roles {ROW_ROLES}')
        # further parameters behind the known ones keep their own names as roles (the rules that evaluate the row
        # builder bind them to unknowns of their own, so a column that comes to depend on one is seen to)
        extra = [f'extra:{a}' for a in actual[len(ROW_ROLES):]]
        self.row_param_role = dict(zip(actual, list(ROW_ROLES) + extra))
        self.row_params = list(ROW_ROLES) + extra
        # state roles from the row sites that pass plain names for (time, position, velocity vector)
        roles = None
        # (names bound only inside the loop are not the state: a sample unpacked into locals before its row is built)
        bound_outside = {x.id for st_ in ast.walk(fn) if isinstance(st_, (ast.Assign, ast.AnnAssign, ast.AugAssign))
                         and not self._inside(st_, self.loop)
                         for t_ in (st_.targets if isinstance(st_, ast.Assign) else [st_.target])
                         for x in ast.walk(t_) if isinstance(x, ast.Name)} | set(self.func.params)
        self.bound_outside = bound_outside
        for c in self.row_calls:
            a = self.row_args(c)
            trip = (a.get('time'), a.get('range_vector'), a.get('velocity_vector'))
            if all(isinstance(x, ast.Name) for x in trip):
                names = tuple(x.id for x in trip)
                if not all(n_ in bound_outside for n_ in names):
                    continue
                if roles is None:
                    roles = names
                elif roles != names:
                    raise AnalysisError(f'_integrate: row sites disagree on the state variables: {roles} vs {names}')
        if roles is None:
            raise AnalysisError('_integrate: no row site passes the state as plain names')
        self.t, self.P, self.V = roles
        # density call
        dens = [n for n in self.cfg.nodes if n.ast is not None and n.id in self.loop_nodes and n.kind == 'stmt'
                and isinstance(n.ast, ast.Assign) and isinstance(n.ast.value, ast.Call)
                and isinstance(n.ast.value.func, ast.Attribute) and n.ast.value.func.attr == DENSITY_CALL]
        if not dens:
            raise AnalysisError('_integrate: the density call is not an assignment in the loop')
        # the step's query: the one that runs on every iteration (not under a guard); further queries (a refresh
        # before a terminal row, say) are kept and must ask for the same altitude expression
        cdep = self.cfg.control_dependence()
        uncond = [n for n in dens if all(self.cfg.nodes[t] in self.loop_controls for t, _l in cdep[n.id])]
        self.density_node = (uncond or dens)[0]
        self.density_nodes = dens
        names = set()
        for n in dens:
            tgt = n.ast.targets[0]
            if not (isinstance(tgt, ast.Tuple) and len(tgt.elts) == 2 and all(isinstance(e, ast.Name) for e in tgt.elts)):
                raise AnalysisError('_integrate: density call result is not unpacked into two names')
            names.add((tgt.elts[0].id, tgt.elts[1].id))
        if len(names) != 1:
            raise AnalysisError(f'_integrate: the density queries are unpacked into different names: {sorted(names)}')
        self.rho, self.a = next(iter(names))
        # should_record call
        self.record_calls = [c for c in ast.walk(self.loop) if isinstance(c, ast.Call)
                             and isinstance(c.func, ast.Attribute) and c.func.attr == 'should_record']

    @staticmethod
    def _inside(node: ast.AST, outer: ast.AST) -> bool:
        cur = node
        while cur is not None:
            if cur is outer:
                return True
            cur = getattr(cur, '_parent', None)
        return False

    def row_args(self, call: ast.Call) -> Dict[str, ast.AST]:
        out = {}
        for p, a in zip(self.row_params, call.args):
            out[p] = a
        for k in call.keywords:
            if k.arg:
                out[self.row_param_role.get(k.arg, k.arg)] = k.value
        return out

    def defs_reaching(self, at: ast.AST, name: str) -> List[Node]:
        n = self.cfg.node_of(at)
        if n is None:
            raise AnalysisError(f'no CFG node for {norm(at)[:40]}')
        ids = self.rd[n.id].get(name, set())
        return [self.cfg.nodes[i] for i in sorted(ids)]

    def in_loop(self, n: Node) -> bool:
        return n.id in self.loop_nodes

    def time_step_def(self) -> Optional[ast.Assign]:
        """The single assignment defining the local that is added to the time in the loop (`t += tau`, `t = t + tau`,
        `t = tau + t`); None when the increment is not a plain local with one reaching plain definition."""
        tau_def = None
        for n in ast.walk(self.loop):
            inc = None
            if isinstance(n, ast.AugAssign) and isinstance(n.target, ast.Name) and n.target.id == self.t \
                    and isinstance(n.op, ast.Add) and isinstance(n.value, ast.Name):
                inc = n.value.id
            elif isinstance(n, ast.Assign) and len(n.targets) == 1 and isinstance(n.targets[0], ast.Name) \
                    and n.targets[0].id == self.t and isinstance(n.value, ast.BinOp) and isinstance(n.value.op, ast.Add):
                a_, b_ = n.value.left, n.value.right
                if isinstance(a_, ast.Name) and isinstance(b_, ast.Name) and self.t in (a_.id, b_.id) and a_.id != b_.id:
                    inc = b_.id if a_.id == self.t else a_.id
            if inc is not None:
                defs = self.defs_reaching(n, inc)
                if len(defs) == 1 and isinstance(defs[0].ast, ast.Assign):
                    tau_def = defs[0].ast
        return tau_def


def _assigned_value(n: Node, name: str) -> Optional[ast.AST]:
    """Value expression assigned to ``name`` by node n (None for tuple-unpack, for-targets, ...)."""
    a = n.ast
    if isinstance(a, ast.Assign) and len(a.targets) == 1 and isinstance(a.targets[0], ast.Name) \
            and a.targets[0].id == name:
        return a.value
    if isinstance(a, ast.AnnAssign) and isinstance(a.target, ast.Name) and a.target.id == name:
        return a.value
    return None


def check_row_sites(prog: Program, rep, rule: str) -> None:
    F = IntegrateFacts(prog)
    rep.saw(F.func)
    mod, fq = F.mod, F.func.qualname
    loop_time = F.t
    record_result_names = set()
    for rc in F.record_calls:
        p = getattr(rc, '_parent', None)
        while isinstance(p, ast.IfExp):          # `data = flt.should_record(...) if flags else None`
            p = getattr(p, '_parent', None)
        if isinstance(p, ast.NamedExpr):
            record_result_names.add(p.target.id)
        elif isinstance(p, ast.Assign) and isinstance(p.targets[0], ast.Name):
            record_result_names.add(p.targets[0].id)
    loop_assigned = set()
    for n_ in ast.walk(F.loop):
        if isinstance(n_, ast.Name) and isinstance(n_.ctx, ast.Store):
            loop_assigned.add(n_.id)
    # fields of the sample record by position: a sample unpacked into locals (`t, p, v, m = data`) is read as its fields
    sample_fields: List[str] = []
    for cname in ('BaseTrajData',):
        if cname in mod.classes:
            sample_fields = [s_.target.id for s_ in mod.classes[cname].node.body
                             if isinstance(s_, ast.AnnAssign) and isinstance(s_.target, ast.Name)]

    def through_unpack(expr: ast.AST, at: ast.AST) -> ast.AST:
        import copy as _copy

        class _T(ast.NodeTransformer):
            def visit_Name(self, n):
                if not isinstance(n.ctx, ast.Load):
                    return n
                try:
                    ds = F.defs_reaching(at, n.id)
                except AnalysisError:
                    return n
                if len(ds) != 1:
                    return n
                d = ds[0].ast
                if isinstance(d, ast.Assign) and len(d.targets) == 1 and isinstance(d.targets[0], ast.Tuple) \
                        and isinstance(d.value, ast.Name) and d.value.id in record_result_names \
                        and len(d.targets[0].elts) == len(sample_fields) \
                        and all(isinstance(e, ast.Name) for e in d.targets[0].elts):
                    # the sample itself must still be the one unpacked: no other definition of it reaches the site
                    src_defs_here = {x.id for x in F.defs_reaching(at, d.value.id)}
                    src_defs_there = {x.id for x in F.defs_reaching(d, d.value.id)}
                    if src_defs_here != src_defs_there:
                        return n
                    pos = [e.id for e in d.targets[0].elts].index(n.id)
                    return ast.copy_location(ast.Attribute(value=ast.Name(id=d.value.id, ctx=ast.Load()),
                                                           attr=sample_fields[pos], ctx=ast.Load()), n)
                return n
        return ast.fix_missing_locations(_T().visit(_copy.deepcopy(expr)))
    for idx, call in enumerate(F.row_calls):
        a = F.row_args(call)
        if sample_fields and F.cfg.node_of(call) is not None:
            a = {k_: through_unpack(v_, call) for k_, v_ in a.items()}
        site = f'row site #{idx + 1} (line {call.lineno})'
        key = f'site{idx + 1}'
        # a row built inside a nested function (closure / comprehension helper): its free variables are read when the
        # function runs, not when the sample was taken
        encl = call
        while encl is not None and not isinstance(encl, (ast.FunctionDef, ast.Lambda)):
            encl = getattr(encl, '_parent', None)
        if encl is not None and encl is not F.func.node:
            local = {x.arg for x in ast.walk(encl.args) if isinstance(x, ast.arg)} | \
                    {x.id for x in ast.walk(encl) if isinstance(x, ast.Name) and isinstance(x.ctx, ast.Store)}
            stale = sorted({x.id for v_ in a.values() for x in ast.walk(v_)
                            if isinstance(x, ast.Name) and x.id not in local and x.id in loop_assigned})
            if stale:
                rep.fail(rule, mod.path, call.lineno, fq, f'{key}:closure',
                         f'{site} is inside `{getattr(encl, "name", "lambda")}`, which reads {stale} of the integration loop as free '
                         f'variables: the row gets their values at the time that function runs (after later steps), not '
                         f'those of the step the sample was taken in')
            else:
                rep.undecided(rule, mod.where(call), site, 'built inside a nested function from its own arguments: the '
                              'arguments are not traced to the sample')
            continue
        missing = [p for p in ('time', 'velocity_vector', 'velocity', 'mach', 'spin_drift', 'look_angle', 'weight')
                   if p not in a]
        if missing:
            raise AnalysisError(f'{site}: arguments {missing} not passed positionally or by keyword')
        vv, sp = a['velocity_vector'], a['velocity']
        vv_txt = norm(vv)
        # (a) speed is the magnitude of the velocity vector passed
        ok, why = False, ''
        pre_unread: list = []
        if isinstance(sp, ast.Call) and isinstance(sp.func, ast.Attribute) and sp.func.attr == 'magnitude' \
                and norm(sp.func.value) == vv_txt and not sp.args:
            ok = True
        elif isinstance(sp, ast.Name):
            defs = F.defs_reaching(call, sp.id)
            bad = []
            for d in defs:
                val = _assigned_value(d, sp.id)
                if val is not None and isinstance(val, ast.Call) and isinstance(val.func, ast.Attribute) \
                        and val.func.attr == 'magnitude' and norm(val.func.value) == vv_txt:
                    continue
                if val is not None and not F.in_loop(d) and norm(val) == 'self.muzzle_velocity':
                    continue        # before the first step: |V0| = muzzle velocity (C01.R3)
                if not F.in_loop(d):
                    pre_unread.append(d)      # set before the first step in a spelling the rule does not read: not judged
                    continue
                bad.append(d)
            ok = bool(defs) and not bad
            if bad:
                why = 'reaching definition(s) ' + '; '.join(f'line {d.line}: {d.text()[:60]}' for d in bad)
        else:
            why = f'speed argument is {norm(sp)}'
        if ok and pre_unread:
            rep.undecided(rule, mod.where(call), f'{site}: speed before the first step',
                          f'`{pre_unread[0].text()[:60]}` is not read; inside the loop the speed is |{vv_txt}|')
        elif ok:
            rep.ok(rule, mod.where(call), f'{site}: speed = |{vv_txt}|')
        else:
            rep.fail(rule, mod.path, call.lineno, fq, f'{key}:speed',
                     f'{site}: the speed passed is not the magnitude of the velocity vector passed ({vv_txt}): {why}')
        # (b) Mach reference from the density call
        m = a['mach']
        ok, why = False, ''
        if isinstance(m, ast.Name):
            defs = F.defs_reaching(call, m.id)
            bad = []
            step_alt = norm(F.density_node.ast.value.args[0]) if F.density_node.ast.value.args else ''
            for d in defs:
                if d in F.density_nodes and m.id == F.a:
                    alt = norm(d.ast.value.args[0]) if d.ast.value.args else ''
                    if alt != step_alt:
                        bad.append(d)
                        why = (f'the query at line {d.line} asks for altitude `{alt}`, the step\'s query for `{step_alt}`: '
                               f'not the local speed of sound; ')
                    continue
                val = _assigned_value(d, m.id)
                if val is not None and not F.in_loop(d) and isinstance(val, ast.Constant):
                    continue        # placeholder before the loop
                if val is None and isinstance(d.ast, ast.Assign) and isinstance(d.ast.targets[0], (ast.Tuple, ast.List)) \
                        and isinstance(d.ast.value, ast.Name) and d not in F.density_nodes:
                    # unpacked from a value this rule could not identify as the sample (the filter reached through an alias)
                    raise AnalysisError(f'{site}: the Mach reference argument `{m.id}` is unpacked from `{norm(d.ast.value)[:40]}`, '
                                        f'which cannot be traced to the record filter or the atmosphere query')
                bad.append(d)
            ok = bool(defs) and not bad and any(d in F.density_nodes for d in defs)
            if not ok:
                why += 'reaching definition(s) ' + '; '.join(f'line {d.line}: {d.text()[:60]}' for d in (bad or defs))
        elif isinstance(m, ast.Attribute) and isinstance(m.value, ast.Name) and m.value.id in record_result_names \
                and m.attr == 'mach':
            # the filter receives the density call's Mach reference (checked at the should_record call)
            rc_ok = all(len(rc.args) >= 3 and isinstance(rc.args[2], ast.Name) and rc.args[2].id == F.a
                        or any(k.arg == 'mach' and isinstance(k.value, ast.Name) and k.value.id == F.a
                               for k in rc.keywords) for rc in F.record_calls)
            ok = rc_ok
            why = 'should_record is not given the speed of sound of the density call'
        elif not any(isinstance(x, (ast.Name, ast.Attribute)) for x in ast.walk(m)):
            why = f'Mach reference argument is the constant expression {norm(m)}'
        else:
            raise AnalysisError(f'{site}: the Mach reference argument `{norm(m)}` cannot be traced to a definition')
        if ok:
            rep.ok(rule, mod.where(call), f'{site}: speed of sound comes from the density call')
        else:
            rep.fail(rule, mod.path, call.lineno, fq, f'{key}:mach',
                     f'{site}: the speed of sound passed does not come from the atmosphere query: {why}')
        # (c) look angle and weight
        for pname, want in (('look_angle', 'self.look_angle'), ('weight', 'self.weight')):
            if norm(a[pname]) == want:
                rep.ok(rule, mod.where(call), f'{site}: {pname} = {want}')
            else:
                rep.fail(rule, mod.path, call.lineno, fq, f'{key}:{pname}',
                         f'{site}: {pname} is {norm(a[pname])}, expected the per-shot {want}')
        # (d) spin drift of the time passed (or of a time within the same step)
        s = a['spin_drift']
        ok = False
        if isinstance(s, ast.Call) and norm(s.func) == 'self.spin_drift' and len(s.args) == 1:
            targ = norm(s.args[0])
            allowed = {norm(a['time']), loop_time} | {f'{n}.time' for n in record_result_names}
            ok = targ in allowed
        if ok:
            rep.ok(rule, mod.where(call), f'{site}: spin drift = self.spin_drift({norm(s.args[0])})')
        else:
            rep.fail(rule, mod.path, call.lineno, fq, f'{key}:spin',
                     f'{site}: spin drift argument is {norm(s)}; expected self.spin_drift of the row time '
                     f'(or of the loop time within the same step)')


class LimitBlock:
    """The statements of the loop body that decide on the termination limits: everything from the statement after
    the last update of the state (time, position, velocity, reported speed) to the end of the body.  ``raises`` are
    the `raise RangeError(...)` statements in it, ``tests`` the CFG test nodes they are control dependent on
    (loop head excluded), ``first`` the one of those that dominates the others."""

    def __init__(self, F: IntegrateFacts):
        from ..cfg import defs_of
        body = F.loop.body
        self.raises = [n for n in ast.walk(F.loop) if isinstance(n, ast.Raise) and isinstance(n.exc, ast.Call)
                       and norm(n.exc.func) == 'RangeError']
        if not self.raises:
            raise AnalysisError('_integrate: no `raise RangeError(...)` in the integration loop')
        self.site = next((c for c in F.row_calls if any(self._stmt_index(body, c) == self._stmt_index(body, r)
                                                        or self._stmt_index(body, c) is not None
                                                        and self._stmt_index(body, c) <= self._stmt_index(body, r)
                                                        for r in self.raises)
                          and F.cfg.node_of(c) is not None and self._after_updates(F, c)), None)
        speed = None
        if self.site is not None:
            a = F.row_args(self.site)
            speed = norm(a['velocity']) if 'velocity' in a else None
        self.speed_name = speed
        last_def = -1
        for i, s_ in enumerate(body):
            dn = set()
            for sub_ in ast.walk(s_):
                cn = F.cfg.node_of(sub_) if isinstance(sub_, ast.stmt) else None
                if cn is not None and cn.ast is sub_:
                    dn |= set(defs_of(cn))
            if dn & {F.t, F.P, F.V, speed}:
                last_def = i
        self.start = last_def + 1
        self.stmts = body[self.start:]
        if not any(r is x for r in self.raises for st in self.stmts for x in ast.walk(st)):
            raise AnalysisError('_integrate: the limit check does not follow the last state update of the step')
        cd = F.cfg.control_dependence()
        tests = set()
        todo = [F.cfg.node_of(r).id for r in self.raises if F.cfg.node_of(r) is not None]
        seen = set()
        while todo:
            cur = todo.pop()
            if cur in seen:
                continue
            seen.add(cur)
            for t, _l in cd[cur]:
                n = F.cfg.nodes[t]
                if n in F.loop_controls or not F.in_loop(n):
                    continue
                if n.ast is not None and any(n.ast is x or F._inside(n.ast, st) for st in self.stmts for x in [st]):
                    tests.add(t)
                    todo.append(t)
        self.tests = tests
        dom = F.cfg.dominators()
        self.first = None
        for t in tests:
            if all(t in dom[o] for o in tests):
                self.first = F.cfg.nodes[t]
        if self.first is None:
            raise AnalysisError('_integrate: the limit tests have no single entry test')

    @staticmethod
    def _stmt_index(body, node):
        for i, st in enumerate(body):
            if any(x is node for x in ast.walk(st)):
                return i
        return None

    @staticmethod
    def _after_updates(F, call) -> bool:
        # the row site that belongs to the limit block is the in-loop one that is not fed by should_record
        a = F.row_args(call)
        return all(isinstance(a.get(k), ast.Name) and a[k].id in F.bound_outside
                   for k in ('time', 'range_vector', 'velocity_vector')) and F._inside(call, F.loop)


def eval_limit_block(prog: Program, F: 'IntegrateFacts', LB: 'LimitBlock'):
    """Engine D reading of the limit block on a symbolic state (position x, y, z; speed `speed`; station altitude alt0;
    settings cfg.<field>): -> (outcome tree, evaluator, state).  Settings reach the block through `self._config.<f>`,
    through locals assigned from it, or through an alias of the whole tuple."""
    from ..abseval import Evaluator, State, S, SymObj, Undecided, Ctx
    from .c18 import _locals_from_config, config_aliases
    tc = F.mod
    ev = Evaluator(prog, opaque={'create_trajectory_row', 'spin_drift'})
    st = State()
    tcc = prog.cls(C.M_TC, 'TrajectoryCalc')
    cfgc = prog.cls(C.M_TC, 'Config')
    cfg_inst = ev.new_inst(st, cfgc, {f: S(f'cfg.{f}') for f in prog.namedtuple_fields(cfgc)})
    selfv = ev.new_inst(st, tcc, {'alt0': S('alt0'), 'look_angle': S('L'), 'weight': S('w'), '_config': cfg_inst})
    lm = _locals_from_config(F.func)
    env = {'self': selfv, F.P: C.mk_vec(ev, st, prog, 'x', 'y', 'z'), F.V: C.mk_vec(ev, st, prog, 'vx', 'vy', 'vz'),
           F.t: S('t'), F.a: S('a'), F.rho: S('rho'), 'drag': S('drag'), 'data_filter': SymObj('data_filter')}
    names = {n.id for st_ in LB.stmts for n in ast.walk(st_) if isinstance(n, ast.Name)}
    assigned = {n.id for st_ in LB.stmts for n in ast.walk(st_) if isinstance(n, ast.Name) and isinstance(n.ctx, ast.Store)}
    aliases = config_aliases(F.func)
    for n in names:
        if n in lm:
            env[n] = S(f'cfg.{lm[n]}')
        elif n in aliases:
            env[n] = cfg_inst
    if LB.speed_name and LB.speed_name not in env:
        env[LB.speed_name] = S('speed')
    for n in names:
        if n not in env and n not in assigned and n not in ('RangeError', 'create_trajectory_row', 'math', 'abs', 'min', 'max',
                                                             'len', 'TrajFlag', 'logger'):
            try:
                ev.lookup(n, State(), Ctx(tc, F.func, None, 0))
            except Undecided:
                env[n] = SymObj(n)
    st.env.update(env)
    # locals set once before the loop from the calculator's own state (a limits object built from self._config, say)
    for n in sorted(names):
        if n in lm or n in assigned or n in F.func.params or n in (F.P, F.V, F.t, F.a, F.rho, 'drag', 'self') or n in aliases:
            continue
        try:
            all_defs = F.defs_reaching(LB.stmts[0], n)
        except AnalysisError:
            continue
        ds_ = [d for d in all_defs if not F.in_loop(d)]
        if len(ds_) == 1 and len(all_defs) == 1 and isinstance(ds_[0].ast, (ast.Assign, ast.AnnAssign)) and ds_[0].ast.value is not None:
            try:
                st.env[n] = ev.eval(ds_[0].ast.value, st, Ctx(tc, F.func, None, 0))
            except Undecided:
                pass
    try:
        tree = ev.exec_block(LB.stmts, st, Ctx(tc, F.func, None, 0))
    except Undecided as exc:
        raise AnalysisError(f'limit block: {exc}') from exc
    return tree, ev, st


# --------------------------------------------------------------------------------------
# "multiple of the step" value classes (engine B: reaching definitions + a four-point lattice)
# --------------------------------------------------------------------------------------

class StepClasses:
    """Classifies expressions of one function by what they are relative to two attributes of one object:
    the record distance ``<base>.<dist>`` (assumed a multiple of the step on entry - the induction hypothesis) and the
    step ``<base>.<step>``:

        Z  zero            S  the step            M  a multiple of the step (distance + n * step, sums of such)
        I  an integer      T  anything else

    Locals take the join of their reaching definitions (least fixed point from below).  A store of class Z, S or M into
    the record distance keeps it a multiple of the step."""

    ORDER = {'B': 0, 'Z': 1, 'S': 1, 'I': 1, 'M': 2, 'T': 3}

    def __init__(self, prog: Program, func: Func, base: str, dist: str, step: str):
        self.prog, self.func, self.base, self.dist, self.step = prog, func, base, dist, step
        self.cfg = CFG(func.node)
        self.rd = reaching_definitions(self.cfg, list(func.params) + [f'{base}.{dist}', f'{base}.{step}'])
        self.dcls: Dict[Tuple[int, str], str] = {}
        changed = True
        rounds = 0
        while changed and rounds < 50:
            changed = False
            rounds += 1
            for n in self.cfg.nodes:
                for loc in defs_of(n):
                    new = self._def_class(n, loc)
                    if self.dcls.get((n.id, loc), 'B') != new:
                        self.dcls[(n.id, loc)] = new
                        changed = True

    @staticmethod
    def join(a: str, b: str) -> str:
        if a == 'B':
            return b
        if b == 'B':
            return a
        if a == b:
            return a
        if 'T' in (a, b):
            return 'T'
        if 'I' in (a, b):
            return 'I' if set((a, b)) == {'I', 'Z'} else 'T'
        return 'M'          # Z, S, M mixed: a multiple of the step

    def _def_class(self, n: Node, loc: str) -> str:
        a = n.ast
        if isinstance(a, ast.Assign) and len(a.targets) == 1 and loc_of(a.targets[0]) == loc:
            return self.expr(a.value, n)
        if isinstance(a, ast.AnnAssign) and a.value is not None and loc_of(a.target) == loc:
            return self.expr(a.value, n)
        if isinstance(a, ast.AugAssign) and loc_of(a.target) == loc:
            return self._bin(a.op, self.loc_class(loc, n), self.expr(a.value, n))
        if isinstance(a, ast.Assign) and len(a.targets) == 1 and isinstance(a.targets[0], (ast.Tuple, ast.List)) \
                and isinstance(a.value, (ast.Tuple, ast.List)) and len(a.value.elts) == len(a.targets[0].elts):
            for t, v in zip(a.targets[0].elts, a.value.elts):
                if loc_of(t) == loc:
                    return self.expr(v, n)
        return 'T'

    def loc_class(self, loc: str, n: Node) -> str:
        ds = self.rd[n.id].get(loc, set())
        if not ds:
            ds = {self.cfg.entry.id}
        out = 'B'
        for d in ds:
            if d == self.cfg.entry.id:
                if loc == f'{self.base}.{self.dist}':
                    c = 'M'
                elif loc == f'{self.base}.{self.step}':
                    c = 'S'
                else:
                    c = 'T'
            else:
                c = self.dcls.get((d, loc), 'B')
            out = self.join(out, c)
        # a definition of a prefix (self = ...) makes everything below unknown
        for k, ds2 in self.rd[n.id].items():
            if loc.startswith(k + '.') and any(d != self.cfg.entry.id for d in ds2):
                return 'T'
        return out

    def _bin(self, op, l: str, r: str) -> str:
        if 'B' in (l, r):
            return 'B'
        mult = {'Z', 'S', 'M'}
        if isinstance(op, (ast.Add, ast.Sub)):
            if l == 'Z' and r == 'Z':
                return 'Z'
            if l in mult and r in mult:
                return 'M'
            if l in ('I', 'Z') and r in ('I', 'Z'):
                return 'I'
            return 'T'
        if isinstance(op, ast.Mult):
            if 'Z' in (l, r):
                return 'Z'
            if (l == 'I' and r in mult) or (r == 'I' and l in mult):
                return 'M'
            if l == 'I' and r == 'I':
                return 'I'
            return 'T'
        if isinstance(op, ast.FloorDiv):
            return 'I'
        return 'T'

    def expr(self, e: ast.AST, n: Node) -> str:
        if isinstance(e, ast.Constant):
            if isinstance(e.value, bool):
                return 'T'
            if isinstance(e.value, (int, float)):
                if e.value == 0:
                    return 'Z'
                return 'I' if float(e.value).is_integer() else 'T'
            return 'T'
        l = loc_of(e)
        if l is not None:
            if isinstance(e, ast.Name) and l not in self.rd[n.id] and l not in self.func.params:
                v = C.const_number(self.prog, self.func.module, l)
                if v is not None:
                    return 'Z' if v == 0 else ('I' if float(v).is_integer() else 'T')
            return self.loc_class(l, n)
        if isinstance(e, ast.BinOp):
            return self._bin(e.op, self.expr(e.left, n), self.expr(e.right, n))
        if isinstance(e, ast.UnaryOp) and isinstance(e.op, (ast.USub, ast.UAdd)):
            c = self.expr(e.operand, n)
            return 'M' if c == 'S' and isinstance(e.op, ast.USub) else c
        if isinstance(e, ast.IfExp):
            return self.join(self.expr(e.body, n), self.expr(e.orelse, n))
        if isinstance(e, ast.Call) and not e.keywords:
            name = (dotted(e.func) or '').split('.')[-1]
            if name in ('floor', 'ceil', 'int', 'round', 'trunc') and len(e.args) == 1:
                return 'I'
            if name in ('max', 'min') and e.args:
                out = 'B'
                for a_ in e.args:
                    out = self.join(out, self.expr(a_, n))
                return out
            if name == 'float' and len(e.args) == 1:
                return self.expr(e.args[0], n)
        return 'T'

    def store_class(self, store_node: ast.AST) -> Optional[str]:
        """Class of the value an attribute store puts into <base>.<dist> (None when the node is not such a store)."""
        for n in self.cfg.nodes:
            a = n.ast
            if a is None:
                continue
            if any(x is store_node for x in ast.walk(a) if isinstance(x, ast.Attribute)):
                loc = loc_of(store_node)
                if loc in defs_of(n):
                    return self._def_class(n, loc)
        return None
