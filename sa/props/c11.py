"""C11 - What is recorded never changes what is computed."""
from __future__ import annotations

import ast
from fractions import Fraction
from typing import Dict, List, Optional, Set, Tuple

from ..abseval import Cond, Const, Ctx, Evaluator, Inst, Scalar, State, S, SymObj, Undecided, leaves
from ..cfg import CFG, Deps, Node, defs_of, uses_of
from ..check import Variant
from ..loader import AnalysisError, Func, Program, dotted, norm, parent
from . import common as C
from .flow import IntegrateFacts

ID = 'C11'
TECHNIQUE = ('taint (data + control dependence) over the statement CFG of _integrate and trajectory, non-'
             'interference of should_record by abstract evaluation under several requests compared at sample '
             'points, field-sensitive taint of the recording schedule: the request parameters (range, record '
             'step, time step, extra-data flag) and everything derived from them must not reach a definition '
             'of the integration state, with the loop bound as the one exemption')
DECIDED = [
    'R1 range, record step, time step and filter flags (and the filter object, the row list, min_step, the '
    'recorded sample) have no data or control dependence into time, position, velocity, wind, density, Mach '
    "reference, drag, time step or any solver attribute - except control by the loop's own end condition; "
    'what crosses into the filter is immutable; trajectory() forwards each request parameter to its own slot '
    'and stores nothing',
    'R2 should_record evaluated under six requests (plain range card, extra data, time step, both, a sight-'
    'line crossing pending, a Mach crossing pending) on one symbolic sample: at sample points where a range '
    'row is due (just beyond and exactly at the record distance) the sample handed back - time, Mach, '
    'position, velocity - is the same for every request and lies at the record distance, so richer requests '
    'add rows but never alter a range row',
    'R3 the recording schedule - next_record_distance, time_of_last_record and the raising of the RANGE flag,'
    ' in every method of the filter - has no data or control dependence on the filter mask (field-sensitive '
    'taint from self.filter): the distance and time rows of an extra-data request are those of the plain '
    'request',
]
NOT_DECIDED = [
    'equality "to float rounding" of rows computed from different requests (a runtime fact about the sequence'
    ' of integration points)',
]


def taint(cfg: CFG, deps: Deps, sources: Set[str], exempt_tests: Set[int]) -> Tuple[Set[str], Dict[str, List[str]]]:
    """Forward closure: locations that depend (data or control) on the sources.  Returns the tainted
    locations and, for each, a witness chain of statement texts."""
    tainted: Dict[str, List[str]] = {s: [f'request parameter {s}'] for s in sources}
    cd = deps.cd
    tainted_tests: Dict[int, List[str]] = {}
    changed = True

    def hit(locs: Set[str]) -> Optional[List[str]]:
        for l in locs:
            for t, chain in tainted.items():
                if l == t or l.startswith(t + '.') or t.startswith(l + '.'):
                    return chain
        return None
    while changed:
        changed = False
        for n in cfg.nodes:
            if n.ast is None:
                continue
            u = deps.uses[n.id]
            chain = hit(u)
            # control: dependent on a tainted test (transitively)
            if chain is None:
                for t, _lab in cd[n.id]:
                    if t in tainted_tests and t not in exempt_tests:
                        chain = tainted_tests[t]
                        break
            if chain is None:
                continue
            here = chain + [f'line {n.line}: {n.text()[:60]}']
            if n.kind in ('test', 'for') and n.id not in tainted_tests:
                tainted_tests[n.id] = here
                changed = True
            for d in deps.defs[n.id]:
                if d not in tainted:
                    tainted[d] = here
                    changed = True
            # a call on a tainted receiver / with tainted arguments may mutate its receiver object
            if n.kind == 'stmt' and isinstance(n.ast, ast.Expr) and isinstance(n.ast.value, ast.Call) \
                    and isinstance(n.ast.value.func, ast.Attribute):
                recv = norm(n.ast.value.func.value)
                if recv not in tainted and recv.split('.')[0] not in ('logger', 'warnings', 'math'):
                    tainted[recv] = here
                    changed = True
    return set(tainted), tainted


def run(prog: Program, rep, thorough: bool) -> None:
    rep.rule('C11.R1', 'request parameters do not reach the integration state', 12)
    rep.rule('C11.R2', 'range sample independent of filter mask and time step', 1)
    tc = prog.module(C.M_TC)
    F = IntegrateFacts(prog)
    rep.saw(F.func)
    cfg, deps = F.cfg, F.deps
    params = F.func.positional
    # request parameters of _integrate: everything but self and the shot
    request = set(params[2:]) | {a.arg for a in F.func.node.args.kwonlyargs}
    if len(request) < 3:
        raise AnalysisError(f'_integrate: request parameters not found: {params}')
    _locs, why = taint(cfg, deps, request, exempt_tests={n_.id for n_ in F.loop_controls})
    # sinks: the state, what the physics reads, every solver attribute
    state = {F.t, F.P, F.V, F.rho, F.a}
    # what the physics reads: the backward closure (data dependence, and the tests that control the defining
    # statements) of the state variables over the statements of the loop.  A local that only feeds the row list - a
    # row kept in a variable before it is appended, say - is not in it.
    cd = cfg.control_dependence()
    phys_names = set(state)
    work = list(state)
    while work:
        cur = work.pop()
        for n in cfg.nodes:
            if not (F.in_loop(n) and n.ast is not None) or n in F.loop_controls:
                continue
            if not any(d == cur or d.startswith(cur + '.') or cur.startswith(d + '.') for d in defs_of(n)):
                continue
            used = set(deps.uses[n.id])
            for t_, _lab in cd[n.id]:
                if cfg.nodes[t_] not in F.loop_controls:
                    used |= set(deps.uses[t_])
            for u in used:
                if u not in phys_names and u not in request:
                    phys_names.add(u)
                    work.append(u)
    sinks = sorted(state | {p_ for p_ in phys_names if p_ not in request})
    n_ok = 0
    for s in sinks:
        hit = None
        for t in why:
            if s == t or s.startswith(t + '.'):
                hit = t
        if hit and s not in request:
            chain = why[hit]
            rep.fail('C11.R1', tc.path, _line_of(chain), F.func.qualname, f'state:{s}',
                     f'`{s}` (integration state) depends on what was requested to be recorded: {chain[0]} -> '
                     f'{chain[-1]}; the same shot computed for a different request gives different rows', chain)
        else:
            n_ok += 1
            rep.ok('C11.R1', tc.where(F.loop), f'{s}: no dependence on {sorted(request)} (loop bound exempt)')
    # solver attributes written in _integrate at all?
    for n in cfg.nodes:
        if n.ast is None:
            continue
        for d in defs_of(n):
            if d.startswith('self.') and d in why:
                chain = why[d]
                rep.fail('C11.R1', tc.path, n.line, F.func.qualname, f'attr:{d}',
                         f'`{d}` is set from the recording request ({chain[0]}): it feeds the next step or the next call',
                         chain)
    # the loop bound is the only place the requested range is read
    rng = params[2]
    readers = [n for n in cfg.nodes if n.ast is not None and rng in deps.uses[n.id]]
    others = [n for n in readers if n not in F.loop_controls]
    if others:
        n0 = others[0]
        if any(d in sinks for d in defs_of(n0)) or n0.kind == 'test':
            rep.fail('C11.R1', tc.path, n0.line, F.func.qualname, 'range-read',
                     f'the requested range is read outside the loop condition: `{n0.text()[:60]}`')
    else:
        rep.ok('C11.R1', tc.where(F.loop), f'`{rng}` is read by the loop condition only')
    # immutability of what crosses into the filter
    vec = prog.cls(C.M_VEC, 'Vector')
    if prog.is_namedtuple(vec) and not vec.setters and '__setattr__' not in vec.methods:
        rep.ok('C11.R1', f'{vec.module.path}:{vec.node.lineno}', 'Vector is a NamedTuple: the filter cannot alter the state it is shown')
    else:
        rep.fail('C11.R1', vec.module.path, vec.node.lineno, 'Vector', 'immutable',
                 'Vector is no longer immutable: the recording filter receives the live state vectors')
    if F.record_calls:
        rc = F.record_calls[0]
        argn = [norm(a) for a in rc.args]
        if argn[:4] == [F.P, F.V, F.a, F.t]:
            rep.ok('C11.R1', tc.where(rc), f'should_record({", ".join(argn)}): state passed by value')
        else:
            rep.fail('C11.R1', tc.path, rc.lineno, F.func.qualname, 'record-args',
                     f'should_record is given ({", ".join(argn)}), expected the current ({F.P}, {F.V}, {F.a}, {F.t})')
    # trajectory(): forwards slots, stores nothing
    tr = prog.func(C.M_TC, 'TrajectoryCalc.trajectory')
    rep.saw(tr)
    me = tr.positional[0]
    stores = [n for n in ast.walk(tr.node) if isinstance(n, ast.Attribute) and isinstance(n.ctx, ast.Store)
              and isinstance(n.value, ast.Name) and n.value.id == me]
    if stores:
        rep.fail('C11.R1', tc.path, stores[0].lineno, tr.qualname, f'store:{stores[0].attr}',
                 f'trajectory() stores self.{stores[0].attr} after the per-shot state was derived: the request can '
                 f'change what is computed')
    # forwarding, decided on values: evaluate trajectory() with the two callees captured
    from .. import algebra as A
    from ..abseval import Const, Ctx, Evaluator, Scalar, State, S, SymObj, Undecided
    got: Dict[str, list] = {'init': [], 'integrate': []}

    def h_init(ev_, func, args, kwargs, st_, self_val):
        got['init'].append((list(args), dict(kwargs)))
        return Const(None)

    def h_int(ev_, func, args, kwargs, st_, self_val):
        got['integrate'].append((list(args), dict(kwargs)))
        return SymObj('rows')
    evf = Evaluator(prog, hooks={'call:TrajectoryCalc._init_trajectory': h_init, 'call:TrajectoryCalc._integrate': h_int})
    stf = State()
    selff = evf.new_inst(stf, prog.cls(C.M_TC, 'TrajectoryCalc'), {})
    rq = C.mk_quantity(evf, stf, prog, 'Distance', 'Rraw', 'Yard')
    sq = C.mk_quantity(evf, stf, prog, 'Distance', 'Sraw', 'Meter')
    ok_fw = False
    try:
        evf.call_value(tr, [SymObj('shot'), rq, sq, SymObj('extra'), S('tstep')], self_val=selff, st=stf)
        r_ft = Scalar(C.read_raw_in(evf, prog, 'Distance', 'Rraw', 'Foot'))
        s_ft = Scalar(C.read_raw_in(evf, prog, 'Distance', 'Sraw', 'Foot'))
        if len(got['init']) >= 1 and got['integrate']:
            ok_fw = all(len(a_) == 1 and isinstance(a_[0], SymObj) and a_[0].path == 'shot' and not k_
                        for a_, k_ in got['init'])
            for a_, k_ in got['integrate']:
                ia = dict(zip(F.func.positional[1:], a_))
                ia.update(k_)
                ok_fw = ok_fw and isinstance(ia.get(F.func.positional[1]), SymObj) \
                    and isinstance(ia.get(F.func.positional[2]), Scalar) and ia[F.func.positional[2]].rf.equals(r_ft.rf) \
                    and isinstance(ia.get(F.func.positional[3]), Scalar) and ia[F.func.positional[3]].rf.equals(s_ft.rf)
                ts_ = ia.get(F.func.positional[5]) if len(F.func.positional) > 5 else None
                ok_fw = ok_fw and (ts_ is None or (isinstance(ts_, Scalar) and ts_.rf.equals(A.sym('tstep'))))
    except Undecided as exc:
        raise AnalysisError(f'TrajectoryCalc.trajectory: {exc}') from exc
    if ok_fw:
        rep.ok('C11.R1', tr.where, 'trajectory(): _init_trajectory(shot) sees the shot only; range and step forwarded in feet')
    else:
        rep.fail('C11.R1', tc.path, tr.node.lineno, tr.qualname, 'forwarding',
                 'trajectory() does not forward (shot, range in feet, step in feet, flags, time step) to _integrate '
                 'with a shot-only _init_trajectory')
    # get_calc_step called with an argument anywhere?
    for f in prog.cls(C.M_TC, 'TrajectoryCalc').methods.values():
        for c in ast.walk(f.node):
            if isinstance(c, ast.Call) and isinstance(c.func, ast.Attribute) and c.func.attr == 'get_calc_step' \
                    and (c.args or c.keywords):
                rep.fail('C11.R1', tc.path, c.lineno, f.qualname, 'calc-step-arg',
                         f'`{norm(c)}`: the integration step is derived from a request parameter')

    # ---- R2 ------------------------------------------------------------------------------------
    sr = prog.func(C.M_TC, '_TrajectoryDataFilter.should_record')
    rep.saw(sr)
    check_range_sample_independent(prog, rep, sr, 'C11.R2')
    rep.rule('C11.R3', 'the recording schedule does not depend on the filter mask', 3)
    check_schedule(prog, rep, 'C11.R3')


def check_range_sample_independent(prog: Program, rep, sr, rule: str) -> None:
    """Non-interference by evaluation: should_record is evaluated for several requests (filter masks with and without
    the event bits, with and without a time step, events pending or not) at sample geometries where a range row is due
    - the sample just beyond, exactly at, and several whole steps beyond the record distance; the geometry (down-range
    positions, record distance, step) is concrete so that the skip-ahead loop is read pass by pass, everything else
    (time, heights, velocities, Mach) symbolic.  The sample handed back - time, Mach, position, velocity as rational
    expressions - must be the same for every request, and must lie at a record distance."""
    from .c15 import _flags, _mk_filter
    tc = prog.module(C.M_TC)
    flags = _flags(prog, Evaluator(prog))
    R, ALL_ = flags['RANGE'], flags['ALL']
    requests = [('plain range card', R, 0.0, 0), ('extra data', ALL_, 0.0, 0), ('time step', R, 0.5, 0),
                ('extra data and time step', ALL_, 0.25, 0), ('extra data, a crossing pending', ALL_, 0.0, flags['ZERO_DOWN']),
                ('Mach rows, a crossing pending', R | flags['MACH'], 0.0, flags['MACH'])]
    # (label, x of the sample, x of the previous sample, record distance due, step, x expected of the row)
    geometries = [('the sample just beyond the record distance', 25, 15, 20, 10, 20),
                  ('the sample exactly at the record distance', 20, 15, 20, 10, 20),
                  ('the sample several whole steps beyond the record distance', 45, 15, 20, 10, None)]
    outcomes: Dict[str, Dict[str, object]] = {}
    after_next: Dict[str, list] = {}
    for gname, qx, px, nrd, rs, _want in geometries:
        for label, mask, ts, pending in requests:
            ev = Evaluator(prog)
            ev.unroll = True
            st = State()
            flt = _mk_filter(ev, st, prog, filter=Scalar(mask), time_step=Scalar(Fraction(str(ts))), current_flag=Scalar(pending),
                             next_record_distance=Scalar(nrd), range_step=Scalar(rs),
                             previous_position=C.mk_vec(ev, st, prog, Scalar(px), 'py', 'pz'),
                             time_of_last_record=Scalar(Fraction(1, 4)), previous_time=S('pt'), previous_v_mach=S('pvm'))
            pos = C.mk_vec(ev, st, prog, Scalar(qx), 'qy', 'qz')
            vel = C.mk_vec(ev, st, prog, 'ux', 'uy', 'uz')
            try:
                tree, st = ev.run_func(sr, {sr.positional[0]: flt, sr.positional[1]: pos, sr.positional[2]: vel,
                                            sr.positional[3]: S('am'), sr.positional[4]: Scalar(1)}, st)
            except Undecided as exc:
                raise AnalysisError(f'should_record ({label}, {gname}): {exc}') from exc
            sigs = []
            for path_, lf in leaves(tree):
                if lf.kind == 'raise':
                    continue
                if label == requests[0][0] and lf.kind == 'return' and isinstance(lf.value, Inst):
                    after_next.setdefault(gname, []).append(lf.state.heap[flt.oid].get('next_record_distance'))
                # guards on symbols other than the debug switch make the outcome depend on values the sample point leaves open
                sig: object = None
                if lf.kind == 'return':
                    v = lf.value
                    if isinstance(v, Inst):
                        h = lf.state.heap
                        d = h[v.oid]
                        try:
                            vals = [d[fld].rf for fld in ('time', 'mach')]
                            for fld in ('position', 'velocity'):
                                vals += [h[d[fld].oid][c_].rf for c_ in 'xyz']
                            sig = tuple(vals)
                        except (KeyError, AttributeError):
                            sig = None
                    elif isinstance(v, Const) and v.value is None:
                        sig = ('no sample',)
                sigs.append(sig)
            uniq = []
            for sg in sigs:
                if not any(_same_sig(sg, u) for u in uniq):
                    uniq.append(sg)
            outcomes.setdefault(gname, {})[label] = uniq
    problems = []
    for gname, qx, px, nrd, rs, want_x in geometries:
        per = outcomes[gname]
        unread = [k for k, v in per.items() if not v or any(x is None for x in v)]
        if unread or len(per[requests[0][0]]) != 1:
            raise AnalysisError(f'should_record: the outcome at the sample point ({gname}) is not readable as samples for '
                                f'{unread or [requests[0][0]]}')
        ref = per[requests[0][0]][0]
        if ref == ('no sample',):
            problems.append(f'{gname}: the plain range card gets no row')
        else:
            x_row = ref[2]
            ok_x = x_row.is_const() and (x_row.const_value() == want_x if want_x is not None else
                                         (px < x_row.const_value() <= qx and (x_row.const_value() - nrd) % rs == 0))
            if not ok_x:
                problems.append(f'{gname}: the plain range card gets a row at x = {x_row!r}, not at a record distance '
                                f'({want_x if want_x is not None else "20, 30 or 40"})')
        # the schedule keeps up with the projectile: once the row is handed out, the next record distance lies beyond the
        # sample (a schedule that lags behind makes every later row an extrapolation backwards from a later sample, and the
        # rows then differ between a fine and a coarse request)
        for nx in after_next.get(gname, []):
            if isinstance(nx, Scalar) and nx.rf.is_const():
                if not nx.rf.const_value() > qx:
                    problems.append(f'{gname} (x = {qx}, record distance due {nrd}, step {rs}): after the row is handed out the '
                                    f'next record distance is {nx.rf.const_value()}, not beyond the sample - the schedule lags behind '
                                    f'the projectile')
            else:
                raise AnalysisError(f'should_record: next record distance after a row ({gname}) is {nx!r}: not readable')
        for label, alts in per.items():
            for sig in alts:
                if not _same_sig(sig, ref):
                    what = 'no sample' if sig == ('no sample',) else f'(t, Mach, x, y, ...) = {tuple(sig[:4])!r}'
                    some = ' on some path (depending on the sample\'s height / speed)' if len(alts) > 1 else ''
                    problems.append(f'{gname}: with {label} the range row is {what}{some}, with a plain range card it is '
                                    f'{tuple(ref[:4])!r}')
                    break
    if problems:
        rep.fail(rule, tc.path, sr.node.lineno, sr.qualname, 'range-sample', '; '.join(problems[:2]) +
                 ': a range row changes when extra data or a time step is requested')
    else:
        rep.ok(rule, sr.where, f'the sample of a due range row is the same for {len(requests)} requests (masks, time steps, pending '
               f'events) at {len(geometries)} sample geometries, and lies at a record distance')


def _same_sig(a, b) -> bool:
    if a is None or b is None or a == ('no sample',) or b == ('no sample',):
        return a == b
    return len(a) == len(b) and all(x.equals(y) for x, y in zip(a, b))


SCHEDULE = ('next_record_distance', 'time_of_last_record')


def check_schedule(prog: Program, rep, rule: str) -> None:
    """Which samples become plain rows (RANGE flag, by distance or by time) is decided by the recording schedule:
    next_record_distance, time_of_last_record and the raising of RANGE.  None of these may depend - by data or by
    control - on the filter mask (the extra-data flag): otherwise the plain rows of a richer request are not the rows of
    the plain request.  Field-sensitive taint from `self.filter` over every method of the filter class."""
    tc = prog.module(C.M_TC)
    fc = prog.cls(C.M_TC, '_TrajectoryDataFilter')
    flags = {n for n in prog.cls(C.M_TD, 'TrajFlag').attr_order}

    def stores_schedule(f: Func, seen=None) -> Set[str]:
        seen = seen if seen is not None else set()
        if f.fq in seen:
            return set()
        seen.add(f.fq)
        me = f.positional[0]
        out: Set[str] = set()
        for n in ast.walk(f.node):
            if isinstance(n, ast.Attribute) and isinstance(n.ctx, ast.Store) and isinstance(n.value, ast.Name) and n.value.id == me:
                if n.attr in SCHEDULE:
                    out.add(n.attr)
                if n.attr == 'current_flag' and isinstance(parent(n), (ast.AugAssign, ast.Assign)) \
                        and any(isinstance(x, ast.Attribute) and x.attr == 'RANGE' for x in ast.walk(parent(n).value)):
                    out.add('RANGE flag')
            if isinstance(n, ast.Call) and isinstance(n.func, ast.Attribute) and isinstance(n.func.value, ast.Name) \
                    and n.func.value.id == me and n.func.attr in fc.methods:
                out |= stores_schedule(fc.methods[n.func.attr], seen)
        return out

    n_writes = 0
    for f in fc.methods.values():
        if f.name == '__init__' or not stores_schedule(f):
            continue
        rep.saw(f)
        me = f.positional[0]
        cfg = CFG(f.node)
        cd = cfg.control_dependence()
        tainted: Set[str] = set()

        def expr_tainted(e: ast.AST) -> bool:
            for x in ast.walk(e):
                if isinstance(x, ast.Attribute) and isinstance(x.value, ast.Name) and x.value.id == me \
                        and (x.attr == 'filter' or f'{me}.{x.attr}' in tainted) and isinstance(x.ctx, ast.Load):
                    return True
                if isinstance(x, ast.Name) and x.id in tainted and isinstance(x.ctx, ast.Load):
                    return True
            return False

        def node_tainted(n: Node) -> Optional[str]:
            for g in _all_guards(cfg, cd, n.id):
                gt = cfg.nodes[g]
                if gt.ast is not None and expr_tainted(gt.ast):
                    return f'under `{gt.text()[:60]}`'
            return None

        changed = True
        while changed:
            changed = False
            for n in cfg.nodes:
                if n.ast is None or n.kind != 'stmt':
                    continue
                a = n.ast
                val = getattr(a, 'value', None)
                if not isinstance(a, (ast.Assign, ast.AugAssign, ast.AnnAssign)) or val is None:
                    # walrus inside a test / expression statement
                    for x in ast.walk(a):
                        if isinstance(x, ast.NamedExpr) and (expr_tainted(x.value) or node_tainted(n)) and x.target.id not in tainted:
                            tainted.add(x.target.id)
                            changed = True
                    continue
                if not (expr_tainted(val) or node_tainted(n)):
                    continue
                tgts = a.targets if isinstance(a, ast.Assign) else [a.target]
                for t in tgts:
                    for x in ast.walk(t):
                        key = None
                        if isinstance(x, ast.Name) and isinstance(x.ctx, ast.Store):
                            key = x.id
                        elif isinstance(x, ast.Attribute) and isinstance(x.ctx, ast.Store) and isinstance(x.value, ast.Name) \
                                and x.value.id == me:
                            key = f'{me}.{x.attr}'
                        if key and key not in tainted:
                            tainted.add(key)
                            changed = True
        for n in cfg.nodes:
            if n.ast is None or n.kind != 'stmt':
                continue
            what: Set[str] = set()
            a = n.ast
            for x in ast.walk(a):
                if isinstance(x, ast.Attribute) and isinstance(x.ctx, ast.Store) and isinstance(x.value, ast.Name) and x.value.id == me:
                    if x.attr in SCHEDULE:
                        what.add(x.attr)
                    if x.attr == 'current_flag' and any(isinstance(y, ast.Attribute) and y.attr == 'RANGE'
                                                        for y in ast.walk(getattr(a, 'value', a))):
                        what.add('RANGE flag')
                if isinstance(x, ast.Call) and isinstance(x.func, ast.Attribute) and isinstance(x.func.value, ast.Name) \
                        and x.func.value.id == me and x.func.attr in fc.methods:
                    what |= {f'{w} (in {x.func.attr})' for w in stores_schedule(fc.methods[x.func.attr])}
            if not what:
                continue
            n_writes += 1
            why = node_tainted(n)
            if why is None and isinstance(a, (ast.Assign, ast.AugAssign)) and expr_tainted(a.value):
                why = 'its value reads the filter mask'
            if why:
                rep.fail(rule, tc.path, n.line, f.qualname, f'schedule:{sorted(what)[0]}',
                         f'`{n.text()[:60]}` updates the recording schedule ({", ".join(sorted(what))}) {why}, which depends on '
                         f'the filter mask: with extra data requested the distance / time rows are no longer those of the '
                         f'plain request')
            else:
                rep.ok(rule, tc.where(a), f'{f.qualname}: `{n.text()[:50]}` ({", ".join(sorted(what))}) does not depend on the filter mask')
    if n_writes == 0:
        raise AnalysisError('no write of the recording schedule found in the filter class')


def _all_guards(cfg: CFG, cd, nid: int) -> Set[int]:
    out: Set[int] = set()
    todo = [nid]
    while todo:
        cur = todo.pop()
        for t, _lab in cd[cur]:
            if t not in out:
                out.add(t)
                todo.append(t)
    return out


def _line_of(chain: List[str]) -> int:
    for c in reversed(chain):
        if c.startswith('line '):
            try:
                return int(c.split(':')[0][5:])
            except ValueError:
                pass
    return 0


TCF = 'py_ballisticcalc/trajectory_calc/_trajectory_calc.py'
VARIANTS = [
    Variant('calc-step-from-record-step', 'break', [(TCF, '        min_step = min(self.calc_step, record_step)\n', '        self.calc_step = self.get_calc_step(record_step)\n        min_step = min(self.calc_step, record_step)\n')], 'C11.R1', 'the regression the unused parameter of get_calc_step invites', 'pass'),
    Variant('density-skipped-when-not-recording', 'break', [(TCF, '            density_factor, mach = shot_info.atmo.get_density_factor_and_mach_for_altitude(\n                self.alt0 + range_vector.y)\n', '            if filter_flags or it == 1:\n                density_factor, mach = shot_info.atmo.get_density_factor_and_mach_for_altitude(\n                    self.alt0 + range_vector.y)\n')], 'C11.R1'),
    Variant('fallback-sample-unconditional', 'break', [(TCF, '        if bool(self.current_flag & self.filter) and data is None:', '        if bool(self.current_flag & self.filter):')], 'C11.R2', 'event flags replace the interpolated range sample'),
    Variant('step-halved-for-extra-data', 'break', [(TCF, '            delta_time = self.calc_step / max(1.0, velocity)\n', '            delta_time = self.calc_step / max(1.0, velocity)\n            if filter_flags & TrajFlag.MACH:\n                delta_time = delta_time / 2\n')], 'C11.R1', 'finer steps when extra data is requested'),
    Variant('trajectory-stores-step', 'break', [(TCF, '        self._init_trajectory(shot_info)\n        return self._integrate(shot_info, max_range >> Distance.Foot,', '        self._init_trajectory(shot_info)\n        self.calc_step = min(self.calc_step, (dist_step >> Distance.Foot) / 2)\n        return self._integrate(shot_info, max_range >> Distance.Foot,')], 'C11.R1'),
    Variant('time-step-limits-delta', 'break', [(TCF, '            delta_time = self.calc_step / max(1.0, velocity)\n', '            delta_time = self.calc_step / max(1.0, velocity)\n            if time_step > 0:\n                delta_time = min(delta_time, time_step)\n')], 'C11.R1'),
    Variant('range-beyond-wind-reset', 'break', [(TCF, '            if range_vector.x >= wind_sock.next_range:  # require check before call to improve performance\n', '            if range_vector.x >= wind_sock.next_range and range_vector.x < maximum_range:  # require check before call to improve performance\n')], 'C11.R1', 'the requested range decides whether the wind switches'),
    Variant('clock-restarted-by-any-row', 'break', [(TCF, '        self.previous_time = time\n        self.previous_position = position\n', '        if data is not None:\n            self.time_of_last_record = time\n        self.previous_time = time\n        self.previous_position = position\n')], 'C11.R3', 'seeded change C11/6: event rows restart the time clock'),
    Variant('record-distance-skipped-for-events', 'break', [(TCF, '            self.current_flag |= TrajFlag.RANGE\n            self.next_record_distance += self.range_step\n', '            self.current_flag |= TrajFlag.RANGE\n            if not self.filter & TrajFlag.MACH:\n                self.next_record_distance += self.range_step\n')], 'C11.R3'),
    Variant('twin-filter-construction-moved', 'twin', [(TCF, "        min_step = min(self.calc_step, record_step)\n        # With non-zero look_angle, rounding can suggest multiple adjacent zero-crossings\n", "        # With non-zero look_angle, rounding can suggest multiple adjacent zero-crossings\n        min_step = min(self.calc_step, record_step)\n")], None),
    Variant('twin-record-test-inverted', 'twin', [(TCF, '            if filter_flags:  # require check before call to improve performance\n\n                # Record TrajectoryData row\n                if (data := data_filter.should_record(range_vector, velocity_vector, mach, time)) is not None:\n', '            if filter_flags != 0:  # require check before call to improve performance\n\n                # Record TrajectoryData row\n                if (data := data_filter.should_record(range_vector, velocity_vector, mach, time)) is not None:\n')], None),
]
