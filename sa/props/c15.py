"""C15 - Event rows mark each sight-line and sonic crossing once, within one step."""
from __future__ import annotations

import ast
from fractions import Fraction
from typing import Dict, List, Optional, Tuple

from .. import algebra as A
from ..abseval import (Cond, Const, Ctx, Evaluator, Inst, Leaf, NONE, Raised, Scalar, State, S, SymObj, Tup, Undecided,
                       cond_leaves, leaves)
from ..cfg import CFG, Node, defs_of
from ..check import Variant
from ..loader import AnalysisError, Program, dotted, norm, parent
from . import common as C
from .flow import IntegrateFacts

ID = 'C15'
TECHNIQUE = ('abstract evaluation of the crossing checks for each of the four values of the two latch bits '
             '(finite enumeration) to a guarded transition table, compared with the once-only specification; '
             'should_record evaluated where _integrate calls it, inside one symbolic loop iteration, with the'
             ' crossing checks replaced by recorders that leave a mark in the state; HitResult.zeros '
             'evaluated on cards carrying every combination of the flag bits; dominance of flag clearing and '
             'latch setup in the loop; literal folding of the flag table')
DECIDED = [
    'R1 the zero-up (zero-down) flag is raised exactly on the path that sets its latch, only while the latch '
    'is clear, zero-down only after zero-up is latched, nothing changes at or before the muzzle; the crossing'
    ' tests are y >= x tan(look) and y < x tan(look)',
    'R2 every sample is examined and no flag leaks: on every outcome of should_record - evaluated at its call'
    ' site in one symbolic iteration, on a filter with unknown flags and latches - both crossing checks have '
    'been reached with the position / |V| and speed of sound of the sample, and the four previous_* fields '
    'hold the sample; the Mach check always updates its history and flags exactly prev > 1 >= cur; '
    'clear_current_flag resets the row flags only, precedes should_record in every iteration; setup_seen_zero'
    ' precedes the loop; the recorded row carries the current flags',
    'R3 flag table: distinct powers of two, ZERO and ALL are the unions they claim, the name table agrees, '
    'HitResult.zeros returns exactly the rows with a ZERO_UP / ZERO_DOWN bit, in order, and raises on a card '
    'without one (cards of every flag combination in two orders)',
    'R1/R2 (flags) every crossing check is also evaluated with RANGE and MACH|RANGE already raised for the '
    'sample: the flags must be or-ed, never assigned',
]
NOT_DECIDED = [
    'presence exactly when a crossing occurs, "within one integration step", ordering in time (runtime '
    'sequence of integration points)',
]

UP, DOWN = 1, 2


def _flags(prog: Program, ev: Evaluator) -> Dict[str, int]:
    tf = prog.cls(C.M_TD, 'TrajFlag')
    out = {}
    for name in tf.attr_order:
        ann, val = tf.attrs[name]
        if ann is None or val is None:
            continue
        try:
            v = ev.eval(val, State({k: Scalar(x) for k, x in out.items()}), Ctx(tf.module, None, None, 0))
        except Undecided as exc:
            raise AnalysisError(f'TrajFlag.{name}: {exc}') from exc
        if isinstance(v, Scalar) and v.rf.is_const():
            out[name] = int(v.rf.const_value())
    return out


def _mk_filter(ev, st, prog, **over):
    fc = prog.cls(C.M_TC, '_TrajectoryDataFilter')
    attrs = {'filter': S('flt'), 'current_flag': Scalar(0), 'seen_zero': Scalar(0), 'time_step': S('ts'),
             'range_step': S('rs'), 'time_of_last_record': S('tlr'), 'next_record_distance': S('nrd'),
             'previous_mach': S('pmach'), 'previous_time': S('pt'),
             'previous_position': C.mk_vec(ev, st, prog, 'px', 'py', 'pz'),
             'previous_velocity': C.mk_vec(ev, st, prog, 'pvx', 'pvy', 'pvz'), 'previous_v_mach': S('pvm'),
             'look_angle': S('L')}
    attrs.update(over)
    # built by its own __init__, so that whatever else the class keeps gets its real initial value; then the attributes the
    # rules speak about are set - each must exist under its name, or the layout of the filter is not the one the rules read
    init = prog.find_method(fc, '__init__')
    if init is None or len(init.positional) < 5:
        raise AnalysisError('_TrajectoryDataFilter.__init__ no longer takes (flags, range step, position, velocity[, time step])')
    try:
        obj = ev.construct(fc, [attrs['filter'], attrs['range_step'], attrs['previous_position'], attrs['previous_velocity']],
                           {init.positional[5]: attrs['time_step']} if len(init.positional) > 5 else {}, st, Ctx(prog.module(C.M_TC), None, None, 0))
    except Undecided as exc:
        raise AnalysisError(f'_TrajectoryDataFilter.__init__: {exc}') from exc
    if not isinstance(obj, Inst):
        raise AnalysisError(f'_TrajectoryDataFilter(...) evaluates to {obj!r}')
    h = st.heap[obj.oid]
    core = ('filter', 'current_flag', 'time_step', 'range_step', 'next_record_distance', 'time_of_last_record')
    missing = [k for k in list(over) + list(core) if k not in h]
    if missing:
        raise AnalysisError(f'the recording filter keeps no attribute(s) {sorted(set(missing))} after construction: its state is laid out '
                            f'otherwise than the rules read it')
    h.update({k: v for k, v in attrs.items() if k in h})
    return obj


def run(prog: Program, rep, thorough: bool) -> None:
    A.reset()
    rep.rule('C15.R1', 'once-only latches paired with their flags', 4)
    rep.rule('C15.R2', 'every sample examined, flags cleared per iteration', 8)
    rep.rule('C15.R3', 'flag table', 3)
    tc = prog.module(C.M_TC)
    ev = Evaluator(prog)
    flags = _flags(prog, ev)
    for need in ('NONE', 'ZERO_UP', 'ZERO_DOWN', 'ZERO', 'MACH', 'RANGE', 'ALL'):
        if need not in flags:
            raise AnalysisError(f'TrajFlag.{need} vanished')

    # ---- R3 ------------------------------------------------------------------------------------
    tdm = prog.module(C.M_TD)
    bits = {k: v for k, v in flags.items() if k not in ('NONE', 'ZERO', 'ALL')}
    problems = []
    if flags['NONE'] != 0:
        problems.append('NONE != 0')
    if any(v <= 0 or v & (v - 1) for v in bits.values()) or len(set(bits.values())) != len(bits):
        problems.append(f'flag bits are not distinct powers of two: {bits}')
    if flags['ZERO'] != flags['ZERO_UP'] | flags['ZERO_DOWN']:
        problems.append('ZERO is not ZERO_UP | ZERO_DOWN')
    union = 0
    for v in bits.values():
        union |= v
    if flags['ALL'] != union:
        problems.append(f'ALL = {flags["ALL"]} is not the union of the bits ({union})')
    tfc = prog.cls(C.M_TD, 'TrajFlag')
    if problems:
        rep.fail('C15.R3', tdm.path, tfc.node.lineno, 'TrajFlag', 'bits', '; '.join(problems))
    else:
        rep.ok('C15.R3', f'{tdm.path}:{tfc.node.lineno}', f'bits {bits}; ZERO = {flags["ZERO"]}, ALL = {flags["ALL"]}')
    names = tdm.assigns.get('_TrajFlagNames')
    try:
        table = ast.literal_eval(names[-1][1]) if names else None
    except (ValueError, SyntaxError):
        table = None
    if not isinstance(table, dict):
        raise AnalysisError('_TrajFlagNames is not a literal dict')
    bad = {k: v for k, v in table.items() if flags.get(v) != k}
    missing = [k for k in flags if k not in table.values()]
    if bad or missing:
        rep.fail('C15.R3', tdm.path, names[-1][2].lineno, '<module>', 'names',
                 f'_TrajFlagNames disagrees with TrajFlag: wrong {bad}, missing {missing}')
    else:
        rep.ok('C15.R3', f'{tdm.path}:{names[-1][2].lineno}', '_TrajFlagNames agrees with the flag values')
    zf = prog.func(C.M_TD, 'HitResult.zeros')
    # by evaluation on a finite family of cards: rows carrying every combination of the flag bits, in two orders
    hrc = prog.cls(C.M_TD, 'HitResult')
    all_bits = [0]
    for v in bits.values():
        all_bits += [x | v for x in all_bits]
    families = [sorted(set(all_bits)), sorted(set(all_bits), reverse=True), [flags['RANGE'], flags['MACH'], flags['RANGE'] | flags['MACH']]]
    z_bad, z_read = None, 0
    for fam in families:
        evz = Evaluator(prog, hooks={'call:HitResult.__check_extra__': lambda *a_: NONE})
        evz.unroll = True
        stz = State()
        rows = [C.mk_row(evz, stz, prog, f'r{k}_', {'flag': Scalar(fl), '$k': Scalar(k)}) for k, fl in enumerate(fam)]
        hr = evz.new_inst(stz, hrc, {'trajectory': evz.new_list(stz, rows), 'extra': Const(True), 'shot': SymObj('shot')})
        try:
            tree_z, _ = evz.run_func(zf, {zf.positional[0]: hr}, stz)
        except Undecided:
            z_read = None
            break
        want = [k for k, fl in enumerate(fam) if fl & flags['ZERO']]
        for _p, lf in leaves(tree_z):
            if any(t.kind == 'opaque' or t.rf is not None for t, _pol in _p):
                z_read = None
                break
            if not want:
                if lf.kind != 'raise':
                    z_bad = f'a card without zero crossings (flags {fam}) does not raise'
                continue
            its = evz.items(lf.state, lf.value) if lf.kind == 'return' and lf.value is not None else None
            got = [int(lf.state.heap[i_.oid]['$k'].rf.const_value()) for i_ in its] if its is not None and all(
                isinstance(i_, Inst) and '$k' in lf.state.heap[i_.oid] for i_ in its) else None
            if got != want:
                z_bad = f'rows flagged {fam}: zeros() returns rows {got}, the rows with a ZERO_UP / ZERO_DOWN bit are {want}'
        if z_read is None:
            break
        z_read += 1
    if z_bad:
        rep.fail('C15.R3', tdm.path, zf.node.lineno, zf.qualname, 'zeros', z_bad)
    elif z_read:
        rep.ok('C15.R3', zf.where, f'HitResult.zeros selects exactly the rows with a ZERO bit, in order ({z_read} cards of every flag combination)')
    else:
        ztxt = [norm(n) for n in ast.walk(zf.node) if isinstance(n, ast.BinOp) and isinstance(n.op, ast.BitAnd)]
        if any(t in ('row.flag & TrajFlag.ZERO', 'TrajFlag.ZERO & row.flag') for t in ztxt):
            rep.ok('C15.R3', zf.where, 'HitResult.zeros selects rows with flag & ZERO')
        else:
            raise AnalysisError(f'HitResult.zeros: neither evaluable on the finite family nor of the `row.flag & TrajFlag.ZERO` form ({ztxt})')

    # ---- R1: zero crossing transition table ------------------------------------------------------
    czc = prog.func(C.M_TC, '_TrajectoryDataFilter.check_zero_crossing')
    rep.saw(czc)
    x, y, L = A.sym('x'), A.sym('y'), A.sym('L')
    ref = x * A.fn('tan', L)
    # the row flags already raised for this sample by an earlier check (a range / time row, a Mach crossing) must
    # survive: every case is evaluated with no flag, RANGE and MACH|RANGE already set
    for seen, init in [(s_, i_) for s_ in (0, 1, 2, 3) for i_ in (0, flags['RANGE'], flags['MACH'] | flags['RANGE'])]:
        st = State()
        flt = _mk_filter(ev, st, prog, seen_zero=Scalar(seen), current_flag=Scalar(init))
        rv = C.mk_vec(ev, st, prog, 'x', 'y', 'z')
        try:
            extra = {}
            for p_ in czc.positional[2:]:
                if czc.default_of(p_) is None:
                    # a further input of the check: an unknown of its own (what the verdict does with it is judged below)
                    extra[p_] = C.mk_vec(ev, st, prog, f'{p_}.x', f'{p_}.y', f'{p_}.z') if 'vector' in p_.lower() or 'velocity' in p_.lower() \
                        or 'position' in p_.lower() else S(f'${p_}')
            tree, st = ev.run_func(czc, {czc.positional[0]: flt, czc.positional[1]: rv, **extra}, st)
        except Undecided as exc:
            raise AnalysisError(f'check_zero_crossing: {exc}') from exc
        problems = []
        # the case a path belongs to is found by evaluating its guards at one point of every ordering (at / before /
        # beyond the muzzle; above, on, below the sight line x tan(look)): any spelling of the tests is read
        import math as _m
        from .c16 import reachable_leaves
        for t_ in {t for pth, _lf in leaves(tree) for t, _pol in pth}:
            if t_.rf is not None and not t_.rf.symbols() <= {'x', 'y', 'L'}:
                problems.append(f'a crossing is accepted or not depending on {t_!r}, which is neither the height nor the sight line '
                                f'x tan(look)')
            elif t_.rf is not None and 'y' in t_.rf.symbols() and not (t_.rf.equals(y - ref) or t_.rf.equals(ref - y)):
                problems.append(f'a crossing test compares {t_!r}: not the height against the sight line x tan(look) exactly')
            elif t_.rf is not None and 'y' not in t_.rf.symbols() and not (t_.rf.equals(x) or t_.rf.equals(-x)):
                problems.append(f'depends on {t_!r}')
        ref5 = 2.0 * _m.tan(0.5)
        points = [('before the muzzle', False, True, {'x': -1.0, 'y': 5.0, 'L': 0.5}),
                  ('at the muzzle', False, False, {'x': 0.0, 'y': -5.0, 'L': 0.5}),
                  ('above the sight line', True, True, {'x': 2.0, 'y': ref5 + 1.0, 'L': 0.5}),
                  ('on the sight line', True, True, {'x': 2.0, 'y': 0.0, 'L': 0.0}),
                  ('below the sight line', True, False, {'x': 2.0, 'y': ref5 - 1.0, 'L': 0.5}),
                  ('below a falling sight line', True, False, {'x': 2.0, 'y': -2.0 * _m.tan(0.5) - 1.0, 'L': -0.5}),
                  ('above a falling sight line (y < 0)', True, True, {'x': 2.0, 'y': -2.0 * _m.tan(0.5) + 0.5, 'L': -0.5})]
        for what, beyond, above, env_ in points:
            for leaf in reachable_leaves(tree, env_):
                if leaf.kind == 'raise':
                    problems.append(f'{what}: raises')
                    continue
                h = leaf.state.heap[flt.oid]
                cur, sz = h.get('current_flag'), h.get('seen_zero')
                if not (isinstance(cur, Scalar) and cur.rf.is_const() and isinstance(sz, Scalar) and sz.rf.is_const()):
                    problems.append(f'flags not concrete: {cur!r} {sz!r}')
                    continue
                cur, sz = int(cur.rf.const_value()), int(sz.rf.const_value())
                want_cur, want_sz = 0, seen
                if beyond:
                    if not seen & UP:
                        if above:
                            want_cur, want_sz = UP, seen | UP
                    elif not seen & DOWN:
                        if not above:
                            want_cur, want_sz = DOWN, seen | DOWN
                if (cur, sz) == (want_cur | init, want_sz):
                    continue
                if init and (cur, sz) == (want_cur, want_sz):
                    problems.append(f'the row flags already raised for the sample ({init}) are overwritten instead of or-ed: a '
                                    f'range / time / Mach row due at the same sample is lost')
                    continue

                def nm(v):
                    return '|'.join(k for k, b in (('ZERO_UP', UP), ('ZERO_DOWN', DOWN)) if v & b) or 'NONE'
                problems.append(f'{what}: raises {nm(cur & 3)} and leaves latches {nm(sz)}; expected {nm(want_cur)} / {nm(want_sz)}'
                                + (' (the crossing tests are y >= x tan(look) for zero-up and y < x tan(look) for zero-down)'
                                   if 'sight line' in what else ''))
        label = {0: 'no latch set', 1: 'zero-up latched', 2: 'zero-down pre-marked', 3: 'both latched'}[seen]
        if problems:
            rep.fail('C15.R1', tc.path, czc.node.lineno, czc.qualname, f'latches={seen}',
                     f'check_zero_crossing with {label}: ' + '; '.join(sorted(set(problems))[:3]))
        elif init == 0:
            rep.ok('C15.R1', czc.where, f'{label}: flags and latches move together, once only')
        else:
            rep.ok('C15.R1', czc.where, f'{label}, row flags {init} already raised: kept')

    # ---- R2 ------------------------------------------------------------------------------------------
    cmc = prog.func(C.M_TC, '_TrajectoryDataFilter.check_mach_crossing')
    rep.saw(cmc)
    v, a, pvm = A.sym('v'), A.sym('a'), A.sym('pvm')
    problems = []
    trees = []
    for init in (0, flags['RANGE'], flags['RANGE'] | flags['ZERO_UP']):
        st = State()
        flt = _mk_filter(ev, st, prog, current_flag=Scalar(init))
        try:
            tree, st = ev.run_func(cmc, {cmc.positional[0]: flt, cmc.positional[1]: S('v'), cmc.positional[2]: S('a')}, st)
        except Undecided as exc:
            raise AnalysisError(f'check_mach_crossing: {exc}') from exc
        trees.extend((init, flt, p_, l_) for p_, l_ in leaves(tree))
    for init, flt, path, leaf in trees:
        h = leaf.state.heap[flt.oid]
        hist = h.get('previous_v_mach')
        if not (isinstance(hist, Scalar) and hist.rf.equals(v / a)):
            problems.append(f'on some path the Mach history becomes {hist!r} instead of speed / speed of sound')
        cur = h.get('current_flag')
        was_super = now_sub = None
        for t, pol in path:
            if t.kind == 'pos' and t.rf.equals(pvm - 1):
                was_super = pol
            elif t.kind == 'nonneg' and t.rf.equals(1 - v / a):
                now_sub = pol
            elif t.kind == 'nonneg' and (t.rf.equals((a - v) / a) or t.rf.equals(a - v)):
                now_sub = pol
            else:
                problems.append(f'depends on {t!r}')
        want = (flags['MACH'] if (was_super and now_sub) else 0) | init
        if init and isinstance(cur, Scalar) and cur.rf.is_const() and int(cur.rf.const_value()) == want & ~init and want & ~init:
            problems.append(f'the row flags already raised for the sample ({init}) are overwritten instead of or-ed: a range / '
                            f'time row due at the sample of the sonic crossing is lost')
        elif not (isinstance(cur, Scalar) and cur.rf.is_const() and int(cur.rf.const_value()) == want):
            problems.append(f'with previous Mach {"> 1" if was_super else "<= 1 / untested"} and current '
                            f'{"<= 1" if now_sub else "> 1 / untested"} the row flag is {cur!r}, expected {want}')
    if problems:
        rep.fail('C15.R2', tc.path, cmc.node.lineno, cmc.qualname, 'mach', '; '.join(sorted(set(problems))[:3]))
    else:
        rep.ok('C15.R2', cmc.where, 'MACH raised exactly when previous v/a > 1 >= current v/a; history updated on every path')
    # clear_current_flag
    ccf = prog.func(C.M_TC, '_TrajectoryDataFilter.clear_current_flag')
    st = State()
    flt = _mk_filter(ev, st, prog, current_flag=S('cf'), seen_zero=S('sz'))
    tree, st = ev.run_func(ccf, {ccf.positional[0]: flt}, st)
    okc = True
    for _p, leaf in leaves(tree):
        h = leaf.state.heap[flt.oid]
        if not (isinstance(h['current_flag'], Scalar) and h['current_flag'].rf.is_zero()
                and isinstance(h['seen_zero'], Scalar) and h['seen_zero'].rf.equals(A.sym('sz'))):
            okc = False
    if okc:
        rep.ok('C15.R2', ccf.where, 'clear_current_flag resets the row flags and keeps the latches')
    else:
        rep.fail('C15.R2', tc.path, ccf.node.lineno, ccf.qualname, 'clear',
                 'clear_current_flag does not reset exactly the row flags (latches touched or flags kept)')
    # should_record: both checks and all history fields on every path
    sr = prog.func(C.M_TC, '_TrajectoryDataFilter.should_record')
    rep.saw(sr)
    # by evaluation of should_record on a symbolic sample: the two crossing checks are replaced by recorders that leave
    # a mark in the state (so every outcome leaf shows whether and with what they were reached); on every non-raising
    # outcome both marks are present with the sample's position / speed and Mach, and the four history fields hold the
    # sample
    def mark(tag):
        def h(ev_, func, args, kwargs, st_, self_val):
            a_ = list(args) + [kwargs[k] for k in func.positional[1 + len(args):] if k in kwargs]
            ev_.hp(st_, self_val.oid)[f'$seen:{tag}'] = Tup(a_)
            return NONE
        return h
    # should_record is evaluated where _integrate calls it, inside one symbolic loop iteration (state P = (x, y, z),
    # V = (vx, vy, vz), t, speed of sound a of this step's atmosphere query), on a filter with unknown flags and latches
    from .c01 import loop_iteration
    from .flow import DENSITY_CALL
    Fi = IntegrateFacts(prog)
    runs = []

    def symcall(ev_, fv, args, kwargs, st_):
        if fv.path.endswith('.' + DENSITY_CALL):
            return Tup([S('rho'), S('a')])
        if fv.path.endswith('.should_record'):
            sub = st_.copy()
            flt_ = _mk_filter(ev_, sub, prog, seen_zero=S('sz'), current_flag=S('cf'))
            cx = Ctx(tc, sr, None, 1)
            sub.env = dict(ev_.bind(sr, list(args), dict(kwargs), sub, cx, skip_self=True))
            sub.env[sr.positional[0]] = flt_
            runs.append((flt_, ev_.exec_block(list(sr.node.body), sub, cx)))
            return SymObj('data')
        return None
    evs = Evaluator(prog, hooks={'call:_TrajectoryDataFilter.check_zero_crossing': mark('zero'),
                                 'call:_TrajectoryDataFilter.check_mach_crossing': mark('mach'),
                                 'symcall': symcall,
                                 'call:_calculate_by_curve_and_mach_list': lambda ev_, func, args, kwargs, st_, sv: S('Cd'),
                                 **C.no_wrap_hooks()},
                    opaque={'create_trajectory_row', 'spin_drift'})
    try:
        loop_iteration(prog, Fi, evs, Ctx(tc, Fi.func, None, 0))
    except Undecided as exc:
        raise AnalysisError(f'should_record at its call site: {exc}') from exc
    if not runs:
        raise AnalysisError('one iteration of the integration loop does not reach should_record in the abstract evaluation')
    speed = (A.sym('vx') ** 2 + A.sym('vy') ** 2 + A.sym('vz') ** 2) ** Fraction(1, 2)
    SAMPLE = {'pos': ('x', 'y', 'z'), 'vel': ('vx', 'vy', 'vz'), 'time': 't', 'mach': 'a'}

    def same_vec(st_, v, ref, names) -> bool:
        if not isinstance(v, Inst):
            return False
        h_ = st_.heap[v.oid]
        return all(isinstance(h_.get(c_), Scalar) and h_[c_].rf.equals(A.sym(n_)) for c_, n_ in zip('xyz', names))
    all_leaves = [(flt_, path_, leaf_) for flt_, tree_ in runs for path_, leaf_ in leaves(tree_)]
    n_leaf = 0
    p_reach, p_args, p_hist = set(), set(), set()
    for flt_s, _path, leaf in all_leaves:
        if leaf.kind == 'raise':
            continue
        n_leaf += 1
        h = leaf.state.heap[flt_s.oid]
        z, m_ = h.get('$seen:zero'), h.get('$seen:mach')
        if z is None:
            p_reach.add('check_zero_crossing')
        elif not (len(z.items) == 1 and same_vec(leaf.state, z.items[0], None, SAMPLE['pos'])):
            p_args.add(f'check_zero_crossing is called with ({", ".join(evs.describe(x) for x in z.items)}), expected the position of '
                       f'the sample')
        if m_ is None:
            p_reach.add('check_mach_crossing')
        elif not (len(m_.items) == 2 and isinstance(m_.items[0], Scalar) and m_.items[0].rf.equals(speed)
                  and isinstance(m_.items[1], Scalar) and m_.items[1].rf.equals(A.sym('a'))):
            p_args.add(f'check_mach_crossing is called with ({", ".join(evs.describe(x) for x in m_.items)}), expected (|V| of the '
                       f'sample, the speed of sound of this step)')
        for fld, ok_ in (('previous_time', isinstance(h.get('previous_time'), Scalar) and h['previous_time'].rf.equals(A.sym('t'))),
                         ('previous_mach', isinstance(h.get('previous_mach'), Scalar) and h['previous_mach'].rf.equals(A.sym('a'))),
                         ('previous_position', same_vec(leaf.state, h.get('previous_position'), None, SAMPLE['pos'])),
                         ('previous_velocity', same_vec(leaf.state, h.get('previous_velocity'), None, SAMPLE['vel']))):
            if not ok_:
                p_hist.add(fld)
    if n_leaf == 0:
        raise AnalysisError('should_record has no non-raising outcome in the abstract evaluation')
    fcls_ = sr.cls
    stored_anywhere = {x.attr for m_ in fcls_.methods.values() for x in ast.walk(m_.node)
                       if isinstance(x, ast.Attribute) and isinstance(x.ctx, ast.Store)}
    gone = sorted({'previous_time', 'previous_mach', 'previous_position', 'previous_velocity'} - stored_anywhere)
    if gone:
        # the history is kept in another layout (a record, a tuple): this rule reads the four fields of the pinned layout
        raise AnalysisError(f'the record filter no longer has the history fields {gone}: its layout changed, the history rule '
                            f'cannot read it')
    for short in ('check_zero_crossing', 'check_mach_crossing'):
        if short in p_reach:
            rep.fail('C15.R2', tc.path, sr.node.lineno, sr.qualname, f'reach:{short}',
                     f'should_record does not reach {short} on every path: some samples are never examined')
        else:
            rep.ok('C15.R2', sr.where, f'{short} reached on all {n_leaf} outcomes of should_record')
    if p_args:
        rep.fail('C15.R2', tc.path, sr.node.lineno, sr.qualname, 'args:crossing-checks', '; '.join(sorted(p_args)))
    if p_hist:
        rep.fail('C15.R2', tc.path, sr.node.lineno, sr.qualname, 'history',
                 f'should_record does not store {sorted(p_hist)} from the current sample on every path')
    else:
        rep.ok('C15.R2', sr.where, 'previous_time/position/velocity/mach rewritten from the sample on every path')
    # loop ordering in _integrate
    F = IntegrateFacts(prog)
    rep.saw(F.func)
    dom = F.cfg.dominators()

    def call_nodes(attr):
        out = []
        for n in F.cfg.nodes:
            if n.ast is None:
                continue
            roots = [n.ast] if n.kind in ('stmt', 'test') else []
            for r in roots:
                for c in ast.walk(r):
                    if isinstance(c, ast.Call) and isinstance(c.func, ast.Attribute) and c.func.attr == attr:
                        out.append((n, c))
        return out
    rec = call_nodes('should_record')
    clr = call_nodes('clear_current_flag')
    sup = call_nodes('setup_seen_zero')
    if len(rec) != 1:
        raise AnalysisError('_integrate: expected one should_record call')
    rn = rec[0][0]
    if any(n.id in dom[rn.id] and F.in_loop(n) for n, _c in clr):
        rep.ok('C15.R2', tc.where(clr[0][1]), 'clear_current_flag dominates should_record inside the loop')
    else:
        rep.fail('C15.R2', tc.path, rec[0][1].lineno, F.func.qualname, 'clear-order',
                 'should_record is not preceded by clear_current_flag in every iteration: flags of an earlier sample leak')
    def reaches_avoiding(src: Node, dst: Node, avoid: set) -> bool:
        """is there a path src -> dst that passes none of the nodes in `avoid` (src itself excluded)"""
        seen, work = {src.id}, [src]
        while work:
            n_ = work.pop()
            for m_, _lab in n_.succ:
                if m_.id in avoid or m_.id in seen:
                    continue
                if m_.id == dst.id:
                    return True
                seen.add(m_.id)
                work.append(m_)
        return False
    # the filter is armed before the loop: wherever it is built (possibly only when rows are requested), no path from the
    # construction reaches the loop without passing setup_seen_zero, and no setup runs inside the loop
    builds = [n for n in F.cfg.nodes if n.ast is not None and n.kind == 'stmt' and not F.in_loop(n)
              and any(isinstance(c, ast.Call) and (dotted(c.func) or '').split('.')[-1] == '_TrajectoryDataFilter' for c in ast.walk(n.ast))]
    sup_out = [(n, c) for n, c in sup if not F.in_loop(n)]
    if any(F.in_loop(n) for n, _c in sup):
        n_, c = next((n, c) for n, c in sup if F.in_loop(n))
        rep.fail('C15.R2', tc.path, c.lineno, F.func.qualname, 'setup-order',
                 'setup_seen_zero runs inside the loop: latches are re-armed')
    elif not sup_out:
        rep.fail('C15.R2', tc.path, F.loop.lineno, F.func.qualname, 'setup-order',
                 'setup_seen_zero does not precede the loop: the latches are never armed')
    elif not builds:
        raise AnalysisError('_integrate: the construction of the record filter before the loop was not found')
    elif any(reaches_avoiding(bn, F.loop_head, {n.id for n, _c in sup_out}) for bn in builds):
        rep.fail('C15.R2', tc.path, F.loop.lineno, F.func.qualname, 'setup-order',
                 'a path from the construction of the filter reaches the loop without setup_seen_zero: the latches are not armed')
    else:
        c = sup_out[0][1]
        want = [f'{F.P}.y', 'self.barrel_elevation', 'self.look_angle']
        if all([norm(x) for x in c_.args] == want for _n, c_ in sup_out):
            rep.ok('C15.R2', tc.where(c), 'setup_seen_zero(initial height, barrel elevation, look angle) before the loop')
        else:
            rep.fail('C15.R2', tc.path, c.lineno, F.func.qualname, 'setup-args',
                     f'setup_seen_zero is called with {[norm(x) for x in c.args]}, expected {want}')
    # the recorded row carries the current flags
    site = None
    for call in F.row_calls:
        n = F.cfg.node_of(call)
        if n is not None and F.in_loop(n) and (rn.id in dom[n.id] or (reaches_avoiding(rn, n, {F.loop_head.id}) or False)):
            if site is None or rn.id in dom[n.id]:
                site = call
    if site is None:
        raise AnalysisError('_integrate: row site fed by should_record not found')
    fl = F.row_args(site).get('flag')
    recv = norm(rec[0][1].func.value)
    sn = F.cfg.node_of(site)
    if fl is not None and norm(fl) == f'{recv}.current_flag':
        rep.ok('C15.R2', tc.where(site), f'recorded rows carry {recv}.current_flag')
    elif isinstance(fl, ast.Name) and sn is not None:
        # through a local: it is read from the filter after should_record, on every path from there to the row
        reads = [n for n in F.cfg.nodes if n.ast is not None and n.kind == 'stmt' and fl.id in defs_of(n)
                 and isinstance(n.ast, (ast.Assign, ast.AnnAssign)) and n.ast.value is not None
                 and norm(n.ast.value) == f'{recv}.current_flag']
        others = [n for n in F.cfg.nodes if n.ast is not None and fl.id in defs_of(n) and n not in reads]
        if not reads and not others and fl.id not in F.func.params:
            rep.undecided('C15.R2', tc.where(site), f'row flag `{fl.id}`',
                          'the name is bound in a comprehension or a nested function: where its value comes from is not traced')
        elif not reads:
            rep.fail('C15.R2', tc.path, site.lineno, F.func.qualname, 'row-flag',
                     f'recorded rows carry `{norm(fl)}` instead of the filter\'s current flags')
        elif all(rn.id in dom[n.id] and F.in_loop(n) for n in reads) \
                and not reaches_avoiding(rn, sn, {n.id for n in reads} | {F.loop_head.id}) \
                and not any(any(reaches_avoiding(r_, o_, {F.loop_head.id}) or r_ is o_ for r_ in reads)
                            and reaches_avoiding(o_, sn, {F.loop_head.id} | {n.id for n in reads}) for o_ in others):
            rep.ok('C15.R2', tc.where(site), f'recorded rows carry {recv}.current_flag, read into `{fl.id}` after should_record')
        else:
            rep.undecided('C15.R2', tc.where(site), f'row flag `{fl.id}`',
                          'the local holds the filter\'s flags on some paths; which definition reaches the row is path-dependent')
    else:
        rep.fail('C15.R2', tc.path, site.lineno, F.func.qualname, 'row-flag',
                 f'recorded rows carry `{norm(fl) if fl is not None else None}` instead of the filter\'s current flags')
    # setup_seen_zero semantics
    ssz = prog.func(C.M_TC, '_TrajectoryDataFilter.setup_seen_zero')
    st = State()
    flt = _mk_filter(ev, st, prog)
    tree, st = ev.run_func(ssz, {ssz.positional[0]: flt, ssz.positional[1]: S('h0'), ssz.positional[2]: S('be'),
                                 ssz.positional[3]: S('la')}, st)
    prob = []
    for path, leaf in leaves(tree):
        hh = leaf.state.heap[flt.oid]
        sz = hh.get('seen_zero')
        above = below_aim = None
        for t, pol in path:
            if t.kind == 'nonneg' and t.rf.equals(A.sym('h0')):
                above = pol
            elif t.kind == 'pos' and t.rf.equals(-A.sym('h0')):
                above = not pol
            elif t.kind == 'pos' and t.rf.equals(A.sym('la') - A.sym('be')):
                below_aim = pol
        want = UP if above else (DOWN if below_aim else 0)
        if not (isinstance(sz, Scalar) and sz.rf.is_const() and int(sz.rf.const_value()) == want):
            prob.append(f'muzzle {"on/above" if above else "below"} the sight line, barrel '
                        f'{"below" if below_aim else "at/above"} it: latches {sz!r}, expected {want}')
        la = hh.get('look_angle')
        if not (isinstance(la, Scalar) and la.rf.equals(A.sym('la'))):
            prob.append('look angle not stored')
    if prob:
        rep.fail('C15.R2', tc.path, ssz.node.lineno, ssz.qualname, 'setup', '; '.join(sorted(set(prob))[:2]))
    else:
        rep.ok('C15.R2', ssz.where, 'setup_seen_zero pre-marks exactly the crossings that cannot occur')


TCF = 'py_ballisticcalc/trajectory_calc/_trajectory_calc.py'
TDF = 'py_ballisticcalc/trajectory_data/_trajectory_data.py'
VARIANTS = [
    Variant('zero-up-latch-dropped', 'break', [(TCF, '                    self.current_flag |= TrajFlag.ZERO_UP\n                    self.seen_zero |= TrajFlag.ZERO_UP\n', '                    self.current_flag |= TrajFlag.ZERO_UP\n')], 'C15.R1', '', 'pass'),
    Variant('zero-down-latch-dropped', 'break', [(TCF, '                    self.current_flag |= TrajFlag.ZERO_DOWN\n                    self.seen_zero |= TrajFlag.ZERO_DOWN\n', '                    self.current_flag |= TrajFlag.ZERO_DOWN\n')], 'C15.R1', 'positive control', 'caught'),
    Variant('mach-history-only-when-flagged', 'break', [(TCF, "            self.current_flag |= TrajFlag.MACH\n        self.previous_v_mach = current_v_mach\n", "            self.current_flag |= TrajFlag.MACH\n            self.previous_v_mach = current_v_mach\n")], 'C15.R2', 'no Mach row is ever produced', 'pass'),
    Variant('clear-resets-latches', 'break', [(TCF, '    def clear_current_flag(self):\n        self.current_flag = TrajFlag.NONE\n', '    def clear_current_flag(self):\n        self.current_flag = TrajFlag.NONE\n        self.seen_zero = TrajFlag.NONE\n')], 'C15.R2'),
    Variant('zero-down-without-up', 'break', [(TCF, "            elif not (self.seen_zero & TrajFlag.ZERO_DOWN):  # pylint: disable=superfluous-parens\n", "            if not (self.seen_zero & TrajFlag.ZERO_DOWN):  # pylint: disable=superfluous-parens\n")], 'C15.R1', 'zero-down can fire before zero-up'),
    Variant('clear-moved-after-record', 'break', [(TCF, '            it += 1\n            data_filter.clear_current_flag()\n', '            it += 1\n'), (TCF, '            # region Ballistic calculation step (point-mass)\n', '            data_filter.clear_current_flag()\n            # region Ballistic calculation step (point-mass)\n')], 'C15.R2', 'terminal rows lose their flags; ordering changed'),
    Variant('mach-flag-at-equal', 'break', [(TCF, 'if self.previous_v_mach > 1 >= current_v_mach:', 'if self.previous_v_mach >= 1 > current_v_mach:')], 'C15.R2'),
    Variant('zeros-filter-up-only', 'break', [(TDF, 'if row.flag & TrajFlag.ZERO]', 'if row.flag & TrajFlag.ZERO_UP]')], 'C15.R3'),
    Variant('mach-crossing-skipped-when-range-row', 'break', [(TCF, '        self.check_zero_crossing(position)\n        self.check_mach_crossing(velocity.magnitude(), mach)\n', '        self.check_zero_crossing(position)\n        if data is None:\n            self.check_mach_crossing(velocity.magnitude(), mach)\n')], 'C15.R2', 'a sonic crossing that coincides with a range row is lost'),
    Variant('all-misses-mach', 'break', [(TDF, 'ALL: Final[int] = RANGE | ZERO_UP | ZERO_DOWN | MACH | APEX', 'ALL: Final[int] = RANGE | ZERO_UP | ZERO_DOWN | APEX'), (TDF, "    31: 'ALL',", "    27: 'ALL',")], 'C15.R3'),
    Variant('mach-flag-assigned-not-ored', 'break', [(TCF, '            self.current_flag |= TrajFlag.MACH\n', '            self.current_flag = TrajFlag.MACH\n')], 'C15.R2', 'seeded change C03/5: the time row due at the sonic crossing is lost'),
    Variant('zero-up-flag-assigned-not-ored', 'break', [(TCF, '                    self.current_flag |= TrajFlag.ZERO_UP\n', '                    self.current_flag = TrajFlag.ZERO_UP\n')], 'C15.R1'),
    Variant('twin-zero-crossing-early-return', 'twin', [(TCF, '''        if range_vector.x > 0:
            # Zero reference line is the sight line defined by look_angle
            reference_height = range_vector.x * math.tan(self.look_angle)
            # If we haven't seen ZERO_UP, we look for that first
            if not (self.seen_zero & TrajFlag.ZERO_UP):  # pylint: disable=superfluous-parens
                if range_vector.y >= reference_height:
                    self.current_flag |= TrajFlag.ZERO_UP
                    self.seen_zero |= TrajFlag.ZERO_UP
            # We've crossed above sight line; now look for crossing back through it
            elif not (self.seen_zero & TrajFlag.ZERO_DOWN):  # pylint: disable=superfluous-parens
                if range_vector.y < reference_height:
                    self.current_flag |= TrajFlag.ZERO_DOWN
                    self.seen_zero |= TrajFlag.ZERO_DOWN
''', '''        if range_vector.x <= 0:
            return
        reference_height = range_vector.x * math.tan(self.look_angle)
        above = range_vector.y >= reference_height
        if not self.seen_zero & TrajFlag.ZERO_UP:
            if above:
                self.current_flag |= TrajFlag.ZERO_UP
                self.seen_zero |= TrajFlag.ZERO_UP
        elif not self.seen_zero & TrajFlag.ZERO_DOWN and not above:
            self.current_flag |= TrajFlag.ZERO_DOWN
            self.seen_zero |= TrajFlag.ZERO_DOWN
''')], None, 'early return and a named boolean: same transitions'),
    Variant('twin-flags-one-statement', 'twin', [(TCF, '                    self.current_flag |= TrajFlag.ZERO_UP\n                    self.seen_zero |= TrajFlag.ZERO_UP\n', '                    self.seen_zero |= TrajFlag.ZERO_UP\n                    self.current_flag = self.current_flag | TrajFlag.ZERO_UP\n')], None),
    Variant('twin-mach-check-rewritten', 'twin', [(TCF, 'if self.previous_v_mach > 1 >= current_v_mach:', 'if current_v_mach <= 1 and self.previous_v_mach > 1:')], None),
]
