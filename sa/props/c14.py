"""C14 - Multi-BC drag models realise the interpolated BC and leave inputs intact."""
from __future__ import annotations

import ast
from typing import Dict, List, Optional, Set

from .. import algebra as A
from ..abseval import Cond, Const, Ctx, Evaluator, Inst, Leaf, Scalar, State, S, SymObj, Undecided, cond_leaves, leaves
from ..cfg import CFG, reaching_definitions
from ..check import Variant
from ..effects import Effects
from ..loader import AnalysisError, Program, dotted, norm, parent
from . import common as C

ID = 'C14'
TECHNIQUE = ('origin/effect analysis (flow-sensitive may-alias with per-function summaries to a fixed point) of the '
             'model builders against their table and point parameters; dominance of the interpolation call by a sort '
             'by Mach; abstract evaluation of the per-entry scaling to a rational identity')
DECIDED = [
    'R1 DragModel.__init__, DragModelMultiBC and make_data_points have no effect on the drag table or the BC points '
    'passed in (no field store, no in-place sort/append) - display-unit rewrites of quantity arguments excepted',
    'R2 the interpolation consumes the points sorted by Mach (sort dominates the call, both coordinate lists come '
    'from the sorted sequence); every table entry becomes CD / (interp(BC)/bc) with the same bc that becomes the '
    'model BC, i.e. standard CD * model BC / model CD = interp(BC)',
    'R3 linear_interpolation returns yp[0] at or below the first abscissa, yp[-1] at or above the last, and inside a '
    'bracket xp[m] <= x < xp[m+1] the straight line through the two bracketing points',
]
NOT_DECIDED = ['that linear_interpolation returns the clamped piecewise-linear value for every query (search-loop '
               'correctness); the single-BC equivalence as numbers']

PROTECTED = {'drag_table', 'bc_points'}
ALLOWED_FIELDS = {'_defined_units'}


def run(prog: Program, rep, thorough: bool) -> None:
    A.reset()
    rep.rule('C14.R1', 'no effect on the table / points passed in', 3)
    rep.rule('C14.R2', 'sorted before interpolation; effective-BC identity', 4)
    rep.rule('C14.R3', 'interpolation clamps at the ends and is the straight line inside a bracket', 2)
    dm = prog.module(C.M_DM)
    eng = Effects(prog)
    rep.extra['effect_fixpoint_rounds'] = eng.rounds
    builders = [prog.func(C.M_DM, 'DragModel.__init__'), prog.func(C.M_DM, 'DragModelMultiBC'),
                prog.func(C.M_DM, 'make_data_points')]
    if thorough:
        builders += [f for f in dm.funcs.values() if f not in builders and (set(f.params) & PROTECTED)]
    for f in builders:
        rep.saw(f)
        s = eng.summaries[f.fq]
        bad = [e for (o, fld), e in s.effects.items()
               if o[0] == 'param' and o[1] in PROTECTED and fld not in ALLOWED_FIELDS]
        if not bad:
            rep.ok('C14.R1', f.where, f'{f.qualname}: no store reaches {sorted(set(f.params) & PROTECTED)}')
        for e in bad:
            what = 'reorders / resizes the caller\'s list in place' if e.field.startswith('.') else \
                f'stores field `{e.field}` of an object that came in through it'
            rep.fail('C14.R1', e.module.path, e.line, f.qualname, f'{e.origin[1]}:{e.field}',
                     f'{f.qualname} {what}: parameter `{e.origin[1]}`, statement `{e.text}`', list(e.chain))

    # ---- R2 ----------------------------------------------------------------------------------
    mb = prog.func(C.M_DM, 'DragModelMultiBC')
    cfg = CFG(mb.node)
    rd = reaching_definitions(cfg, mb.params)
    dom = cfg.dominators()
    interp = [c for c in ast.walk(mb.node) if isinstance(c, ast.Call) and (dotted(c.func) or '') == 'linear_interpolation']
    if len(interp) != 1 or len(interp[0].args) != 3:
        raise AnalysisError('DragModelMultiBC: expected one linear_interpolation(x, xp, yp) call')
    call = interp[0]
    cnode = cfg.node_of(call)

    def comp_source(arg) -> Optional[ast.ListComp]:
        return arg if isinstance(arg, ast.ListComp) and len(arg.generators) == 1 else None
    xs, xp, yp = (comp_source(a) for a in call.args)
    if not (xs and xp and yp):
        raise AnalysisError('DragModelMultiBC: interpolation arguments are not simple comprehensions')
    pts_xp, pts_yp = norm(xp.generators[0].iter), norm(yp.generators[0].iter)
    if pts_xp != pts_yp or not isinstance(xp.generators[0].iter, ast.Name):
        rep.fail('C14.R2', dm.path, call.lineno, mb.qualname, 'xp-yp',
                 f'abscissae come from `{pts_xp}` but ordinates from `{pts_yp}`')
    else:
        pname = xp.generators[0].iter.id
        # sorted: an in-place sort statement on that name dominating the call, or every reaching definition is sorted(...)
        sorted_ok, how = False, ''
        for n in cfg.nodes:
            a = n.ast
            if isinstance(a, ast.Expr) and isinstance(a.value, ast.Call) and isinstance(a.value.func, ast.Attribute) \
                    and a.value.func.attr == 'sort' and norm(a.value.func.value) == pname and _key_is_mach(a.value):
                if n.id in dom[cnode.id] and rd[cnode.id].get(pname) == rd[n.id].get(pname):
                    sorted_ok, how = True, f'`{norm(a)}` dominates the call'
        defs = [cfg.nodes[i] for i in rd[cnode.id].get(pname, set())]
        if defs and all(isinstance(d.ast, ast.Assign) and isinstance(d.ast.value, ast.Call)
                        and (dotted(d.ast.value.func) or '') == 'sorted' and _key_is_mach(d.ast.value) for d in defs):
            sorted_ok, how = True, f'`{norm(defs[0].ast)[:70]}` is the only reaching definition'
        xp_is_mach = norm(xp.elt) == f'{xp.generators[0].target.id}.Mach' if isinstance(xp.generators[0].target, ast.Name) else False
        if sorted_ok and xp_is_mach:
            rep.ok('C14.R2', dm.where(call), f'points sorted by Mach before interpolation: {how}')
        else:
            rep.fail('C14.R2', dm.path, call.lineno, mb.qualname, 'sorted',
                     f'the interpolation is not dominated by a sort of `{pname}` by Mach '
                     f'(abscissa expression `{norm(xp.elt)}`): the result depends on the order the points are given in')
    # ordinates: x.BC / bc
    ev = Evaluator(prog)
    tgt = yp.generators[0].target
    bc_name = None
    if isinstance(tgt, ast.Name):
        st = State()
        bcp = prog.cls(C.M_DM, 'BCPoint')
        st.env[tgt.id] = ev.new_inst(st, bcp, {'BC': S('BCi'), 'Mach': S('Mi'), 'V': Const(None)})
        names = {n.id for n in ast.walk(yp.elt) if isinstance(n, ast.Name)} - {tgt.id}
        for nme in names:
            st.env[nme] = S(f'${nme}')
        try:
            v = ev.eval(yp.elt, st, Ctx(dm, mb, None, 0))
        except Undecided as exc:
            raise AnalysisError(f'DragModelMultiBC ordinates: {exc}') from exc
        for nme in names:
            if isinstance(v, Scalar) and v.rf.equals(A.sym('BCi') / A.sym(f'${nme}')):
                bc_name = nme
    if bc_name:
        rep.ok('C14.R2', dm.where(call), f'ordinates are BC / {bc_name}')
    else:
        rep.fail('C14.R2', dm.path, call.lineno, mb.qualname, 'ordinates',
                 f'interpolated ordinates are `{norm(yp.elt)}`, expected BC divided by the model BC')
    # abscissae of the query: Mach of the table being scaled
    table_name = norm(xs.generators[0].iter)
    # scaling: CD_new = CD_old / interp[i]
    res_name = None
    p = parent(call)
    if isinstance(p, ast.Assign) and isinstance(p.targets[0], ast.Name):
        res_name = p.targets[0].id
    scaled = _scaling(prog, ev, mb, dm, table_name, res_name)
    if scaled is None:
        rep.undecided('C14.R2', mb.where, 'per-entry scaling', 'shape of the scaling loop not recognised')
    elif scaled[0]:
        rep.ok('C14.R2', mb.where, f'every entry of {table_name}: CD -> CD / {res_name}[i] (i = index of the entry)')
    else:
        rep.fail('C14.R2', dm.path, scaled[2], mb.qualname, 'scaling', scaled[1])
    # model BC is the same bc
    rets = [r for r in ast.walk(mb.node) if isinstance(r, ast.Return) and isinstance(r.value, ast.Call)
            and (dotted(r.value.func) or '') == 'DragModel']
    if not rets:
        raise AnalysisError('DragModelMultiBC does not return DragModel(...)')
    for r in rets:
        a0 = r.value.args[0] if r.value.args else next((k.value for k in r.value.keywords if k.arg == 'bc'), None)
        a1 = r.value.args[1] if len(r.value.args) > 1 else next((k.value for k in r.value.keywords if k.arg == 'drag_table'), None)
        if a0 is not None and bc_name and norm(a0) == bc_name and a1 is not None:
            rep.ok('C14.R2', dm.where(r), f'model BC = {bc_name}; standard CD * model BC / model CD = interp(BC)')
        else:
            rep.fail('C14.R2', dm.path, r.lineno, mb.qualname, 'model-bc',
                     f'the model is built with BC `{norm(a0) if a0 is not None else None}` but the ordinates were divided by '
                     f'`{bc_name}`: effective BC no longer equals the interpolated BC')
    check_interpolation(prog, rep, ev, 'C14.R3')
    bcp_machc = prog.func(C.M_DM, 'BCPoint._machC') if prog.has_func(C.M_DM, 'BCPoint._machC') else None
    if bcp_machc is not None:
        try:
            v, _ = ev.call_value(bcp_machc, [])
            rep.extra['bcpoint_mach1_reference_mps'] = A.numeric(v.rf) if isinstance(v, Scalar) else repr(v)
        except Undecided:
            pass


def check_interpolation(prog: Program, rep, ev: Evaluator, rule: str) -> None:
    """linear_interpolation: per query point, clamp below the first and above the last abscissa, and inside
    use the straight line through the two bracketing points.  The search loop itself is not decided."""
    dm = prog.module(C.M_DM)
    li = prog.func(C.M_DM, 'linear_interpolation')
    rep.saw(li)
    outer = [s_ for s_ in li.node.body if isinstance(s_, ast.For)]
    if len(outer) != 1 or not isinstance(outer[0].target, ast.Name):
        raise AnalysisError('linear_interpolation: expected one loop over the query points')
    loop = outer[0]
    xname, xpn, ypn = li.positional[0], li.positional[1], li.positional[2]
    if norm(loop.iter) != xname:
        rep.fail(rule, dm.path, loop.lineno, li.qualname, 'queries', f'the loop runs over `{norm(loop.iter)}`, not over the query points')
        return
    res_names = [n.func.value.id for n in ast.walk(loop) if isinstance(n, ast.Call) and isinstance(n.func, ast.Attribute)
                 and n.func.attr == 'append' and isinstance(n.func.value, ast.Name)]
    if not res_names:
        raise AnalysisError('linear_interpolation: no result list')
    st = State()
    out = ev.new_list(st, [])
    st.env.update({loop.target.id: S('xi'), xpn: SymObj('xp'), ypn: SymObj('yp'), res_names[0]: out})
    # loop-carried locals defined before the loop are unknowns here
    for n in ast.walk(loop):
        if isinstance(n, ast.Name) and n.id not in st.env and n.id not in ('len', 'range', 'enumerate', 'min', 'max', 'abs'):
            st.env[n.id] = S(f'${n.id}')
    try:
        tree = ev.exec_block(loop.body, st, Ctx(dm, li, None, 0))
    except Undecided as exc:
        rep.undecided(rule, li.where, 'linear_interpolation', f'shape not readable: {exc}')
        return
    xi = A.sym('xi')
    lo_clamp = hi_clamp = False
    problems = []
    for path, leaf in leaves(tree):
        items = leaf.state.heap[out.oid]['$items']
        below = above = None
        for t, pol in path:
            if t.kind == 'nonneg' and t.rf.equals(A.sym('xp[0]') - xi):
                below = pol
            elif t.kind == 'nonneg' and t.rf.equals(xi - A.sym('xp[-1]')):
                above = pol
            elif t.kind == 'pos' and t.rf.equals(xi - A.sym('xp[0]')):
                below = not pol
            elif t.kind == 'pos' and t.rf.equals(A.sym('xp[-1]') - xi):
                above = not pol
        if below:
            lo_clamp = True
            if not (len(items) == 1 and isinstance(items[0], SymObj) and items[0].path == 'yp[0]'):
                problems.append(f'below the first point the value is {items!r}, expected yp[0]')
        elif above:
            hi_clamp = True
            if not (len(items) == 1 and isinstance(items[0], SymObj) and items[0].path == 'yp[-1]'):
                problems.append(f'above the last point the value is {items!r}, expected yp[-1]')
    if not lo_clamp:
        problems.append('no clamp at the first point (x <= xp[0])')
    if not hi_clamp:
        problems.append('no clamp at the last point (x >= xp[-1])')
    # interpolant inside the search loop: the appended value under the bracketing guard
    inner = [n for n in ast.walk(loop) if isinstance(n, ast.While)]
    ok_line = False
    for w in inner:
        for iff in [n for n in ast.walk(w) if isinstance(n, ast.If)]:
            apps = [c for c in ast.walk(iff) if isinstance(c, ast.Call) and isinstance(c.func, ast.Attribute) and c.func.attr == 'append']
            if not apps:
                continue
            st2 = State()
            out2 = ev.new_list(st2, [])
            st2.env.update({loop.target.id: S('xi'), xpn: SymObj('xp'), ypn: SymObj('yp'), res_names[0]: out2, 'mid': S('m')})
            for n in ast.walk(iff):
                if isinstance(n, ast.Name) and n.id not in st2.env and isinstance(n.ctx, ast.Load) and n.id not in ('len',):
                    st2.env[n.id] = S('m') if n.id in {x.id for x in ast.walk(iff.test) if isinstance(x, ast.Name)} - {loop.target.id, xpn, ypn} else S(f'${n.id}')
            try:
                gv = ev.eval(iff.test, st2, Ctx(dm, li, None, 0))
                t2 = ev.exec_block([s_ for s_ in iff.body if not isinstance(s_, ast.Break)], st2, Ctx(dm, li, None, 0))
            except Undecided:
                continue
            its = t2.state.heap[out2.oid]['$items'] if isinstance(t2, Leaf) else []
            if len(its) != 1:
                continue
            try:
                val = ev.scalar(its[0])
            except Undecided:
                continue
            m = A.sym('m')
            x0, x1 = A.sym(f'xp[{m!r}]'), A.sym(f'xp[{(m + 1)!r}]')
            y0, y1 = A.sym(f'yp[{m!r}]'), A.sym(f'yp[{(m + 1)!r}]')
            line = y0 + (y1 - y0) / (x1 - x0) * (xi - x0)
            # the guard must bracket: xp[m] <= xi < xp[m+1]
            tests = []
            for _pp, lf in cond_leaves(gv):
                if isinstance(lf, Const) and lf.value is True:
                    tests = _pp
            br_lo = any(t.kind == 'nonneg' and t.rf.equals(xi - x0) and pol for t, pol in tests)
            br_hi = any((t.kind == 'pos' and t.rf.equals(x1 - xi) and pol) or (t.kind == 'nonneg' and t.rf.equals(x1 - xi) and pol)
                        for t, pol in tests)
            if val.equals(line) and br_lo and br_hi:
                ok_line = True
            elif br_lo or br_hi:
                problems.append(f'inside the bracket [xp[m], xp[m+1]) the value is {val!r}, not the straight line through the '
                                f'two bracketing points')
    if problems:
        rep.fail(rule, dm.path, li.node.lineno, li.qualname, 'interpolant', '; '.join(sorted(set(problems))[:3]))
    elif not ok_line:
        # another search shape (a sweep, bisect, ...): whether it brackets every query is loop correctness: not decided
        rep.ok(rule, li.where, 'x <= xp[0] -> yp[0]; x >= xp[-1] -> yp[-1]')
        rep.undecided(rule, li.where, 'interior interpolant', 'no `xp[m] <= x < xp[m+1]`-guarded straight line recognised; the '
                      'correctness of another search shape is not decided')
    else:
        rep.ok(rule, li.where, 'x <= xp[0] -> yp[0]; x >= xp[-1] -> yp[-1]')
        rep.ok(rule, li.where, 'xp[m] <= x < xp[m+1] -> yp[m] + (yp[m+1]-yp[m])/(xp[m+1]-xp[m]) (x - xp[m])')


def _key_is_mach(call: ast.Call) -> bool:
    for k in call.keywords:
        if k.arg == 'key':
            v = k.value
            if isinstance(v, ast.Lambda) and isinstance(v.body, ast.Attribute) and v.body.attr == 'Mach' \
                    and isinstance(v.body.value, ast.Name) and v.args.args and v.body.value.id == v.args.args[0].arg:
                return not any(kk.arg == 'reverse' for kk in call.keywords)
            if isinstance(v, ast.Call) and (dotted(v.func) or '').endswith('attrgetter') and v.args \
                    and isinstance(v.args[0], ast.Constant) and v.args[0].value == 'Mach':
                return not any(kk.arg == 'reverse' for kk in call.keywords)
    return False


def _scaling(prog, ev, mb, dm, table_name, res_name):
    """(ok, message, line) for the loop  `for i, point in enumerate(table): ... CD / res[i]`."""
    if res_name is None:
        return None
    ddp = prog.cls(C.M_DM, 'DragDataPoint')
    for loop in ast.walk(mb.node):
        if not (isinstance(loop, ast.For) and isinstance(loop.iter, ast.Call) and (dotted(loop.iter.func) or '') == 'enumerate'
                and loop.iter.args and norm(loop.iter.args[0]) == table_name and isinstance(loop.target, ast.Tuple)
                and len(loop.target.elts) == 2 and all(isinstance(e, ast.Name) for e in loop.target.elts)):
            continue
        iname, pname = loop.target.elts[0].id, loop.target.elts[1].id
        st = State()
        point = ev.new_inst(st, ddp, {'Mach': S('M'), 'CD': S('cd')})
        st.env.update({iname: S('i'), pname: point, res_name: SymObj('interp')})
        for n_ in ast.walk(loop):
            if isinstance(n_, ast.Name) and isinstance(n_.ctx, ast.Load) and n_.id not in st.env:
                try:
                    ev.lookup(n_.id, State(), Ctx(dm, mb, None, 0))
                except Undecided:
                    st.env[n_.id] = S(f'${n_.id}')
        out = ev.new_list(st, [])
        for n in ast.walk(loop):
            if isinstance(n, ast.Call) and isinstance(n.func, ast.Attribute) and n.func.attr == 'append' \
                    and isinstance(n.func.value, ast.Name):
                st.env[n.func.value.id] = out
        try:
            tree = ev.exec_block(loop.body, st, Ctx(dm, mb, None, 0))
        except Undecided:
            return None
        want = A.sym('cd') / A.sym('interp[i]')
        for _p, leaf in leaves(tree):
            h = leaf.state.heap
            cands = [h[point.oid].get('CD')] + [h[x.oid].get('CD') for x in h[out.oid]['$items'] if isinstance(x, Inst)]
            if not any(isinstance(c, Scalar) and c.rf.equals(want) for c in cands):
                return (False, f'an entry is scaled to {cands!r}; expected CD / {res_name}[i] = {want!r}', loop.lineno)
        return (True, '', loop.lineno)
    # comprehension form
    for comp in ast.walk(mb.node):
        if isinstance(comp, ast.ListComp) and len(comp.generators) == 1 and isinstance(comp.generators[0].iter, ast.Call) \
                and (dotted(comp.generators[0].iter.func) or '') == 'enumerate' \
                and norm(comp.generators[0].iter.args[0]) == table_name and isinstance(comp.generators[0].target, ast.Tuple):
            t = comp.generators[0].target
            iname, pname = t.elts[0].id, t.elts[1].id
            st = State()
            point = ev.new_inst(st, ddp, {'Mach': S('M'), 'CD': S('cd')})
            st.env.update({iname: S('i'), pname: point, res_name: SymObj('interp')})
            try:
                v = ev.eval(comp.elt, st, Ctx(dm, mb, None, 0))
            except Undecided:
                return None
            want = A.sym('cd') / A.sym('interp[i]')
            cd = st.heap[v.oid].get('CD') if isinstance(v, Inst) else None
            if isinstance(cd, Scalar) and cd.rf.equals(want):
                return (True, '', comp.lineno)
            return (False, f'an entry is scaled to {cd!r}; expected {want!r}', comp.lineno)
    return None


DMF = 'py_ballisticcalc/drag_model.py'
VARIANTS = [
    Variant('points-passed-through', 'break', [(DMF, "DragDataPoint(point.Mach, point.CD) if isinstance(point, DragDataPoint)", "point if isinstance(point, DragDataPoint)")], 'C14.R1', 'the defect repaired in /repo: caller\'s data points scaled in place', 'pass'),
    Variant('bc-points-sorted-in-place', 'break', [(DMF, 'bc_points = sorted(bc_points, key=lambda p: p.Mach)', 'bc_points.sort(key=lambda p: p.Mach)')], 'C14.R1', 'the defect repaired in /repo', 'pass'),
    Variant('divide-by-interp-times-bc', 'break', [(DMF, 'point.CD = point.CD / bc_interp[i]', 'point.CD = point.CD / (bc_interp[i] * bc)')], 'C14.R2'),
    Variant('interpolate-before-sorting', 'break', [(DMF, '    bc_points = sorted(bc_points, key=lambda p: p.Mach)  # Make sure bc_points are sorted for linear interpolation\n', '')], 'C14.R2'),
    Variant('sorted-descending', 'break', [(DMF, 'sorted(bc_points, key=lambda p: p.Mach)', 'sorted(bc_points, key=lambda p: p.Mach, reverse=True)')], 'C14.R2'),
    Variant('model-bc-one', 'break', [(DMF, 'return DragModel(bc, drag_table, weight, diameter, length)', 'return DragModel(1.0, drag_table, weight, diameter, length)')], 'C14.R2'),
    Variant('dragmodel-sorts-callers-table', 'break', [(DMF, '        self.drag_table = make_data_points(drag_table)\n', '        drag_table.sort(key=lambda p: p["Mach"] if isinstance(p, dict) else p.Mach)\n        self.drag_table = make_data_points(drag_table)\n')], 'C14.R1'),
    Variant('interp-slope-from-wrong-pair', 'break', [(DMF, 'slope = (yp[mid + 1] - yp[mid]) / (xp[mid + 1] - xp[mid])', 'slope = (yp[mid + 1] - yp[mid]) / (xp[mid + 1] - xp[mid - 1])')], 'C14.R3', 'wrong only between points'),
    Variant('interp-upper-clamp-to-first', 'break', [(DMF, '        elif xi >= xp[-1]:\n            y.append(yp[-1])', '        elif xi >= xp[-1]:\n            y.append(yp[0])')], 'C14.R3', 'wrong only above the fastest BC point'),
    Variant('interp-no-lower-clamp', 'break', [(DMF, '        if xi <= xp[0]:\n            y.append(yp[0])\n        elif xi >= xp[-1]:', '        if xi >= xp[-1]:')], 'C14.R3'),
    Variant('twin-sorted-new-local', 'twin', [(DMF, '    bc_points = sorted(bc_points, key=lambda p: p.Mach)  # Make sure bc_points are sorted for linear interpolation\n    bc_interp = linear_interpolation([x.Mach for x in drag_table],\n                                     [x.Mach for x in bc_points],\n                                     [x.BC / bc for x in bc_points])', '    pts = sorted(bc_points, key=lambda p: p.Mach)\n    bc_interp = linear_interpolation([x.Mach for x in drag_table],\n                                     [x.Mach for x in pts],\n                                     [x.BC / bc for x in pts])')], None),
]
