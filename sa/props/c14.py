"""C14 - Multi-BC drag models realise the interpolated BC and leave inputs intact."""
from __future__ import annotations

import ast
from fractions import Fraction
from typing import Dict, List, Optional, Set

from .. import algebra as A
from ..abseval import Cond, Const, Ctx, Evaluator, Inst, Leaf, NONE, Raised, Scalar, State, S, SymObj, Undecided, cond_leaves, leaves
from ..cfg import CFG, reaching_definitions
from ..check import Variant
from ..effects import Effects
from ..loader import AnalysisError, Program, dotted, norm, parent
from . import common as C

ID = 'C14'
TECHNIQUE = ('origin/effect analysis (flow-sensitive may-alias with per-function summaries to a fixed point) '
             'of the model builders against their table and point parameters; abstract evaluation of '
             'DragModelMultiBC as a whole (loops over the known lists unrolled) on a finite family of tables '
             'and point sets, the effective BC compared with the clamped piecewise-linear interpolation '
             'computed from the definition; the interpolation search by inductive invariants in a linear-'
             'constraint domain (Houdini inference, Fourier-Motzkin refutation) with counterexamples from a '
             'finite ordering family')
DECIDED = [
    'R1 DragModel.__init__, DragModelMultiBC and make_data_points have no effect on the drag table or the BC '
    'points passed in (no field store, no in-place sort/append) - display-unit rewrites of quantity arguments'
    ' excepted',
    'R2 DragModelMultiBC evaluated as a whole on a table of four Mach nodes with symbolic drag values and '
    'nine sets of one, two and three BC points with symbolic BCs - in ascending, descending and mixed order, '
    'reaching beyond either end of the table, with and without bullet weight / diameter: at every entry of '
    'every model standard CD x model BC / model CD is the clamped piecewise-linear interpolation of the given'
    ' BCs (computed from the definition); the result does not depend on the order given; a single point gives'
    ' the plain single-BC model; the model BC is the sectional density when weight and diameter are given and'
    ' 1 otherwise',
    'R3 linear_interpolation, for every list length and every query: each value appended is, under the facts '
    'that hold where it is appended (branch conditions plus inductive loop invariants), yp[0] at or below the'
    " first abscissa, yp[-1] at or above the last, a node's ordinate at the node, or the straight line "
    'through two adjacent nodes that bracket the query; every index is in range - proved by Houdini-inferred '
    'invariants and Fourier-Motzkin refutation (engine F); an unproved obligation becomes a violation only '
    'with a concrete counterexample from the finite input family (which also exposes a search that never '
    'terminates or skips a query)',
]
NOT_DECIDED = [
    'termination of the search for lists longer than the finite family; the effective-BC identity for tables '
    "and point sets outside the finite family of R2 (R3's proof covers the interpolation routine for every "
    'length; the wiring around it is evaluated on the family)',
]

PROTECTED = {'drag_table', 'bc_points'}
ALLOWED_FIELDS = {'_defined_units'}


def check_effective_bc(prog: Program, rep, mb, rule: str) -> None:
    """The effective-BC identity by evaluation of DragModelMultiBC as a whole (engine D, loops over the known lists
    unrolled) on a finite family: a table of four Mach nodes with symbolic drag values, and one, two and three BC points
    with symbolic BCs given in ascending, descending and mixed order, with and without bullet weight / diameter (so the
    model BC is the sectional density symbol or 1).  For every outcome and every table entry,
    standard CD x model BC / model CD must be the clamped piecewise-linear interpolation of the given BCs at the entry's
    Mach number (computed here from the definition).  The all-lengths correctness of the interpolation routine itself is
    R3's proof."""
    import itertools
    dm = prog.module(C.M_DM)
    ddp, bcp, dmc = prog.cls(C.M_DM, 'DragDataPoint'), prog.cls(C.M_DM, 'BCPoint'), prog.cls(C.M_DM, 'DragModel')
    table_mach = [Fraction(1, 2), Fraction(1), Fraction(3, 2), Fraction(5, 2)]
    point_sets = [[(1, Fraction(1))], [(1, Fraction(5, 2))],
                  [(1, Fraction(1)), (2, Fraction(2))], [(2, Fraction(2)), (1, Fraction(1))],
                  [(1, Fraction(3, 4)), (2, Fraction(5, 4)), (3, Fraction(2))], [(3, Fraction(2)), (1, Fraction(3, 4)), (2, Fraction(5, 4))],
                  [(2, Fraction(5, 4)), (3, Fraction(2)), (1, Fraction(3, 4))],
                  [(1, Fraction(2)), (2, Fraction(3))], [(2, Fraction(1)), (1, Fraction(1, 4))],     # a point beyond either end of the table
                  # points given by velocity mixed with points given by Mach (a point given by velocity keeps that velocity,
                  # one given by Mach a zero velocity - what BCPoint.__init__ stores): 'v' marks the velocity-given ones
                  [(1, Fraction(3, 4), 'v'), (2, Fraction(2))], [(2, Fraction(2)), (1, Fraction(3, 4), 'v')],
                  [(1, Fraction(1)), (2, Fraction(3, 2), 'v'), (3, Fraction(9, 4))]]

    def expected(points, m) -> A.RF:
        pts = sorted(points, key=lambda p_: p_[1])
        if m <= pts[0][1]:
            return A.sym(f'b{pts[0][0]}')
        if m >= pts[-1][1]:
            return A.sym(f'b{pts[-1][0]}')
        for (k0, m0), (k1, m1) in zip(pts, pts[1:]):
            if m0 <= m <= m1:
                t_ = A.rf((m - m0) / (m1 - m0))
                return A.sym(f'b{k0}') * (A.rf(1) - t_) + A.sym(f'b{k1}') * t_
        raise AssertionError
    problems: List[str] = []
    n_cases = n_entries = 0
    for points in point_sets:
        ev = Evaluator(prog, hooks={**C.pref_hooks(prog), 'call:sectional_density': lambda *a_: S('sd')})
        ev.unroll = True
        st = State()
        table = ev.new_list(st, [ev.new_inst(st, ddp, {'Mach': Scalar(m), 'CD': S(f'c{k}')}) for k, m in enumerate(table_mach, 1)])
        # the fields as BCPoint.__init__ leaves them: V is a Velocity - zero for a point given by Mach, the velocity itself
        # (here Mach x 340 m/s, any positive number would do) for one given by velocity
        given_by_v = {p_[0] for p_ in points if len(p_) > 2}
        points = [(p_[0], p_[1]) for p_ in points]
        pts = ev.new_list(st, [ev.new_inst(st, bcp, {
            'BC': S(f'b{k}'), 'Mach': Scalar(m),
            'V': C.mk_quantity(ev, st, prog, 'Velocity', Scalar(m * 340 if k in given_by_v else Fraction(0)), 'MPS')})
            for k, m in points])
        env = {mb.positional[0]: pts, mb.positional[1]: table,
               'weight': C.mk_quantity(ev, st, prog, 'Weight', 'w_raw', 'Grain'),
               'diameter': C.mk_quantity(ev, st, prog, 'Distance', 'd_raw', 'Inch'),
               'length': C.mk_quantity(ev, st, prog, 'Distance', 'l_raw', 'Inch')}
        env = {k: v for k, v in env.items() if k in mb.params}
        try:
            tree, st = ev.run_func(mb, env, st)
        except Undecided as exc:
            raise AnalysisError(f'DragModelMultiBC on {len(points)} point(s): {exc}') from exc
        label = f'{len(points)} BC point(s) given at Mach {[str(m) for _k, m in points]}'
        seen_bc = set()
        for _path, lf in leaves(tree):
            if lf.kind == 'raise':
                continue
            for _cp, v in cond_leaves(lf.value):
                if isinstance(v, Raised):
                    continue
                if not (isinstance(v, Inst) and v.cls is dmc):
                    raise AnalysisError(f'DragModelMultiBC returns {v!r} in the abstract evaluation')
                h = lf.state.heap[v.oid]
                mbc = h.get('BC')
                rows = ev.items(lf.state, h.get('drag_table')) if h.get('drag_table') is not None else None
                if not isinstance(mbc, Scalar) or rows is None or len(rows) != len(table_mach):
                    raise AnalysisError(f'the model built is not (BC number, table of {len(table_mach)} entries): BC {mbc!r}')
                seen_bc.add(repr(mbc.rf))
                n_cases += 1
                for k, (row, m) in enumerate(zip(rows, table_mach), 1):
                    rh = lf.state.heap[row.oid] if isinstance(row, Inst) else {}
                    cd, mach = rh.get('CD'), rh.get('Mach')
                    if not (isinstance(cd, Scalar) and isinstance(mach, Scalar) and mach.rf.equals(A.rf(m))):
                        problems.append(f'{label}: entry {k} of the model is {rh!r}')
                        continue
                    eff = A.sym(f'c{k}') * mbc.rf / cd.rf
                    if any('@' in s_ or s_.startswith('<') for s_ in eff.symbols()):
                        raise AnalysisError(f'DragModelMultiBC: entry {k} of the model depends on `{sorted(s_ for s_ in eff.symbols() if "@" in s_ or s_.startswith("<"))[0]}`, '
                                            f'a loop the evaluator could not read pass by pass')
                    want = expected(points, m)
                    n_entries += 1
                    if not eff.equals(want):
                        problems.append(f'{label}, model BC {mbc.rf!r}: at Mach {m} standard CD x model BC / model CD = {eff!r}, the '
                                        f'interpolated BC is {want!r}')
        if not ({'sd', '1'} <= seen_bc):
            problems.append(f'{label}: the model BC takes the values {sorted(seen_bc)}, expected the sectional density when weight and '
                            f'diameter are given and 1 otherwise')
    if problems:
        rep.fail(rule, dm.path, mb.node.lineno, mb.qualname, 'effective-bc', problems[0] +
                 (f' (and {len(set(problems)) - 1} more)' if len(set(problems)) > 1 else ''))
    else:
        rep.ok(rule, mb.where, f'standard CD x model BC / model CD = clamped piecewise-linear BC at every entry: {n_entries} entries of '
               f'{n_cases} models ({len(point_sets)} point sets in every order, model BC = sectional density and 1)')
        rep.ok(rule, mb.where, 'the result does not depend on the order the points are given in (each set evaluated in several orders)')
        rep.ok(rule, mb.where, 'a single BC point gives the plain single-BC model (effective BC = that BC at every entry)')
        rep.ok(rule, mb.where, 'model BC = sectional density when weight and diameter are given, else 1')


def run(prog: Program, rep, thorough: bool) -> None:
    A.reset()
    rep.rule('C14.R1', 'no effect on the table / points passed in', 3)
    rep.rule('C14.R2', 'sorted before interpolation; effective-BC identity', 4)
    rep.rule('C14.R3', 'every appended value is the clamped piecewise-linear value (proof per append site)', 1)
    dm = prog.module(C.M_DM)
    eng = Effects(prog)
    rep.extra['effect_fixpoint_rounds'] = eng.rounds
    builders = [prog.func(C.M_DM, 'DragModel.__init__'), prog.func(C.M_DM, 'DragModelMultiBC'),
                prog.func(C.M_DM, 'make_data_points')]
    if thorough:
        builders += [f for f in dm.funcs.values() if f not in builders and (set(f.params) & PROTECTED)]
    for f in builders:
        rep.saw(f)
        s = eng.summaries[f.fq]
        bad = [e for (o, fld), e in s.effects.items()
               if o[0] == 'param' and o[1] in PROTECTED and fld not in ALLOWED_FIELDS]
        if not bad:
            rep.ok('C14.R1', f.where, f'{f.qualname}: no store reaches {sorted(set(f.params) & PROTECTED)}')
        for e in bad:
            what = 'reorders / resizes the caller\'s list in place' if e.field.startswith('.') else \
                f'stores field `{e.field}` of an object that came in through it'
            rep.fail('C14.R1', e.module.path, e.line, f.qualname, f'{e.origin[1]}:{e.field}',
                     f'{f.qualname} {what}: parameter `{e.origin[1]}`, statement `{e.text}`', list(e.chain))

    # ---- R2 ----------------------------------------------------------------------------------
    mb = prog.func(C.M_DM, 'DragModelMultiBC')
    rep.saw(mb)
    check_effective_bc(prog, rep, mb, 'C14.R2')
    ev = Evaluator(prog)
    check_interpolation(prog, rep, ev, 'C14.R3')
    bcp_machc = prog.func(C.M_DM, 'BCPoint._machC') if prog.has_func(C.M_DM, 'BCPoint._machC') else None
    if bcp_machc is not None:
        try:
            v, _ = ev.call_value(bcp_machc, [])
            rep.extra['bcpoint_mach1_reference_mps'] = A.numeric(v.rf) if isinstance(v, Scalar) else repr(v)
        except Undecided:
            pass


def check_interpolation(prog: Program, rep, ev: Evaluator, rule: str) -> None:
    """linear_interpolation decided for every query and every table length (engine F): each value appended to the
    result is, under the facts that hold where it is appended (branch conditions plus inductive loop invariants),
    the first ordinate at or below the first abscissa, the last at or above the last, a node's ordinate at that node,
    or the straight line through two adjacent nodes that bracket the query; every index is in range.  Abscissae are
    assumed strictly ascending (distinct Mach values), both coordinate lists of one length."""
    from .. import loopproof as L
    dm = prog.module(C.M_DM)
    li = prog.func(C.M_DM, 'linear_interpolation')
    rep.saw(li)
    xname, xpn, ypn = li.positional[0], li.positional[1], li.positional[2]
    rets = [n for n in ast.walk(li.node) if isinstance(n, ast.Return) and n.value is not None]
    res = {r.value.id for r in rets if isinstance(r.value, ast.Name)}
    if len(res) != 1 or len(rets) != sum(1 for r in rets if isinstance(r.value, ast.Name)):
        rep.undecided(rule, li.where, 'linear_interpolation', 'the result is not one list built by append')
        return
    res_name = next(iter(res))
    roles = L.Roles(arrays={xpn: 'strict', ypn: None}, real_seqs=[xname], same_length=[(xpn, ypn)], min_len={xpn: 1},
                    emit_lists=[res_name])
    rep.assume('linear_interpolation: abscissae strictly ascending (distinct Mach values), len(xp) == len(yp) >= 1')

    def line_through(ab, k):
        one = L.Lin.const(1)
        x0, x1 = A.sym(ab.pr.elem_term(xpn, k)), A.sym(ab.pr.elem_term(xpn, k + one))
        y0, y1 = A.sym(ab.pr.elem_term(ypn, k)), A.sym(ab.pr.elem_term(ypn, k + one))
        return x0, x1, y0, y1

    def goal(ab, st, tag, v, node):
        if tag == 'return':
            return []
        item = None
        # the query of this iteration: the real variable bound by the loop over the query points
        for n in ast.walk(li.node):
            if isinstance(n, ast.For) and isinstance(n.iter, ast.Name) and n.iter.id == xname and isinstance(n.target, ast.Name):
                item = n.target.id
        q = st.env.get(item) if item else None
        if q is None or q.lin is None or v is None or v.kind not in ('real', 'int') or ab.rf_of(v) is None:
            return [(L.F_, f'line {node.lineno}: the appended value is not an arithmetic expression of the inputs')]
        val = ab.rf_of(v)
        qrf = ab.lin_rf(q.lin)
        n_ = ab.len_of(xpn)
        zero, one = L.Lin.const(0), L.Lin.const(1)
        idx = []
        for name in sorted(val.symbols()):
            if name in ab.pr.elem and ab.pr.elem[name][0] == ypn:
                idx.append(ab.pr.elem[name][1])
        for j in idx:
            if val.equals(A.sym(ab.pr.elem_term(ypn, j))):
                xj = L.Lin.var(ab.pr.elem_term(xpn, j))
                x0 = L.Lin.var(ab.pr.elem_term(xpn, zero))
                xl = L.Lin.var(ab.pr.elem_term(xpn, n_.plus(-1)))
                g = L.f_or(L.f_and(L.f_eq(j, zero), L.f_le(q.lin, x0)),
                           L.f_and(L.f_eq(j, n_.plus(-1)), L.f_le(xl, q.lin)),
                           L.f_eq(q.lin, xj))
                return [(g, f'line {node.lineno}: yp[{j!r}] is appended only at or below the first abscissa (j = 0), at or '
                            f'above the last (j = n-1), or at the node itself')]
        for k in idx:
            x0, x1, y0, y1 = line_through(ab, k)
            if val.equals(y0 + (y1 - y0) / (x1 - x0) * (qrf - x0)):
                lx0 = L.Lin.var(ab.pr.elem_term(xpn, k))
                lx1 = L.Lin.var(ab.pr.elem_term(xpn, k + one))
                g = L.f_and(L.f_le(zero, k), L.f_le(k + one, n_.plus(-1)), L.f_le(lx0, q.lin), L.f_le(q.lin, lx1))
                return [(g, f'line {node.lineno}: the line through nodes {k!r} and {k!r}+1 is used only when they bracket the query')]
        return [(L.F_, f'line {node.lineno}: the appended value {val!r} is neither an end ordinate nor the straight line '
                       f'through two adjacent nodes')]

    def inputs():
        for n in (1, 2, 3, 4, 5, 6):
            xp = [Fraction(i) for i in range(n)]
            yp = [A.sym(f'{ypn}[{i}]') for i in range(n)]
            qs = [Fraction(-1)] + [Fraction(i, 2) for i in range(0, 2 * n - 1)] + [Fraction(n)]
            for q in qs:
                yield {xpn: xp, ypn: yp, xname: [q]}
            if n <= 4:
                for q1 in qs:
                    for q2 in qs:
                        yield {xpn: xp, ypn: yp, xname: [q1, q2]}

    def expected(xp, yp, q):
        if q <= xp[0]:
            return yp[0]
        if q >= xp[-1]:
            return yp[-1]
        for k in range(len(xp) - 1):
            if xp[k] <= q <= xp[k + 1]:
                return yp[k] + (yp[k + 1] - yp[k]) * A.RF.const((q - xp[k]) / (xp[k + 1] - xp[k]))
        raise AssertionError

    def oracle(inp, c, outcome):
        xp, qs = inp[xpn], inp[xname]
        yp = [A.sym(f'{ypn}[{i}]') for i in range(len(xp))]
        where = f'xp = {[str(x) for x in xp]}, x = {[str(q) for q in qs]}'
        if outcome[0] == 'raise':
            return f'{where}: {outcome[1]}'
        vals = [e[1] for e in c.emits if e[0] == res_name]
        if len(vals) != len(qs):
            return f'{where}: {len(vals)} value(s) for {len(qs)} query point(s)'
        for q, v in zip(qs, vals):
            want = expected(xp, yp, q)
            v = v if isinstance(v, A.RF) else A.RF.const(Fraction(v))
            if not v.equals(want):
                return f'{where}: at x = {q} the value is {v!r}, the clamped piecewise-linear value is {want!r}'
        return None

    try:
        res_ = L.analyse_search(li.node, roles, goal, inputs(), oracle)
    except L.Unsupported as exc:
        rep.undecided(rule, li.where, 'linear_interpolation', f'outside the fragment engine F reads: {exc}')
        return
    rep.extra['interpolation_proof'] = {
        'loops': res_.loop_info, 'invariants': list(res_.invariants.values()), 'prover_calls': res_.prover_calls,
        'concrete_inputs': res_.concrete_runs, 'concrete_inputs_not_readable': res_.concrete_unknown,
        'obligations': [{'text': L.pretty(o.text), 'status': o.status} for o in res_.obligations][:40]}
    value_obs = [o for o in res_.obligations if o.tag != 'index']
    if not value_obs:
        # the result is built some other way than by appending (index / slice stores, a comprehension): nothing for the
        # proof to attach a goal to - not decided here (R2 still evaluates the routine inside the model builder)
        rep.undecided(rule, li.where, 'linear_interpolation', 'the result is not built by appending: no emit site to prove')
        return
    unknown = [o for o in res_.obligations if o.status != 'proved']
    if res_.witnesses:
        rep.fail(rule, dm.path, li.node.lineno, li.qualname, 'interpolant',
                 'counterexample: ' + res_.witnesses[0] + (f'; unproved: {L.pretty(unknown[0].text)}' if unknown else ''))
        return
    for o in res_.obligations:
        if o.status == 'proved':
            rep.ok(rule, f'{dm.path}:{getattr(o.node, "lineno", li.node.lineno)}', L.pretty(o.text))
        else:
            rep.undecided(rule, f'{dm.path}:{getattr(o.node, "lineno", li.node.lineno)}', L.pretty(o.text),
                          'not proved from the inferred invariants and no counterexample in the finite family')


def _key_is_mach(call: ast.Call) -> bool:
    for k in call.keywords:
        if k.arg == 'key':
            v = k.value
            if isinstance(v, ast.Lambda) and isinstance(v.body, ast.Attribute) and v.body.attr == 'Mach' \
                    and isinstance(v.body.value, ast.Name) and v.args.args and v.body.value.id == v.args.args[0].arg:
                return not any(kk.arg == 'reverse' for kk in call.keywords)
            if isinstance(v, ast.Call) and (dotted(v.func) or '').endswith('attrgetter') and v.args \
                    and isinstance(v.args[0], ast.Constant) and v.args[0].value == 'Mach':
                return not any(kk.arg == 'reverse' for kk in call.keywords)
    return False


def _scaling(prog, ev, mb, dm, table_name, res_name):
    """(ok, message, line) for the loop  `for i, point in enumerate(table): ... CD / res[i]`."""
    if res_name is None:
        return None
    ddp = prog.cls(C.M_DM, 'DragDataPoint')
    for loop in ast.walk(mb.node):
        if not (isinstance(loop, ast.For) and isinstance(loop.iter, ast.Call) and (dotted(loop.iter.func) or '') == 'enumerate'
                and loop.iter.args and norm(loop.iter.args[0]) == table_name and isinstance(loop.target, ast.Tuple)
                and len(loop.target.elts) == 2 and all(isinstance(e, ast.Name) for e in loop.target.elts)):
            continue
        iname, pname = loop.target.elts[0].id, loop.target.elts[1].id
        st = State()
        point = ev.new_inst(st, ddp, {'Mach': S('M'), 'CD': S('cd')})
        st.env.update({iname: S('i'), pname: point, res_name: SymObj('interp')})
        for n_ in ast.walk(loop):
            if isinstance(n_, ast.Name) and isinstance(n_.ctx, ast.Load) and n_.id not in st.env:
                try:
                    ev.lookup(n_.id, State(), Ctx(dm, mb, None, 0))
                except Undecided:
                    st.env[n_.id] = S(f'${n_.id}')
        out = ev.new_list(st, [])
        for n in ast.walk(loop):
            if isinstance(n, ast.Call) and isinstance(n.func, ast.Attribute) and n.func.attr == 'append' \
                    and isinstance(n.func.value, ast.Name):
                st.env[n.func.value.id] = out
        try:
            tree = ev.exec_block(loop.body, st, Ctx(dm, mb, None, 0))
        except Undecided:
            return None
        want = A.sym('cd') / A.sym('interp[i]')
        for _p, leaf in leaves(tree):
            h = leaf.state.heap
            cands = [h[point.oid].get('CD')] + [h[x.oid].get('CD') for x in h[out.oid]['$items'] if isinstance(x, Inst)]
            if not any(isinstance(c, Scalar) and c.rf.equals(want) for c in cands):
                return (False, f'an entry is scaled to {cands!r}; expected CD / {res_name}[i] = {want!r}', loop.lineno)
        return (True, '', loop.lineno)
    # comprehension form
    for comp in ast.walk(mb.node):
        if isinstance(comp, ast.ListComp) and len(comp.generators) == 1 and isinstance(comp.generators[0].iter, ast.Call) \
                and (dotted(comp.generators[0].iter.func) or '') == 'enumerate' \
                and norm(comp.generators[0].iter.args[0]) == table_name and isinstance(comp.generators[0].target, ast.Tuple):
            t = comp.generators[0].target
            iname, pname = t.elts[0].id, t.elts[1].id
            st = State()
            point = ev.new_inst(st, ddp, {'Mach': S('M'), 'CD': S('cd')})
            st.env.update({iname: S('i'), pname: point, res_name: SymObj('interp')})
            try:
                v = ev.eval(comp.elt, st, Ctx(dm, mb, None, 0))
            except Undecided:
                return None
            want = A.sym('cd') / A.sym('interp[i]')
            cd = st.heap[v.oid].get('CD') if isinstance(v, Inst) else None
            if isinstance(cd, Scalar) and cd.rf.equals(want):
                return (True, '', comp.lineno)
            return (False, f'an entry is scaled to {cd!r}; expected {want!r}', comp.lineno)
    return None


DMF = 'py_ballisticcalc/drag_model.py'
_SEARCH = '''            # Binary search to find interval containing xi
            left, right = 0, len(xp) - 1
            while left < right:
                mid = (left + right) // 2
                if xp[mid] <= xi < xp[mid + 1]:
                    slope = (yp[mid + 1] - yp[mid]) / (xp[mid + 1] - xp[mid])
                    y.append(yp[mid] + slope * (xi - xp[mid]))  # Interpolated value for xi
                    break
                if xi < xp[mid]:
                    right = mid
                else:
                    left = mid + 1
            if left == right:
                y.append(yp[left])
'''
VARIANTS = [
    Variant('points-passed-through', 'break', [(DMF, "DragDataPoint(point.Mach, point.CD) if isinstance(point, DragDataPoint)", "point if isinstance(point, DragDataPoint)")], 'C14.R1', 'the defect repaired in /repo: caller\'s data points scaled in place', 'pass'),
    Variant('bc-points-sorted-in-place', 'break', [(DMF, 'bc_points = sorted(bc_points, key=lambda p: p.Mach)', 'bc_points.sort(key=lambda p: p.Mach)')], 'C14.R1', 'the defect repaired in /repo', 'pass'),
    Variant('divide-by-interp-times-bc', 'break', [(DMF, 'point.CD = point.CD / bc_interp[i]', 'point.CD = point.CD / (bc_interp[i] * bc)')], 'C14.R2'),
    Variant('interpolate-before-sorting', 'break', [(DMF, '    bc_points = sorted(bc_points, key=lambda p: p.Mach)  # Make sure bc_points are sorted for linear interpolation\n', '')], 'C14.R2'),
    Variant('sorted-descending', 'break', [(DMF, 'sorted(bc_points, key=lambda p: p.Mach)', 'sorted(bc_points, key=lambda p: p.Mach, reverse=True)')], 'C14.R2'),
    Variant('model-bc-one', 'break', [(DMF, 'return DragModel(bc, drag_table, weight, diameter, length)', 'return DragModel(1.0, drag_table, weight, diameter, length)')], 'C14.R2'),
    Variant('dragmodel-sorts-callers-table', 'break', [(DMF, '        self.drag_table = make_data_points(drag_table)\n', '        drag_table.sort(key=lambda p: p["Mach"] if isinstance(p, dict) else p.Mach)\n        self.drag_table = make_data_points(drag_table)\n')], 'C14.R1'),
    Variant('interp-slope-from-wrong-pair', 'break', [(DMF, 'slope = (yp[mid + 1] - yp[mid]) / (xp[mid + 1] - xp[mid])', 'slope = (yp[mid + 1] - yp[mid]) / (xp[mid + 1] - xp[mid - 1])')], 'C14.R3', 'wrong only between points'),
    Variant('interp-upper-clamp-to-first', 'break', [(DMF, '        elif xi >= xp[-1]:\n            y.append(yp[-1])', '        elif xi >= xp[-1]:\n            y.append(yp[0])')], 'C14.R3', 'wrong only above the fastest BC point'),
    Variant('twin-interp-no-lower-clamp', 'twin', [(DMF, '        if xi <= xp[0]:\n            y.append(yp[0])\n        elif xi >= xp[-1]:', '        if xi >= xp[-1]:')], None, 'the search itself ends at yp[0] for a query at or below the first abscissa (proved); an earlier pattern rule reported this edit'),
    Variant('interp-right-mid-minus-1', 'break', [(DMF, '                    right = mid\n', '                    right = mid - 1\n')], 'C14.R3', 'a collapsed interval falls through to the lower point\'s ordinate'),
    Variant('interp-left-not-advanced', 'twin', [(DMF, '                    left = mid + 1\n', '                    left = mid\n')], None, 'still brackets and terminates (proved)'),
    Variant('interp-strict-bracket', 'break', [(DMF, '                if xp[mid] <= xi < xp[mid + 1]:', '                if xp[mid] < xi < xp[mid + 1]:')], 'C14.R3', 'a query exactly at an interior node never matches'),
    Variant('interp-sweep-if', 'break', [(DMF, '    y = []\n\n    for xi in x:', '    y = []\n    seg = 0\n\n    for xi in x:'), (DMF, _SEARCH, '            if xi >= xp[seg + 1]:\n                seg += 1\n            slope = (yp[seg + 1] - yp[seg]) / (xp[seg + 1] - xp[seg])\n            y.append(yp[seg] + slope * (xi - xp[seg]))\n')], 'C14.R3', 'seeded change C14/2'),
    Variant('twin-interp-sweep-while', 'twin', [(DMF, _SEARCH, '            seg = 0\n            while xi >= xp[seg + 1]:\n                seg += 1\n            slope = (yp[seg + 1] - yp[seg]) / (xp[seg + 1] - xp[seg])\n            y.append(yp[seg] + slope * (xi - xp[seg]))\n')], None),
    Variant('twin-interp-bisect', 'twin', [(DMF, _SEARCH, '            k = bisect_right(xp, xi) - 1\n            slope = (yp[k + 1] - yp[k]) / (xp[k + 1] - xp[k])\n            y.append(yp[k] + slope * (xi - xp[k]))\n'), (DMF, 'import math\n', 'import math\nfrom bisect import bisect_right\n')], None),
    Variant('interp-bisect-left', 'break', [(DMF, _SEARCH, '            k = bisect_left(xp, xi)\n            slope = (yp[k + 1] - yp[k]) / (xp[k + 1] - xp[k])\n            y.append(yp[k] + slope * (xi - xp[k]))\n'), (DMF, 'import math\n', 'import math\nfrom bisect import bisect_left\n')], 'C14.R3'),
    Variant('twin-sorted-new-local', 'twin', [(DMF, '    bc_points = sorted(bc_points, key=lambda p: p.Mach)  # Make sure bc_points are sorted for linear interpolation\n    bc_interp = linear_interpolation([x.Mach for x in drag_table],\n                                     [x.Mach for x in bc_points],\n                                     [x.BC / bc for x in bc_points])', '    pts = sorted(bc_points, key=lambda p: p.Mach)\n    bc_interp = linear_interpolation([x.Mach for x in drag_table],\n                                     [x.Mach for x in pts],\n                                     [x.BC / bc for x in pts])')], None),
]
