"""C09 - Drag used by the solver is faithful to the drag table and BC definition."""
from __future__ import annotations

import ast
import re
import json
import math
import os
from typing import Dict, List, Optional, Tuple

from .. import algebra as A
from ..abseval import (Cond, Const, Ctx, Evaluator, Inst, Leaf, Lst, Scalar, State, S, SymObj, Undecided, cond_leaves,
                       leaves)
from ..check import Variant
from ..effects import Effects
from ..loader import AnalysisError, Program, dotted, norm, parent
from . import common as C

ID = 'C09'
TECHNIQUE = ('literal folding of the nine shipped tables compared with a reference copy; origin/effect '
             'analysis for writers of the tables; abstract evaluation of calculate_curve (pre-loop, loop body'
             ' with symbolic index, tail) to rational normal forms and node identities a x^2 + b x + c = y; '
             'drag_by_mach evaluated on the solver state _init_trajectory leaves for a symbolic shot; '
             "make_data_points evaluated on a table mixing the accepted entry kinds; the selector's search "
             'loop by inductive invariants in a linear-constraint domain (Houdini inference, Fourier-Motzkin '
             'refutation) with counterexamples from a finite ordering family')
DECIDED = [
    'R1 the nine shipped tables are literal lists, strictly ascending in Mach from exactly 0, CD > 0, equal '
    'to the reference copy; no code in the package stores into them or hands their dict entries to a model '
    '(make_data_points builds a fresh point per entry, and keeps Mach and CD of a point object, a dict and a '
    'dict with its keys the other way round by name)',
    'R2 every curve entry the selector can return passes through its nodes exactly (first entry: the line '
    'through nodes 0 and 1; entry i: the parabola through nodes i-1, i, i+1), entries land at the index of '
    'their middle node, and the selector evaluates c + b m + a m^2 of one and the same entry',
    'R3 drag_by_mach = Cd * K / BC with K within 1e-4 of standard density * pi / (8 * 144); evaluated on the '
    'state _init_trajectory leaves (whatever the attributes are called): the selector receives the Mach nodes'
    " and the curve of the shot's own drag table and the Mach number given, and the divisor is the BC of the "
    "shot's drag model; the Mach node list is the table's Mach column in order",
    'R4 the selector, for every table length and every query: at each return the value is c + q (b + a q) of '
    'one entry m with 0 <= m <= n-2 and (m = 0 or ml[m-1] <= q) and (m = n-2 or q <= ml[m+1]), i.e. the nodes'
    ' of the entry (R2) include both neighbours of the query, and every index is in range - proved from '
    'branch conditions and inductive loop invariants inferred Houdini-style, refutation by Fourier-Motzkin '
    'with case splits (engine F); an unproved obligation becomes a violation only with a concrete '
    'counterexample from the finite input family (which also exposes a loop that never terminates)',
]
NOT_DECIDED = [
    'termination of the bisection for tables longer than the finite family; positivity and the 5 % band '
    'between nodes (numerics)',
]

REF = os.path.join(os.path.dirname(os.path.dirname(os.path.abspath(__file__))), 'spec', 'drag_tables_ref.json')


def _table_by_evaluation(prog: Program, mod, val: ast.AST):
    from ..abseval import Ctx, DictVal, Evaluator, Lst, Scalar, State, Tup
    ev = Evaluator(prog)
    ev.budget = 200000
    st = State()
    v = ev.eval(val, st, Ctx(mod, None, None, 0))
    if isinstance(v, Lst):
        items = ev.hp(st, v.oid)['$items']
    elif isinstance(v, Tup):
        items = v.items
    else:
        raise Undecided(f'evaluates to {type(v).__name__}, not a sequence')
    pts = []
    for d in items:
        if not isinstance(d, DictVal) or set(d.items) != {('c', 'Mach'), ('c', 'CD')}:
            raise Undecided('an entry is not a {Mach, CD} dictionary')
        m, c = d.items[('c', 'Mach')], d.items[('c', 'CD')]
        if not (isinstance(m, Scalar) and isinstance(c, Scalar) and m.rf.is_const() and c.rf.is_const()):
            raise Undecided('an entry is not a pair of numbers')
        pts.append((float(m.rf.const_value()), float(c.rf.const_value())))
    return pts


def read_tables(prog: Program):
    mod = prog.module(C.M_DT)
    out = {}
    for name, entries in mod.assigns.items():
        if not name.startswith('Table'):
            continue
        if len(entries) != 1:
            out[name] = (None, entries[0][2].lineno, 'assigned more than once')
            continue
        _ann, val, st = entries[0]
        try:
            data = ast.literal_eval(val)
            pts = [(float(d['Mach']), float(d['CD'])) for d in data]
            if any(set(d) != {'Mach', 'CD'} for d in data):
                raise ValueError('unexpected keys')
            out[name] = (pts, st.lineno, '')
        except (ValueError, SyntaxError, TypeError, KeyError) as exc:
            # not a literal: built by a helper of the module - evaluated (engine D), and read from the value
            try:
                out[name] = (_table_by_evaluation(prog, mod, val), st.lineno, '')
            except Undecided as exc2:
                raise AnalysisError(f'{name} is not a literal list ({exc}) and its value cannot be evaluated: {exc2}')
    return mod, out


def check_tables(prog: Program, rep, rule: str) -> None:
    mod, tables = read_tables(prog)
    with open(REF, encoding='utf-8') as fh:
        ref = json.load(fh)['tables']
    npoints = 0
    for name in sorted(set(ref) | set(tables)):
        if name not in tables:
            rep.fail(rule, mod.path, 1, '<module>', f'{name}:missing', f'shipped table {name} vanished')
            continue
        pts, line, err = tables[name]
        if pts is None:
            rep.fail(rule, mod.path, line, '<module>', f'{name}:literal', f'{name}: {err}')
            continue
        npoints += len(pts)
        problems = []
        if len(pts) < 3:
            problems.append(f'only {len(pts)} points')
        if pts and pts[0][0] != 0.0:
            problems.append(f'first Mach is {pts[0][0]}, not 0')
        for i in range(1, len(pts)):
            if not pts[i][0] > pts[i - 1][0]:
                problems.append(f'Mach not strictly ascending at entry {i}: {pts[i - 1][0]} then {pts[i][0]}')
                break
        neg = [p for p in pts if not p[1] > 0]
        if neg:
            problems.append(f'non-positive CD at Mach {neg[0][0]}')
        if name in ref:
            r = [tuple(x) for x in ref[name]]
            if len(r) != len(pts):
                problems.append(f'{len(pts)} entries, the reference has {len(r)}')
            else:
                diff = [(i, pts[i], r[i]) for i in range(len(r)) if pts[i] != r[i]]
                if diff:
                    i, got, want = diff[0]
                    problems.append(f'entry {i} is (Mach {got[0]}, CD {got[1]}), the published table has '
                                    f'(Mach {want[0]}, CD {want[1]})' + (f' and {len(diff) - 1} more' if len(diff) > 1 else ''))
        else:
            rep.note(f'{name} is not in the reference copy: shape checks only')
        if problems:
            rep.fail(rule, mod.path, line, '<module>', f'{name}', f'{name}: ' + '; '.join(problems))
        else:
            rep.ok(rule, f'{mod.path}:{line}', f'{name}: {len(pts)} points ascending from Mach 0, CD > 0, equal to the reference')
    rep.extra['table_points'] = npoints
    # writers
    eng = Effects(prog)
    hits = []
    for fq, s in eng.summaries.items():
        for (o, fld), e in s.effects.items():
            if o[0] == 'global' and o[1].endswith('drag_tables') and o[2].startswith('Table') and e.func == eng.funcs[fq].qualname:
                hits.append((eng.funcs[fq], e, o, fld))
    for m in prog.modules.values():
        for st in m.tree.body:
            for n in ast.walk(st) if not isinstance(st, (ast.FunctionDef, ast.ClassDef)) else []:
                tgt = None
                if isinstance(n, (ast.Subscript, ast.Attribute)) and isinstance(n.ctx, (ast.Store, ast.Del)):
                    tgt = n
                elif isinstance(n, ast.Call) and isinstance(n.func, ast.Attribute) and n.func.attr in (
                        'append', 'sort', 'insert', 'pop', 'remove', 'clear', 'reverse', 'extend', 'update'):
                    tgt = n.func
                if tgt is not None:
                    root = tgt
                    while isinstance(root, (ast.Subscript, ast.Attribute)):
                        root = root.value
                    if isinstance(root, ast.Name) and root.id.startswith('Table') and (
                            m is prog.module(C.M_DT) or prog.resolve(m, root.id) is not None):
                        rep.fail(rule, m.path, n.lineno, '<module>', f'module-write:{root.id}',
                                 f'module-level statement modifies {root.id}: `{norm(st)[:70]}`')
    for f, e, o, fld in hits:
        rep.fail(rule, e.module.path, e.line, f.qualname, f'write:{o[2]}:{fld}',
                 f'{f.qualname} modifies the shipped table {o[2]} ({fld}): `{e.text}`')
    if not hits:
        rep.ok(rule, mod.path, 'no function in the package stores into a shipped table')
    mk = prog.func(C.M_DM, 'make_data_points')
    rep.saw(mk)
    shapes = eng.summaries[mk.fq].ret
    direct = [sh for sh in shapes if sh[0] == 'param' or (sh[0] == 'freshobj' and any(c[0] == 'param' for c in sh[1]))]
    if direct or not shapes:
        rep.fail(rule, mk.module.path, mk.node.lineno, mk.qualname, 'aliases-input',
                 'make_data_points may return the caller\'s list or its entries themselves: a model then shares the '
                 'shipped table\'s objects')
    else:
        rep.ok(rule, mk.where, 'make_data_points returns a fresh list of fresh points')
    # field mapping, by evaluation on a table that mixes the accepted entry kinds: a point object, a dict, and a dict
    # written with its keys the other way round - each must come back as a point with its own Mach and its own CD
    from ..abseval import DictVal
    evm = Evaluator(prog)
    evm.unroll = True
    stm = State()
    ddp = prog.cls(C.M_DM, 'DragDataPoint')
    entries = [evm.new_inst(stm, ddp, {'Mach': S('m1'), 'CD': S('c1')}),
               DictVal({('c', 'Mach'): S('m2'), ('c', 'CD'): S('c2')}),
               DictVal({('c', 'CD'): S('c3'), ('c', 'Mach'): S('m3')})]
    try:
        tree_m, stm = evm.run_func(mk, {mk.positional[0]: evm.new_list(stm, entries)}, stm)
    except Undecided as exc:
        raise AnalysisError(f'make_data_points: {exc}') from exc
    bad_map, n_map = None, 0
    for _p, lf in leaves(tree_m):
        if _p:
            raise AnalysisError('make_data_points: the outcome on a concrete table of three entries is not decided')
        its = evm.items(lf.state, lf.value) if lf.kind == 'return' and lf.value is not None else None
        if its is None or len(its) != 3 or not all(isinstance(i_, Inst) and i_.cls is ddp for i_ in its):
            bad_map = f'a table of a point and two dicts comes back as {lf.value!r} ({lf.kind})'
            continue
        for k_, i_ in enumerate(its, 1):
            h_ = lf.state.heap[i_.oid]
            if not (isinstance(h_.get('Mach'), Scalar) and h_['Mach'].rf.equals(A.sym(f'm{k_}'))
                    and isinstance(h_.get('CD'), Scalar) and h_['CD'].rf.equals(A.sym(f'c{k_}'))):
                kind_ = ['a DragDataPoint', "a dict {'Mach': m, 'CD': c}", "a dict {'CD': c, 'Mach': m}"][k_ - 1]
                bad_map = (f'{kind_} comes back with Mach = {h_.get("Mach")!r}, CD = {h_.get("CD")!r} (given Mach m{k_}, CD c{k_}): '
                           f'the fields are taken by position, not by name')
            else:
                n_map += 1
    if bad_map:
        rep.fail(rule, mk.module.path, mk.node.lineno, mk.qualname, 'field-mapping', 'make_data_points: ' + bad_map)
    else:
        rep.ok(rule, mk.where, f'make_data_points keeps Mach and CD of every entry kind by name ({n_map} entries)')


def _poly_at(entry: Dict[str, object], x: A.RF) -> Optional[A.RF]:
    try:
        a, b, c = (entry[k].rf for k in ('a', 'b', 'c'))
    except (KeyError, AttributeError):
        return None
    return a * x * x + b * x + c


def _curve_by_family(prog: Program, rep, rule: str, cc, sel) -> None:
    """calculate_curve in a shape other than head entry + one loop + tail: evaluated as a whole (engine D, loops over the
    known table unrolled) on tables of 3, 4, 5 and 6 nodes with symbolic Mach numbers and drag values.  Entry 0 must be
    the line through nodes 0 and 1, entry i (1 <= i <= n-2) the parabola through nodes i-1, i, i+1, one entry per node
    index the selector can return (0 .. n-2, R4).  Decided on the family only - said so in the evidence."""
    tc = prog.module(C.M_TC)
    ddp = prog.cls(C.M_DM, 'DragDataPoint')
    problems = []
    n_entries = 0
    for n in (3, 4, 5, 6):
        ev = Evaluator(prog)
        ev.unroll = True
        st = State()
        table = ev.new_list(st, [ev.new_inst(st, ddp, {'Mach': S(f'm{k}'), 'CD': S(f'y{k}')}) for k in range(n)])
        try:
            r, st = ev.call_value(cc, [table], st=st)
        except Undecided as exc:
            raise AnalysisError(f'calculate_curve: neither head + one loop + tail nor readable as a whole ({exc})') from exc
        alts = [x for _cp, x in cond_leaves(r)]
        its = ev.items(st, alts[0]) if len(alts) == 1 else None
        if its is None or not all(isinstance(i_, Inst) for i_ in its):
            raise AnalysisError(f'calculate_curve on {n} nodes evaluates to {r!r}'[:200])
        if len(its) < n - 1:
            problems.append(f'a table of {n} nodes gives {len(its)} entries: the selector can return index {n - 2}')
            continue
        for i in range(0, n - 1):
            ent = st.heap[its[i].oid]
            nodes = (0, 1) if i == 0 else (i - 1, i, i + 1)
            for k in nodes:
                v = _poly_at(ent, A.sym(f'm{k}'))
                if v is None or not v.equals(A.sym(f'y{k}')):
                    problems.append(f'table of {n} nodes: entry {i} does not pass through node {k} (value there {v!r}'[:200] + ')')
                    break
            else:
                n_entries += 1
    if problems:
        rep.fail(rule, tc.path, cc.node.lineno, cc.qualname, 'curve-entries', '; '.join(problems[:2]))
    else:
        rep.ok(rule, cc.where, f'entry 0 is the line through nodes 0 and 1, entry i the parabola through nodes i-1, i, i+1: {n_entries} '
               f'entries of tables with 3 .. 6 symbolic nodes (construction read as a whole)')
        rep.undecided(rule, cc.where, 'curve entries for every table length', 'calculate_curve is not head entry + one loop + tail; '
                      'decided on the finite family only')
    rep.rules[rule].min_instances = min(rep.rules[rule].min_instances, 2)


def check_curve(prog: Program, rep, rule: str) -> None:
    tc = prog.module(C.M_TC)
    cc = prog.func(C.M_TC, 'calculate_curve')
    sel = prog.func(C.M_TC, '_calculate_by_curve_and_mach_list')
    rep.saw(cc)
    rep.saw(sel)
    loops = [s for s in cc.node.body if isinstance(s, ast.For)]
    loop = loops[0] if len(loops) == 1 else None
    k = cc.node.body.index(loop) if loop is not None else 0
    pre, post = cc.node.body[:k], cc.node.body[k + 1:]
    dp_name = cc.positional[0]
    ev = Evaluator(prog)
    ctx = Ctx(tc, cc, None, 0)

    def M(idx) -> A.RF:
        return A.sym(f'dp[{A.rf(idx)!r}].Mach')

    def Y(idx) -> A.RF:
        return A.sym(f'dp[{A.rf(idx)!r}].CD')

    # selector: index range and evaluation form
    st = State({sel.positional[0]: SymObj('ml'), sel.positional[1]: SymObj('curve'), sel.positional[2]: S('m')})
    sel_pre = []
    for s in sel.node.body:
        if isinstance(s, (ast.While, ast.For)):
            break
        sel_pre.append(s)
    try:
        t0 = ev.exec_block(sel_pre, st, Ctx(tc, sel, None, 0))
    except Undecided:
        t0 = None
    lo = hi = None
    whiles = [s for s in sel.node.body if isinstance(s, ast.While)]
    if isinstance(t0, Leaf) and whiles:
        # the two names compared in the loop condition are the bounds
        names = [n.id for n in ast.walk(whiles[0].test) if isinstance(n, ast.Name)]
        vals = {n: t0.state.env.get(n) for n in names}
        ncurve = A.sym('len(curve)')
        for n, v in vals.items():
            if isinstance(v, Scalar):
                if v.rf.is_const():
                    lo = v.rf
                elif v.rf.depends_on('len(curve)'):
                    hi = v.rf
    if lo is None or hi is None:
        # another search shape: the index range 0 .. len(curve)-2 and the value form are R4's obligations (engine F)
        rep.undecided(rule, sel.where, 'selector index range', 'the initial bounds of the search are not two plain '
                      'assignments before one loop; the range 0 .. n-2 is left to R4')
        lo, hi = A.rf(0), A.sym('len(curve)') - 2
    tail_reachable = not hi.equals(A.sym('len(curve)') - 2)
    # value returned: c + b*m + a*m^2 of one entry
    try:
        r, _ = ev.call_value(sel, [SymObj('ml'), SymObj('curve'), S('m')])
    except Undecided as exc:
        rep.undecided(rule, sel.where, 'selector form', f'not readable by engine D ({exc}); left to R4')
        r = None
    bad_form = None
    nleaf = 0
    for _p, leaf in (cond_leaves(r) if r is not None else []):
        nleaf += 1
        if not isinstance(leaf, Scalar):
            bad_form = f'returns {leaf!r}'
            break
        co = leaf.rf.coeffs_in('m')
        if co is None or set(co) - {0, 1, 2}:
            bad_form = f'returns {leaf.rf!r}, not a quadratic in the query Mach'
            break
        names = {d: repr(co[d]) if d in co else '0' for d in (0, 1, 2)}
        # a record read by position (unpacking, entry[k]) is the field of that position
        cp_fields = prog.namedtuple_fields(prog.cls(C.M_TC, 'CurvePoint'))
        for d in names:
            m_ = re.fullmatch(r'(.*)\[(\d)\]', names[d])
            if m_ and int(m_.group(2)) < len(cp_fields):
                names[d] = f'{m_.group(1)}.{cp_fields[int(m_.group(2))]}'
        ent = {names[0].rsplit('.', 1)[0], names[1].rsplit('.', 1)[0], names[2].rsplit('.', 1)[0]}
        if not (names[0].endswith('.c') and names[1].endswith('.b') and names[2].endswith('.a') and len(ent) == 1):
            bad_form = f'evaluates {leaf.rf!r}: coefficients are not (c, b, a) of one and the same entry'
            break
    if bad_form:
        rep.fail(rule, tc.path, sel.node.lineno, sel.qualname, 'selector-form', f'the selector {bad_form}')
    elif r is not None:
        rep.ok(rule, sel.where, f'selector returns c + b*m + a*m^2 of one entry ({nleaf} cases); index range '
               f'[{lo!r}, {hi!r}]')

    if loop is None:
        # another shape of the construction: read as a whole on tables of 3 .. 6 symbolic nodes (finite family)
        _curve_by_family(prog, rep, rule, cc, sel)
        return
    # head entry
    st = State({dp_name: SymObj('dp')})
    try:
        t1 = ev.exec_block(pre, st, ctx)
    except Undecided as exc:
        raise AnalysisError(f'calculate_curve (before the loop): {exc}') from exc
    if not isinstance(t1, Leaf):
        raise AnalysisError('calculate_curve: branching before the loop')
    curve_name = None
    for n, v in t1.state.env.items():
        if isinstance(v, Lst):
            curve_name = n
    if curve_name is None:
        raise AnalysisError('calculate_curve: the curve list is not built before the loop')
    items = t1.state.heap[t1.state.env[curve_name].oid]['$items']
    if len(items) != 1 or not isinstance(items[0], Inst):
        raise AnalysisError(f'calculate_curve: {len(items)} entries before the loop, expected the head entry')
    head = t1.state.heap[items[0].oid]
    bad = [kx for kx in (0, 1) if not (_poly_at(head, M(kx)) is not None and _poly_at(head, M(kx)).equals(Y(kx)))]
    if bad:
        rep.fail(rule, tc.path, pre[0].lineno, cc.qualname, 'head-entry',
                 f'the first curve entry does not pass through table node(s) {bad}: value at node {bad[0]} is '
                 f'{_poly_at(head, M(bad[0]))!r}, tabulated {Y(bad[0])!r}')
    else:
        rep.ok(rule, f'{tc.path}:{pre[0].lineno}', 'entry 0 is the straight line through nodes 0 and 1')
    # loop entries
    it = loop.iter
    if not (isinstance(it, ast.Call) and (dotted(it.func) or '') == 'range' and len(it.args) == 2
            and isinstance(loop.target, ast.Name)):
        raise AnalysisError('calculate_curve: loop is not `for i in range(a, b)`')
    st2 = State({dp_name: SymObj('dp'), loop.target.id: S('i')})
    out = ev.new_list(st2, [])
    st2.env[curve_name] = out
    start = ev.eval(it.args[0], State(dict(t1.state.env), t1.state.heap), ctx)
    stop = ev.eval(it.args[1], State(dict(t1.state.env), t1.state.heap), ctx)
    try:
        t2 = ev.exec_block(loop.body, st2, ctx)
    except Undecided as exc:
        raise AnalysisError(f'calculate_curve (loop body): {exc}') from exc
    i = A.sym('i')
    if not isinstance(t2, Leaf) or t2.kind != 'fall':
        # the body branches: every alternative must append one entry, and each such entry is an obligation of its own -
        # under whatever condition it is built, it must pass through nodes i-1, i, i+1
        alts = [lf for _p, lf in leaves(t2) if lf.kind == 'fall']
        others = [lf for _p, lf in leaves(t2) if lf.kind not in ('fall', 'raise')]
        if not alts or others:
            raise AnalysisError('calculate_curve: the loop body branches and leaves the iteration early; entry index can no '
                                'longer be derived')
        for lf in alts:
            app_ = lf.state.heap[out.oid]['$items']
            if len(app_) != 1 or not isinstance(app_[0], Inst):
                raise AnalysisError(f'calculate_curve: {len(app_)} entries appended on one path of an iteration')
            ent_ = lf.state.heap[app_[0].oid]
            bad_ = [off for off in (-1, 0, 1)
                    if not (_poly_at(ent_, M(i + off)) is not None and _poly_at(ent_, M(i + off)).equals(Y(i + off)))]
            if bad_:
                v_ = _poly_at(ent_, M(i + bad_[0]))
                rep.fail(rule, tc.path, loop.lineno, cc.qualname, 'loop-entry-alternative',
                         f'one alternative of the loop body builds, for middle node i, an entry that does not pass through node '
                         f'i{bad_[0]:+d} (value there: {v_!r}'[:300] + '): the drag used at a tabulated Mach number is then not the '
                         'tabulated value, and between nodes not the parabola through both neighbours')
        t2 = alts[0]
    appended = t2.state.heap[out.oid]['$items']
    if len(appended) != 1 or not isinstance(appended[0], Inst):
        raise AnalysisError(f'calculate_curve: {len(appended)} entries appended per iteration')
    ent = t2.state.heap[appended[0].oid]
    start_ok = isinstance(start, Scalar) and start.rf.equals(A.rf(1))
    bad = [off for off in (-1, 0, 1)
           if not (_poly_at(ent, M(i + off)) is not None and _poly_at(ent, M(i + off)).equals(Y(i + off)))]
    if bad or not start_ok:
        msg = []
        if bad:
            msg.append(f'the entry built in iteration i does not pass through node(s) i{bad[0]:+d}' if bad[0] else
                       'the entry built in iteration i does not pass through node i')
            v = _poly_at(ent, M(i + bad[0]))
            msg.append(f'value there: {v!r}'[:160])
        if not start_ok:
            msg.append(f'the loop starts at {start!r}: the entry for middle node i no longer lands at index i')
        rep.fail(rule, tc.path, loop.lineno, cc.qualname, 'loop-entry', '; '.join(msg))
    else:
        rep.ok(rule, f'{tc.path}:{loop.lineno}', 'entry i (i = 1 .. n-2) is the parabola through nodes i-1, i, i+1 and lands at index i')
    # stop bound: entries exist for every index the selector can return
    n_dp = A.sym('len(dp)')
    if isinstance(stop, Scalar):
        stop_rf = stop.rf.map_atoms(lambda at: A.sym('len(dp)') if at.kind == 'fn' and at.name == 'int' else None)
        n_entries_before_tail = stop_rf            # indices 0 .. stop-1
        # selector upper bound hi (in len(curve)); len(curve) = stop + len(post appends)
        n_post = sum(1 for s in post for c in ast.walk(s) if isinstance(c, ast.Call) and isinstance(c.func, ast.Attribute)
                     and c.func.attr == 'append' and norm(c.func.value) == curve_name)
        len_curve = stop_rf + n_post
        hi_dp = hi.subs({'len(curve)': len_curve})
        if tail_reachable or not (hi_dp - (stop_rf - 1)).is_zero():
            # the selector can return an index beyond the loop entries: the tail entry becomes an obligation
            st3 = State({dp_name: SymObj('dp')})
            st3.env.update({k2: v for k2, v in t1.state.env.items() if not isinstance(v, Lst)})
            out3 = ev.new_list(st3, [])
            st3.env[curve_name] = out3
            st3.heap.update(t1.state.heap)
            try:
                t3 = ev.exec_block([s for s in post if not isinstance(s, ast.Return)], st3, ctx)
                tail_items = t3.state.heap[out3.oid]['$items'] if isinstance(t3, Leaf) else []
            except Undecided as exc:
                raise AnalysisError(f'calculate_curve (tail entry): {exc}') from exc
            ok_tail = False
            if tail_items and isinstance(tail_items[-1], Inst):
                te = t3.state.heap[tail_items[-1].oid]
                n = A.sym('len(dp)')
                fix = lambda rf: rf.map_atoms(lambda at: A.sym('len(dp)') if at.kind == 'fn' and at.name == 'int' else None)
                te = {k3: Scalar(fix(v.rf)) for k3, v in te.items() if isinstance(v, Scalar)}
                ok_tail = all(_poly_at(te, M(n - d)) is not None and _poly_at(te, M(n - d)).equals(Y(n - d)) for d in (1, 2))
            if ok_tail:
                rep.ok(rule, f'{tc.path}:{post[0].lineno}', 'tail entry reachable and passes through the last two nodes')
            else:
                rep.fail(rule, tc.path, sel.node.lineno, sel.qualname, 'tail-reachable',
                         f'the selector can return index {hi!r}, beyond the entries built by the loop; the tail entry '
                         f'does not pass through the last two nodes of the table')
        else:
            rep.ok(rule, sel.where, f'selector indices 0 .. {hi!r} are the head and loop entries; the tail entry is '
                   f'unreachable (it does not interpolate its nodes: reported, not an obligation)')
    else:
        raise AnalysisError('calculate_curve: loop bound not readable')


def check_search(prog: Program, rep, rule: str) -> None:
    """The selector decided for every table length and every query (engine F): under the facts that hold at each
    return (branch conditions plus inductive loop invariants) the value is c + q (b + a q) of ONE entry m with
    0 <= m <= n-2 whose nodes m-1, m, m+1 (R2; nodes 0, 1 for the first entry) include both neighbours of the query:
    (m = 0 or ml[m-1] <= q) and (m = n-2 or q <= ml[m+1]).  Mach nodes strictly ascending, one entry per node."""
    from .. import loopproof as L
    from fractions import Fraction
    tc = prog.module(C.M_TC)
    sel = prog.func(C.M_TC, '_calculate_by_curve_and_mach_list')
    rep.saw(sel)
    ml_p, curve_p, q_p = sel.positional[:3]
    cp = prog.cls(C.M_TC, 'CurvePoint')
    fields = prog.namedtuple_fields(cp) if cp is not None else None
    if not fields or set(fields) != {'a', 'b', 'c'}:
        raise AnalysisError(f'CurvePoint fields are {fields}, expected a, b, c')
    roles = L.Roles(arrays={ml_p: 'strict', curve_p: None}, reals=[q_p], record_arrays={curve_p: ('a', 'b', 'c')},
                    same_length=[(ml_p, curve_p)], min_len={ml_p: 2})
    rep.assume('selector: Mach nodes strictly ascending, len(curve) == len(mach_list) >= 2 (calculate_curve makes one entry per node)')

    def goal(ab, st, tag, v, node):
        if tag != 'return':
            return []
        q = st.env.get(q_p)
        if v is None or v.kind not in ('real', 'int') or ab.rf_of(v) is None or q is None or q.lin is None:
            return [(L.F_, f'line {node.lineno}: the returned value is not an arithmetic expression of the entry and the query')]
        val, qrf = ab.rf_of(v), ab.lin_rf(q.lin)
        idx = {}
        for name in sorted(val.symbols()):
            if name in ab.pr.elem and ab.pr.elem[name][0].startswith(curve_p + '.'):
                idx[ab.pr.elem[name][1].key()] = ab.pr.elem[name][1]
        n_ = ab.len_of(ml_p)
        zero, one = L.Lin.const(0), L.Lin.const(1)
        for m in idx.values():
            a_, b_, c_ = (A.sym(ab.pr.elem_term(f'{curve_p}.{f}', m)) for f in ('a', 'b', 'c'))
            if not val.equals(c_ + qrf * (b_ + a_ * qrf)):
                continue
            below = L.Lin.var(ab.pr.elem_term(ml_p, m - one))
            above = L.Lin.var(ab.pr.elem_term(ml_p, m + one))
            g = L.f_and(L.f_le(zero, m), L.f_le(m, n_.plus(-2)),
                        L.f_or(L.f_eq(m, zero), L.f_le(below, q.lin)),
                        L.f_or(L.f_eq(m, n_.plus(-2)), L.f_le(q.lin, above)))
            return [(g, f'line {node.lineno}: the entry evaluated is one whose nodes include both neighbours of the query')]
        return [(L.F_, f'line {node.lineno}: the returned value {val!r} is not c + q (b + a q) of one curve entry')]

    def inputs():
        # node spacings: uniform, widening and narrowing (a choice by distance shows only on unequal gaps)
        for n in range(2, 10):
            for gaps in ([1] * (n - 1), [2 ** i for i in range(n - 1)], [2 ** (n - 2 - i) for i in range(n - 1)]):
                ml = [Fraction(0)]
                for g in gaps:
                    ml.append(ml[-1] + g)
                qs = [ml[0] - 1, ml[-1] + 1] + list(ml)
                for lo, hi in zip(ml, ml[1:]):
                    qs += [lo + (hi - lo) * Fraction(k, 8) for k in (1, 3, 4, 5, 7)]
                for q in qs:
                    yield {ml_p: ml, curve_p: [None] * n, q_p: q}

    def oracle(inp, c, outcome):
        ml, q = inp[ml_p], inp[q_p]
        n = len(ml)
        where = f'Mach nodes {[str(x) for x in ml]}, query {q}'
        if outcome[0] in ('raise', 'hang'):
            return f'{where}: {outcome[1]}'
        if outcome[0] != 'return' or not isinstance(outcome[1], A.RF):
            return f'{where}: no value returned'
        val = outcome[1]
        qc = A.RF.const(q)
        for m in range(n):
            a_, b_, c_ = (A.sym(f'{curve_p}.{f}[{m}]') for f in ('a', 'b', 'c'))
            if val.equals(c_ + qc * (b_ + a_ * qc)):
                ok = 0 <= m <= n - 2 and (m == 0 or ml[m - 1] <= q) and (m == n - 2 or q <= ml[m + 1])
                if ok:
                    return None
                nodes = '0, 1' if m == 0 else f'{m - 1}, {m}, {m + 1}' if m <= n - 2 else f'{m - 1}, {m} (the tail line)'
                return f'{where}: entry {m} is evaluated, whose nodes {nodes} do not include both neighbours of the query'
        return f'{where}: the value {val!r} is not c + q (b + a q) of one entry'

    try:
        res = L.analyse_search(sel.node, roles, goal, inputs(), oracle)
    except L.Unsupported as exc:
        rep.undecided(rule, sel.where, 'selector', f'outside the fragment engine F reads: {exc}')
        return
    rep.extra['selector_proof'] = {
        'loops': res.loop_info, 'invariants': list(res.invariants.values()), 'prover_calls': res.prover_calls,
        'concrete_inputs': res.concrete_runs, 'concrete_inputs_not_readable': res.concrete_unknown,
        'obligations': [{'text': L.pretty(o.text), 'status': o.status} for o in res.obligations][:40]}
    if not [o for o in res.obligations if o.tag == 'return']:
        rep.fail(rule, tc.path, sel.node.lineno, sel.qualname, 'bisection', 'the selector returns nothing')
        return
    unknown = [o for o in res.obligations if o.status != 'proved']
    if res.witnesses:
        rep.fail(rule, tc.path, sel.node.lineno, sel.qualname, 'bisection',
                 'counterexample: ' + res.witnesses[0] + (f'; unproved: {L.pretty(unknown[0].text)}' if unknown else ''))
        return
    for o in res.obligations:
        where = f'{tc.path}:{getattr(o.node, "lineno", sel.node.lineno)}'
        if o.status == 'proved':
            rep.ok(rule, where, L.pretty(o.text))
        else:
            rep.undecided(rule, where, L.pretty(o.text), 'not proved from the inferred invariants and no counterexample in the finite family')


def check_mach_list(prog: Program, rep, rule: str) -> None:
    """_get_only_mach_data: the Mach nodes, in table order, one per table entry."""
    tc = prog.module(C.M_TC)
    f = prog.func(C.M_TC, '_get_only_mach_data')
    rep.saw(f)
    p = f.positional[0]
    # by evaluation on tables of 1-4 entries with symbolic Mach and drag values: the result, whatever sequence type it is and
    # however it is built, holds the Mach of entry 0, 1, ... in that order
    ddp = prog.cls(C.M_DM, 'DragDataPoint')
    verdict = None
    try:
        for n_ in (1, 2, 3, 4):
            ev = Evaluator(prog)
            ev.unroll = True
            st = State()
            pts = [ev.new_inst(st, ddp, {'Mach': S(f'm{i}'), 'CD': S(f'c{i}')}) for i in range(n_)]
            out, st = ev.call_value(f, [ev.new_list(st, pts)], st=st)
            its = ev.items(st, out)
            if its is None:
                raise Undecided(f'returns {out!r}')
            good = len(its) == n_ and all(isinstance(x_, Scalar) and x_.rf.equals(A.sym(f'm{i}')) for i, x_ in enumerate(its))
            if not good:
                verdict = f'for a table of {n_} entries it returns [{", ".join(ev.describe(x_) for x_ in its)}]'
                break
        if verdict is None:
            rep.ok(rule, f.where, 'Mach nodes = the Mach of every table entry, in table order (evaluated on tables of 1-4 entries)')
        else:
            rep.fail(rule, tc.path, f.node.lineno, f.qualname, 'mach-list',
                     f'the list of Mach nodes is not the Mach of every table entry in table order ({verdict}): the selector '
                     f'searches different nodes than the curve was built from')
        return
    except Undecided:
        pass                # not readable by evaluation: the two spellings the pinned code and its obvious twin use
    ok = False
    rets = [r for r in ast.walk(f.node) if isinstance(r, ast.Return)]
    loops = [s_ for s_ in f.node.body if isinstance(s_, ast.For)]
    if len(rets) == 1 and isinstance(rets[0].value, ast.ListComp):
        c = rets[0].value
        g = c.generators[0]
        ok = len(c.generators) == 1 and not g.ifs and norm(g.iter) == p and isinstance(g.target, ast.Name) \
            and norm(c.elt) == f'{g.target.id}.Mach'
    elif len(loops) == 1 and len(rets) == 1 and isinstance(rets[0].value, ast.Name):
        lp = loops[0]
        res = rets[0].value.id
        body_ok = len(lp.body) == 1 and isinstance(lp.body[0], ast.Expr) and isinstance(lp.target, ast.Name) \
            and norm(lp.body[0].value) == f'{res}.append({lp.target.id}.Mach)'
        init_ok = any(isinstance(s_, ast.Assign) and norm(s_) == f'{res} = []' for s_ in f.node.body)
        ok = norm(lp.iter) == p and body_ok and init_ok and not lp.orelse
    if ok:
        rep.ok(rule, f.where, 'Mach nodes = [entry.Mach for entry in table], in table order')
    else:
        raise AnalysisError('_get_only_mach_data is readable neither by evaluation nor as a comprehension / append loop')


def check_bc(prog: Program, rep, rule: str) -> None:
    tc = prog.module(C.M_TC)
    tcc = prog.cls(C.M_TC, 'TrajectoryCalc')
    dbm = prog.func(C.M_TC, 'TrajectoryCalc.drag_by_mach')
    it = prog.func(C.M_TC, 'TrajectoryCalc._init_trajectory')
    rep.saw(dbm)
    # the solver as _init_trajectory leaves it for a symbolic shot (whatever the attributes are called): drag_by_mach(m)
    # must be K * selector(Mach nodes of the shot's table, curve of the shot's table, m) / BC of the shot's drag model
    ev = Evaluator(prog, opaque={'_calculate_by_curve_and_mach_list', 'calculate_curve', '_get_only_mach_data',
                                 'get_velocity_for_temp', 'calc_stability_coefficient', 'get_calc_step'})
    st = State()
    selfv = ev.new_inst(st, tcc, {'_config': SymObj('cfg')})
    try:
        tree, st = ev.run_func(it, {it.positional[0]: selfv, it.positional[1]: SymObj('shot')}, st)
    except Undecided as exc:
        raise AnalysisError(f'_init_trajectory: {exc}') from exc
    const_mod = prog.module(C.M_CONST)
    rho0 = C.const_number(prog, const_mod, 'cStandardDensity')
    if rho0 is None:
        raise AnalysisError('cStandardDensity is not a literal')
    want_k = rho0 * math.pi / (8 * 144)
    sel = prog.func(C.M_TC, '_calculate_by_curve_and_mach_list')
    n_paths = 0
    for _p, leaf in leaves(tree):
        if leaf.kind == 'raise':
            continue
        n_paths += 1
        try:
            r, _st2 = ev.call_value(dbm, [S('m')], self_val=selfv, st=leaf.state)
        except Undecided as exc:
            raise AnalysisError(f'drag_by_mach: {exc}') from exc
        for _cp, rv in cond_leaves(r):
            if not isinstance(rv, Scalar):
                raise AnalysisError(f'drag_by_mach returns {rv!r} in the abstract evaluation')
            cd_atoms = [a for a in rv.rf.all_atoms() if A.ATOMS[a].kind == 'sym' and A.ATOMS[a].name.startswith(sel.name + '(')]
            if len(cd_atoms) != 1:
                rep.fail(rule, tc.path, dbm.node.lineno, dbm.qualname, 'K',
                         f'drag_by_mach computes {rv!r}: not one evaluation of the drag curve')
                continue
            name = A.ATOMS[cd_atoms[0]].name
            cd = A.RF(A.Poly.atom(A.ATOMS[cd_atoms[0]]))
            k = A.ratio_const(rv.rf, cd / A.sym('shot.ammo.dm.BC'))
            if k is None:
                rep.fail(rule, tc.path, dbm.node.lineno, dbm.qualname, 'K',
                         f'drag_by_mach computes {rv!r}: not (constant) * Cd / (BC of the shot\'s drag model)')
            elif abs(k / want_k - 1) > 1e-4:
                rep.fail(rule, tc.path, dbm.node.lineno, dbm.qualname, 'K',
                         f'drag_by_mach computes Cd * {k:.6g} / BC; the statement says Cd * {want_k:.6g} / BC '
                         f'(standard density {rho0} lb/ft^3 * pi / (8*144))')
            else:
                rep.ok(rule, dbm.where, f'drag_by_mach = Cd * {k:.6g} / shot.ammo.dm.BC; K matches {rho0} * pi / (8*144) = {want_k:.6g}')
            # arguments of the selector, by its own parameter order
            inner = name[len(sel.name) + 1:-1]
            parts, depth, cur = [], 0, ''
            for ch in inner:
                if ch == ',' and depth == 0:
                    parts.append(cur.strip())
                    cur = ''
                    continue
                depth += ch in '([<'
                depth -= ch in ')]>'
                cur += ch
            parts.append(cur.strip())
            roles_ = dict(zip(sel.positional, parts))
            want_args = {}
            for pname in sel.positional:
                low = pname.lower()
                if 'curve' in low:
                    want_args[pname] = 'calculate_curve(shot.ammo.dm.drag_table)'
                elif 'list' in low or 'data' in low:
                    want_args[pname] = '_get_only_mach_data(shot.ammo.dm.drag_table)'
            if len(want_args) != 2 or len(parts) != len(sel.positional):
                raise AnalysisError(f'the selector\'s parameters {sel.positional} are not (Mach nodes, curve, Mach)')
            for pname, want in want_args.items():
                if roles_.get(pname) == want:
                    rep.ok(rule, it.where, f'the selector\'s `{pname}` is {want}')
                else:
                    rep.fail(rule, tc.path, it.node.lineno, it.qualname, f'wiring:{pname}',
                             f'the selector\'s `{pname}` is {roles_.get(pname)} when drag_by_mach runs, expected {want} (of the '
                             f'shot\'s own drag table)')
            mach_p = [p_ for p_ in sel.positional if p_ not in want_args][0]
            if roles_.get(mach_p) == 'm':
                rep.ok(rule, dbm.where, 'the drag curve is evaluated at the Mach number given')
            else:
                rep.fail(rule, tc.path, dbm.node.lineno, dbm.qualname, 'wiring:mach',
                         f'the drag curve is evaluated at {roles_.get(mach_p)}, not at the Mach number given')
    if n_paths == 0:
        raise AnalysisError('_init_trajectory has no non-raising path')


def check_point_writers(prog: Program, rep, rule: str) -> None:
    """Who may write a table point.  The fields of a DragDataPoint (Mach, CD) are stored at construction; the points of a
    model's table are shared - with the solver, which keeps the table for the whole shot, with every other model built
    from the same list - so a later store changes the tabulated value another computation reads.  Decided by the effect
    summaries (engine C) of every function of the package: a store into a field called like a point's field whose
    receiver may be an object the function was handed (a parameter, something reachable from self, a global) is refuted;
    a store into an object the function - or a callee, through its summarised return shape - has just built is
    construction.  A class that has a field of that name itself (BCPoint.Mach) writes its own."""
    from ..effects import Effects
    ddp = prog.cls(C.M_DM, 'DragDataPoint')
    fields = {a for a in ddp.attrs} & {'Mach', 'CD'} or {'Mach', 'CD'}
    eng = Effects(prog)
    n_f = n_bad = 0
    for fq, summ in eng.summaries.items():
        f = eng.funcs.get(fq) if hasattr(eng, 'funcs') else None
        for (origin, fld), e in summ.effects.items():
            if fld not in fields or origin[0] in ('fresh', 'const'):
                continue
            if e.module.name.startswith('py_ballisticcalc.visualize'):
                continue
            owner = None
            for m_ in prog.modules.values():
                for ci in m_.classes.values():
                    for meth in ci.methods.values():
                        if meth.fq == fq:
                            owner = ci
            if origin[0] == 'self' and owner is not None and (owner is ddp or fld in owner.attrs
                                                              or any(s_.attr == fld and s_.func is not None and s_.func.cls is owner
                                                                     and isinstance(s_.base, ast.Name) and s_.base.id == 'self'
                                                                     for s_ in C.iter_attr_stores(prog))):
                continue
            n_bad += 1
            rep.fail(rule, e.module.path, e.line, e.func, f'point-store:{fld}',
                     f'`{e.text[:60]}` stores the field {fld} of a table point that {e.func} did not build (it may be reached from '
                     f'{origin}): the points of a drag table are shared with the solver and with every model built from the same '
                     f'list, so the tabulated value a later computation reads is no longer the one given'
                     + (f' [via {" -> ".join(e.chain)}]' if e.chain else ''))
        n_f += 1
    if n_f < 100:
        raise AnalysisError(f'effect summaries of only {n_f} functions: the package is not read any more')
    if not n_bad:
        rep.ok(rule, 'py_ballisticcalc', f'no function of the package ({n_f} summaries) stores Mach / CD of a point it did not build')


def run(prog: Program, rep, thorough: bool) -> None:
    A.reset()
    rep.rule('C09.R1', 'shipped tables literal, ascending from 0, equal to the reference, never written', 9 + 2)
    rep.rule('C09.R2', 'curve entries interpolate their nodes; selector form and index range', 4)
    rep.rule('C09.R3', 'BC definition and wiring', 5)
    rep.rule('C09.R4', 'the selector returns an entry whose nodes include both neighbours of the query (proof per return site)', 1)
    check_tables(prog, rep, 'C09.R1')
    check_point_writers(prog, rep, 'C09.R1')
    check_curve(prog, rep, 'C09.R2')
    check_bc(prog, rep, 'C09.R3')
    check_mach_list(prog, rep, 'C09.R3')
    check_search(prog, rep, 'C09.R4')


TCF = 'py_ballisticcalc/trajectory_calc/_trajectory_calc.py'
DT = 'py_ballisticcalc/drag_tables.py'
DMF = 'py_ballisticcalc/drag_model.py'
VARIANTS = [
    Variant('table-entry-altered', 'break', [(DT, "{'Mach': 0.70, 'CD': 0.2165},", "{'Mach': 0.70, 'CD': 0.2265},")], 'C09.R1', '', 'pass'),
    Variant('rows-swapped', 'break', [(DT, "    {'Mach': 0.05, 'CD': 0.2558},\n    {'Mach': 0.10, 'CD': 0.2487},\n", "    {'Mach': 0.10, 'CD': 0.2487},\n    {'Mach': 0.05, 'CD': 0.2558},\n")], 'C09.R1'),
    Variant('head-intercept-at-node-1', 'break', [(TCF, 'curve = [CurvePoint(0, rate, data_points[0].CD - data_points[0].Mach * rate)]', 'curve = [CurvePoint(0, rate, data_points[1].CD - data_points[0].Mach * rate)]')], 'C09.R2', '', 'pass'),
    Variant('selector-upper-bound', 'break', [(TCF, '    num_points = len(curve)\n    mlo = 0\n    mhi = num_points - 2\n', '    num_points = len(curve)\n    mlo = 0\n    mhi = num_points - 1\n')], 'C09.R2', 'the non-interpolating tail entry becomes reachable'),
    Variant('make-data-points-passes-dicts', 'break', [(DMF, "            else DragDataPoint(point['Mach'], point['CD'])\n", "            else point\n")], 'C09.R1', 'models share the shipped table\'s dict objects'),
    Variant('quadratic-coefficient-b', 'break', [(TCF, 'b = (y2 - y1 - a * (x2 * x2 - x1 * x1)) / (x2 - x1)', 'b = (y2 - y1 - a * (x2 * x2 - x1 * x1)) / (x3 - x1)')], 'C09.R2', 'positive control', 'caught'),
    Variant('drag-constant', 'break', [(TCF, 'return cd * 2.08551e-04 / self._bc', 'return cd * 2.08e-04 / self._bc')], 'C09.R3', 'positive control', 'caught'),
    Variant('selector-mixes-entries', 'break', [(TCF, 'return curve_m.c + mach * (curve_m.b + curve_m.a * mach)', 'return curve[mlo].c + mach * (curve_m.b + curve_m.a * mach)', 2)], 'C09.R2'),
    Variant('loop-starts-at-zero', 'break', [(TCF, 'for i in range(1, len_data_range):', 'for i in range(0, len_data_range):')], 'C09.R2', 'entries shifted by one index'),
    Variant('table-sorted-by-api', 'break', [(DMF, 'def make_data_points(drag_table: DragTableDataType) -> List[DragDataPoint]:\n    """Convert drag table from list of dictionaries to list of DragDataPoints"""\n', 'def make_data_points(drag_table: DragTableDataType) -> List[DragDataPoint]:\n    """Convert drag table from list of dictionaries to list of DragDataPoints"""\n    from py_ballisticcalc.drag_tables import TableG1\n    TableG1.sort(key=lambda p: p["Mach"])\n')], 'C09.R1'),
    Variant('bc-from-constant', 'break', [(TCF, 'self._bc: float = shot_info.ammo.dm.BC', 'self._bc: float = 1.0')], 'C09.R3'),
    Variant('twin-bisection-skips-middle', 'twin', [(TCF, '        if mach_list[mid] < mach:\n            mlo = mid\n        else:\n            mhi = mid\n\n    if mach_list[mhi] - mach', '        if mach_list[mid] < mach:\n            mlo = mid + 1\n        else:\n            mhi = mid\n\n    if mach_list[mhi] - mach')], None, 'lo = mid + 1 keeps ml[lo-1] < q: the entry at lo or hi still has both neighbours among its nodes (proved); an earlier pattern rule reported this edit'),
    Variant('bisection-stops-early', 'break', [(TCF, '    while mhi - mlo > 1:\n        mid = (mhi + mlo) // 2\n        if mach_list[mid] < mach:', '    while mhi - mlo > 2:\n        mid = (mhi + mlo) // 2\n        if mach_list[mid] < mach:')], 'C09.R4', 'entry two nodes away from the query'),
    Variant('nearest-node-reversed', 'break', [(TCF, '    if mach_list[mhi] - mach > mach - mach_list[mlo]:', '    if mach_list[mhi] - mach < mach - mach_list[mlo]:')], 'C09.R4', 'wrong only in the last interval and beyond the table'),
    Variant('bisection-bound-plus-one', 'break', [(TCF, '        else:\n            mhi = mid\n\n    if mach_list[mhi] - mach', '        else:\n            mhi = mid + 1\n\n    if mach_list[mhi] - mach')], 'C09.R4', 'never terminates when hi - lo = 2'),
    Variant('twin-loop-condition-ge-2', 'twin', [(TCF, '    while mhi - mlo > 1:\n        mid = (mhi + mlo) // 2\n        if mach_list[mid] < mach:', '    while mhi - mlo >= 2:\n        mid = (mhi + mlo) // 2\n        if mach_list[mid] < mach:')], None),
    Variant('twin-nearest-by-abs', 'twin', [(TCF, '    if mach_list[mhi] - mach > mach - mach_list[mlo]:', '    if abs(mach_list[mhi] - mach) > abs(mach - mach_list[mlo]):')], None),
    Variant('twin-mid-by-offset', 'twin', [(TCF, '        mid = (mhi + mlo) // 2\n        if mach_list[mid] < mach:', '        mid = mlo + (mhi - mlo) // 2\n        if mach_list[mid] < mach:')], None),
    Variant('entry-one-below', 'break', [(TCF, '    curve_m = curve[m]\n    return curve_m.c', '    curve_m = curve[max(m - 1, 0)]\n    return curve_m.c')], 'C09.R4'),
    Variant('mach-list-sorted-desc', 'break', [(TCF, '    for dp in data:\n        result.append(dp.Mach)\n    return result', '    for dp in data:\n        result.append(dp.Mach)\n    return result[::-1]')], 'C09.R3'),
    Variant('twin-bisection-le', 'twin', [(TCF, '        if mach_list[mid] < mach:\n            mlo = mid\n        else:\n            mhi = mid\n\n    if mach_list[mhi] - mach', '        if mach_list[mid] <= mach:\n            mlo = mid\n        else:\n            mhi = mid\n\n    if mach_list[mhi] - mach')], None, 'bracket [lo, hi) instead of (lo, hi]'),
    Variant('twin-table-floats-respelled', 'twin', [(DT, "{'Mach': 0.20, 'CD': 0.2344},", "{'Mach': 0.2, 'CD': 0.23440},")], None),
    Variant('twin-curvepoint-keywords', 'twin', [(TCF, 'curve_point = CurvePoint(a, b, c)\n        curve.append(curve_point)', 'curve.append(CurvePoint(c=c, b=b, a=a))')], None),
]
