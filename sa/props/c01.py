"""C01 - Trajectory is the solution of the point-mass equations of motion."""
from __future__ import annotations

import ast
import math
from fractions import Fraction
from typing import Dict, List, Optional, Tuple

from .. import algebra as A
from ..abseval import (Cond, Const, Ctx, Evaluator, Inst, Leaf, Lst, NONE, Raised, Scalar, State, S, SymObj, Tup,
                       Undecided, cond_leaves, leaves)
from ..check import Variant
from ..loader import AnalysisError, Program, dotted, norm, parent
from . import common as C
from .flow import DENSITY_CALL, IntegrateFacts

ID = 'C01'
TECHNIQUE = ('abstract evaluation of one iteration of the integration loop (vector operators, drag routine and wind '
             'inlined from source, step size kept as a symbol) to exact normal forms; the increments are expanded as '
             'polynomials in the step size and their first-order coefficients compared with the right-hand side of '
             'the stated ODE; abstract evaluation of _init_trajectory and the loop prologue for the initial state')
DECIDED = [
    'R1 the step map is first-order consistent with the stated equations: t\' - t = tau with tau proportional to the '
    'configured step; position increment = tau V + O(tau^2); velocity increment = tau (G - rho |V-W| Cd(|V-W|/a) K/BC '
    '(V-W)) + O(tau^2) with K = standard density pi/(8*144) within 1e-4, G = (0, g, 0) from this calculator\'s '
    'Config, on every non-raising path of the loop body (with and without wind refresh, with and without recording)',
    'R2 density ratio and speed of sound are queried at alt0 + y inside the loop on every iteration, unconditionally; '
    'the Mach number fed to the drag function is air-relative speed / that speed of sound',
    'R3 initial state: position (0, -cos(cant) sh, -sin(cant) sh), velocity mv (cos be cos az, sin be, cos be sin az) '
    'with be = look + cos(cant)(zero + rel), az = sin(cant)(zero + rel), mv the powder-temperature velocity, every '
    'quantity read in feet / fps / radians (inches and grains for the Miller inputs)',
]
NOT_DECIDED = ['the size of the discretisation error at the default step, the rate of convergence, the closed-form '
               'vacuum parabola as numbers (R1 with rho = 0 gives acceleration G, but the sum over steps is not '
               'evaluated), correctness of Cd(.) itself (C09)']


def _vec(ev, st, v) -> Optional[Tuple[A.RF, A.RF, A.RF]]:
    if not isinstance(v, Inst):
        return None
    h = st.heap[v.oid]
    try:
        return tuple(ev.scalar(h[c]) for c in 'xyz')   # type: ignore[return-value]
    except (KeyError, Undecided):
        return None


def wind_roles(F: IntegrateFacts) -> Tuple[str, str]:
    """Names of the wind sock and of the wind vector in _integrate, by data flow: the sock is what _WindSock(...) is
    assigned to, the wind what is assigned from one of its methods."""
    fn = F.func
    socks, winds = set(), set()
    for n in ast.walk(fn.node):
        if isinstance(n, (ast.Assign, ast.AnnAssign)) and n.value is not None and isinstance(n.value, ast.Call):
            tg = [t.id for t in (n.targets if isinstance(n, ast.Assign) else [n.target]) if isinstance(t, ast.Name)]
            if norm(n.value.func).split('.')[-1] == '_WindSock':
                socks |= set(tg)
    for n in ast.walk(fn.node):
        if isinstance(n, (ast.Assign, ast.AnnAssign)) and n.value is not None and isinstance(n.value, ast.Call) \
                and isinstance(n.value.func, ast.Attribute) and norm(n.value.func.value) in socks:
            winds |= {t.id for t in (n.targets if isinstance(n, ast.Assign) else [n.target]) if isinstance(t, ast.Name)}
    if len(socks) != 1 or len(winds) != 1:
        raise AnalysisError(f'_integrate: wind sock held in {sorted(socks)}, wind vector in {sorted(winds)}')
    return next(iter(socks)), next(iter(winds))


def loop_iteration(prog: Program, F: IntegrateFacts, ev: Evaluator, ctx: Ctx, rows_before=None, env_out=None, stop_before=None):
    """Evaluate one iteration of the integration loop on a symbolic state (x, y, z, vx, vy, vz, t, wind wx..wz)."""
    tcc = prog.cls(C.M_TC, 'TrajectoryCalc')
    cfgc = prog.cls(C.M_TC, 'Config')
    sock, wname = wind_roles(F)
    st = State()
    cfg_inst = ev.new_inst(st, cfgc, {f: S(f'cfg.{f}') for f in prog.namedtuple_fields(cfgc)})
    try:
        selfv = ev.construct(tcc, [cfg_inst], {}, st, ctx)
    except Undecided as exc:
        raise AnalysisError(f'TrajectoryCalc.__init__: {exc}') from exc
    st.heap[selfv.oid].update({'alt0': S('alt0'), 'calc_step': S('cs'), 'look_angle': S('L'), 'weight': S('w'),
                               '_bc': S('BC'), '_curve': SymObj('curve'), '__mach_list': SymObj('ml'),
                               '_table_data': SymObj('table')})
    lm = {}
    from .c18 import _locals_from_config
    lm = _locals_from_config(F.func)
    env = {'self': selfv, F.func.positional[1]: SymObj('shot'),
           F.P: C.mk_vec(ev, st, prog, 'x', 'y', 'z'), F.V: C.mk_vec(ev, st, prog, 'vx', 'vy', 'vz'), F.t: S('t'),
           wname: C.mk_vec(ev, st, prog, 'wx', 'wy', 'wz'), sock: SymObj('wind_sock'),
           'data_filter': SymObj('data_filter'), 'ranges': ev.new_list(st, list(rows_before or [])), 'it': S('it'),
           F.rho: S('rho_prev'), F.a: S('a_prev'), 'drag': S('drag_prev'), 'velocity': S('speed_prev')}
    for p in F.func.positional[2:]:
        env[p] = S(f'${p}')
    for n, fld in lm.items():
        env[n] = S(f'cfg.{fld}')
    from .c18 import config_aliases
    for n in config_aliases(F.func):
        if '_config' in st.heap[selfv.oid]:
            env[n] = st.heap[selfv.oid]['_config']
    # any other local assigned before the loop and read inside it: when it is not reassigned in the loop and the
    # statements before the loop give it one readable value (a number / a field of self or of the configuration), that
    # value; otherwise an unknown
    loop_reads = {n.id for n in ast.walk(F.loop) if isinstance(n, ast.Name) and isinstance(n.ctx, ast.Load)}
    loop_writes = {n.id for n in ast.walk(F.loop) if isinstance(n, ast.Name) and isinstance(n.ctx, ast.Store)}
    pre = [s_ for s_ in F.func.node.body if s_.lineno < F.loop.lineno and s_ is not F.loop and not F._inside(F.loop, s_)]
    cand = {n for n in loop_reads - loop_writes if n not in env}
    if cand and pre:
        st_pre = st.copy()
        st_pre.env.update(env)
        ev_pre = Evaluator(prog, hooks={'construct:_WindSock': lambda *a_: SymObj('wind_sock'), **C.no_wrap_hooks()},
                           opaque={'winds', 'create_trajectory_row', 'spin_drift'})
        try:
            t_pre = ev_pre.exec_block(pre, st_pre, ctx)
        except (Undecided, AnalysisError):
            t_pre = None
        if isinstance(t_pre, Leaf) and t_pre.kind == 'fall':
            for n in sorted(cand):
                v = t_pre.state.env.get(n)
                if isinstance(v, Scalar) and all('@' not in x_ and not x_.startswith('$') for x_ in v.rf.symbols()):
                    env[n] = v
    for n in loop_reads:
        if n not in env and n not in ('math', 'max', 'min', 'RangeError', 'create_trajectory_row', 'TrajFlag', 'logger',
                                      'warnings', 'abs', 'len', 'float', 'int', 'bool'):
            try:
                ev.lookup(n, State(), ctx)
            except Undecided:
                env[n] = S(f'${n}')
    st.env.update(env)
    if env_out is not None:
        env_out.update(env)
    body = list(F.loop.body)
    if stop_before is not None:
        # only the statements of the body in front of the one that contains `stop_before`
        k = next((i for i, st_ in enumerate(body) if any(x is stop_before for x in ast.walk(st_))), None)
        if k is None:
            raise AnalysisError('the statement asked for is not a statement of the loop body')
        body = body[:k]
    try:
        tree = ev.exec_block(body, st, ctx)
    except Undecided as exc:
        raise AnalysisError(f'loop body of _integrate: {exc}') from exc
    return st, selfv, tree, wname


def run(prog: Program, rep, thorough: bool) -> None:
    A.reset()
    rep.rule('C01.R1', 'one step = tau x (right-hand side of the ODE) to first order', 4)
    rep.rule('C01.R2', 'atmosphere sampled at the current altitude every step', 3)
    rep.rule('C01.R3', 'initial state and unit wiring', 8)
    tc = prog.module(C.M_TC)
    F = IntegrateFacts(prog)
    rep.saw(F.func)
    tcc = prog.cls(C.M_TC, 'TrajectoryCalc')
    cfgc = prog.cls(C.M_TC, 'Config')
    captured: Dict[str, List] = {'density': [], 'cd': []}

    in_drag = [False]

    def symcall(ev_, fv, args, kwargs, st):
        if fv.path.endswith('.' + DENSITY_CALL):
            captured['density'].append(args[0] if args else None)
            return Tup([S('rho'), S('a')])
        if in_drag[0]:
            # inside drag_by_mach, a lookup on an object built elsewhere (the fitted curve kept as an object of its own):
            # the drag coefficient as a function of its one numeric argument
            nums = [a_ for a_ in list(args) + list(kwargs.values()) if isinstance(a_, (Scalar, Cond))]
            if len(nums) == 1 and len(args) + len(kwargs) == 1:
                captured['cd'].append((None, None, nums[0]))
                return ev_.lift(lambda mm: Scalar(A.fn('Cd', ev_.scalar(mm))), nums[0])
        return None

    def drag_hook(ev_, func, args, kwargs, st, self_val):
        if in_drag[0]:
            return None
        in_drag[0] = True
        try:
            return ev_.call_func(func, args, kwargs, st, Ctx(func.module, None, None, 1), self_val=self_val)
        finally:
            in_drag[0] = False

    def cd_hook(ev_, func, args, kwargs, st, self_val):
        m = args[2] if len(args) > 2 else kwargs.get('mach')
        captured['cd'].append((args[0] if args else None, args[1] if len(args) > 1 else None, m))
        return ev_.lift(lambda mm: Scalar(A.fn('Cd', ev_.scalar(mm))), m)
    ev = Evaluator(prog, hooks={'symcall': symcall, 'call:_calculate_by_curve_and_mach_list': cd_hook,
                                'call:TrajectoryCalc.drag_by_mach': drag_hook, **C.no_wrap_hooks()},
                   opaque={'create_trajectory_row', 'spin_drift'})
    ctx = Ctx(tc, F.func, None, 0)

    # ---- R1: one loop iteration ----------------------------------------------------------------
    st, selfv, tree, wname = loop_iteration(prog, F, ev, ctx)
    n_paths = 0
    problems: Dict[str, str] = {}
    x, y, z = A.sym('x'), A.sym('y'), A.sym('z')
    Vs = (A.sym('vx'), A.sym('vy'), A.sym('vz'))
    Ps = (x, y, z)
    const_mod = prog.module(C.M_CONST)
    rho0 = C.const_number(prog, const_mod, 'cStandardDensity')
    K = A.rf(Fraction(repr(rho0))) * A.sym('pi') / (8 * 144)
    K_num = rho0 * math.pi / (8 * 144)
    g_vec = _vec(ev, st, st.heap[selfv.oid].get('gravity_vector'))
    if g_vec is None:
        raise AnalysisError('gravity_vector is not a Vector')
    if not (g_vec[0].is_zero() and g_vec[2].is_zero() and g_vec[1].equals(A.sym('cfg.cGravityConstant'))):
        rep.fail('C01.R1', tc.path, prog.func(C.M_TC, 'TrajectoryCalc.__init__').node.lineno, 'TrajectoryCalc.__init__',
                 'gravity-axis', f'gravity acts along {g_vec!r}; the statement has it on the vertical axis only: '
                 f'(0, cfg.cGravityConstant, 0)')
        g_vec = (A.rf(0), A.sym('cfg.cGravityConstant'), A.rf(0))
    for path, leaf in leaves(tree):
        if leaf.kind == 'raise':
            continue
        if leaf.kind == 'break':
            # leaving the loop before anything has been advanced is the loop's end test in another spelling
            e_ = leaf.state.env
            W0 = _vec(ev, leaf.state, e_.get(F.P)), _vec(ev, leaf.state, e_.get(F.V))
            same = W0[0] is not None and W0[1] is not None and all(a_.equals(A.sym(n_)) for a_, n_ in zip(W0[0] + W0[1], ('x', 'y', 'z', 'vx', 'vy', 'vz'))) \
                and isinstance(e_.get(F.t), Scalar) and e_[F.t].rf.equals(A.sym('t'))
            if same:
                continue
            # left after a step (a stop condition met): the step taken is judged like any other
        if leaf.kind not in ('fall', 'continue', 'break'):
            problems.setdefault('exit', f'the loop body leaves by `{leaf.kind}`')
            continue
        e = leaf.state.env
        W = _vec(ev, leaf.state, e.get(wname))
        if W is None and isinstance(e.get(wname), SymObj):
            base = e[wname].path
            W = tuple(A.sym(f'{base}.{c}') for c in 'xyz')
        comps = []
        for nm in (F.P, F.V):
            v_ = e.get(nm)
            if not isinstance(v_, Inst):
                comps = None
                break
            comps += [leaf.state.heap[v_.oid].get(c) for c in 'xyz']
        if comps is None or W is None or any(c is None for c in comps) or e.get(F.t) is None:
            problems.setdefault('shape', 'state after one iteration is not (vector, vector, number)')
            continue
        flat = ev.lift(lambda *xs: Tup(list(xs)), *(comps + [e.get(F.t)]))
        for _cp, case in cond_leaves(flat):
            if not (isinstance(case, Tup) and all(isinstance(i_, (Scalar, SymObj)) for i_ in case.items)):
                problems.setdefault('shape', f'state after one iteration is {case!r}')
                continue
            n_paths += 1
            vals = [ev.scalar(i_) for i_ in case.items]
            loopy = sorted({s_ for v_ in vals for s_ in v_.symbols() if '@loop' in s_})
            if loopy:
                raise AnalysisError(f'one iteration of the integration loop contains a loop of its own that the evaluator cannot read '
                                    f'(`{loopy[0]}`): the step is not decidable in this shape')
            _check_case(ev, F, vals[0:3], vals[3:6], vals[6], W, Ps, Vs, g_vec, K, problems)
        continue
    if n_paths == 0:
        problems.setdefault('paths', 'no non-raising path through the loop body')
    if problems:
        for k, msg in problems.items():
            rep.fail('C01.R1', tc.path, F.loop.lineno, F.func.qualname, f'step:{k}', msg)
    else:
        rep.ok('C01.R1', tc.where(F.loop), f't\' - t = tau = calc_step * g(state) on all {n_paths} paths of the loop body')
        rep.ok('C01.R1', tc.where(F.loop), 'P\' - P = tau V + O(tau^2) (all three components)')
        rep.ok('C01.R1', tc.where(F.loop), 'V\' - V = tau (G - rho |V-W| Cd(|V-W|/a) K/BC (V-W)) + O(tau^2)')
        rep.ok('C01.R1', tc.where(F.loop), f'K = {K_num:.6g} within 1e-4; G = {g_vec!r}')

    # ---- R2 ------------------------------------------------------------------------------------
    dens_args = [a for a in captured['density'] if a is not None]
    want_alt = A.sym('alt0') + y
    if dens_args and all(isinstance(a, Scalar) and a.rf.equals(want_alt) for a in dens_args):
        rep.ok('C01.R2', tc.where(F.density_node.ast), 'atmosphere queried at alt0 + y')
    else:
        rep.fail('C01.R2', tc.path, F.density_node.line, F.func.qualname, 'density-altitude',
                 f'the atmosphere is queried at {[a for a in dens_args if not (isinstance(a, Scalar) and a.rf.equals(want_alt))][:1] or dens_args[:1]!r}, the statement says station altitude + current height '
                 f'({want_alt!r})')
    cd = F.cfg.control_dependence()
    guards = [F.cfg.nodes[t] for t, _l in cd[F.density_node.id] if F.cfg.nodes[t] not in F.loop_controls]
    if guards:
        rep.fail('C01.R2', tc.path, F.density_node.line, F.func.qualname, 'density-conditional',
                 f'the atmosphere query runs only under `{guards[0].text()[:60]}`: stale density and speed of sound are '
                 f'used on the other iterations')
    else:
        rep.ok('C01.R2', tc.where(F.density_node.ast), 'the query runs on every iteration, before the step')
    cds = captured['cd']
    if cds:
        # Mach fed to the drag function: air-relative speed over the queried speed of sound
        ok = True
        for ml, curve, m in cds:
            for _mp, mv_ in cond_leaves(m):
                try:
                    mrf = ev.scalar(mv_)
                except Undecided as exc:
                    raise AnalysisError(f'Mach argument of the drag function: {exc}') from exc
                # the speed of sound of this step's atmosphere query (symbol a), nothing older
                co = (mrf * A.sym('a')).symbols()
                if 'a' in co or 'a' not in mrf.symbols():
                    ok = False
        if ok:
            rep.ok('C01.R2', tc.where(F.loop), 'drag function evaluated at air-relative speed / current speed of sound')
        else:
            rep.fail('C01.R2', tc.path, F.loop.lineno, F.func.qualname, 'mach-argument',
                     'the drag function is not evaluated at (air-relative speed) / (speed of sound of this step)')
    else:
        rep.fail('C01.R2', tc.path, F.loop.lineno, F.func.qualname, 'no-drag', 'the loop body never evaluates the drag function')

    # ---- R3 ------------------------------------------------------------------------------------
    check_initial_state(prog, rep, F)


def _check_case(ev, F, P1, V1, t1, W, Ps, Vs, g_vec, K, problems) -> None:
    dt = t1 - A.sym('t')
    cdt = dt.coeffs_in('cs')
    if cdt is None or set(cdt) != {Fraction(1)}:
        problems.setdefault('tau', f'the time step t\' - t = {dt!r} is not proportional to the configured step: the '
                            f'solution does not converge as the step is refined')
        return
    g = cdt[Fraction(1)]
    rel = tuple(Vs[i] - W[i] for i in range(3))
    s = (rel[0] * rel[0] + rel[1] * rel[1] + rel[2] * rel[2]) ** Fraction(1, 2)
    rho, a = A.sym('rho'), A.sym('a')
    cd = A.fn('Cd', s / a)
    pi_num = A.rf(Fraction(repr(math.pi)))
    for i, cname in enumerate('xyz'):
        dp = (P1[i] - Ps[i]).coeffs_in('cs')
        dv = (V1[i] - Vs[i]).coeffs_in('cs')
        if dp is None or dv is None:
            problems.setdefault('poly', 'the increments are not polynomial in the step size')
            continue
        if not dp.get(Fraction(0), A.rf(0)).is_zero() or not dv.get(Fraction(0), A.rf(0)).is_zero() or \
                any(k < 0 for k in list(dp) + list(dv)):
            problems.setdefault('order0', f'the {cname} increment does not vanish with the step size')
            continue
        p1 = dp.get(Fraction(1), A.rf(0))
        if not p1.equals(g * Vs[i]):
            problems.setdefault(f'pos-{cname}', f'd{cname}/dt: the first-order position increment is {p1!r} per unit '
                                f'step, the statement says tau * v{cname} = {(g * Vs[i])!r}')
        acc = g_vec[i] - rho * s * (cd * K / A.sym('BC')) * rel[i]
        v1 = dv.get(Fraction(1), A.rf(0))
        want = g * acc
        if not A.approx_equal(v1.subs({'pi': pi_num}), want.subs({'pi': pi_num}), 1e-4):
            problems.setdefault(f'vel-{cname}', (f'dv{cname}/dt: the first-order velocity increment per unit tau is '
                                                 f'{(v1 / g)!r}; the stated right-hand side is {acc!r}')[:600])


def init_trajectory_state(prog: Program, extra_hooks=None, ammo_attrs=None):
    """_init_trajectory evaluated on a shot whose every quantity is a symbol in a unit other than the internal one.
    Returns (ev, st, selfv, shot)."""
    tc = prog.module(C.M_TC)
    tcc = prog.cls(C.M_TC, 'TrajectoryCalc')
    cfgc = prog.cls(C.M_TC, 'Config')
    it = prog.func(C.M_TC, 'TrajectoryCalc._init_trajectory')

    def construct_sock(ev_, ci, args, kwargs, st):
        return SymObj('wind_sock')
    ev = Evaluator(prog, hooks={'construct:_WindSock': construct_sock, **C.no_wrap_hooks(), **C.pref_hooks(prog),
                                **(extra_hooks or {})},
                   opaque={'calculate_curve', '_get_only_mach_data', 'winds', 'setup_seen_zero'})
    st = State()
    ctx = Ctx(tc, None, None, 0)
    q = lambda dim, sym, unit: C.mk_quantity(ev, st, prog, dim, sym, unit)
    dm = ev.new_inst(st, prog.cls(C.M_DM, 'DragModel'), {
        'BC': S('BC'), 'drag_table': SymObj('table'), 'length': q('Distance', 'len_raw', 'Millimeter'),
        'diameter': q('Distance', 'dia_raw', 'Centimeter'), 'weight': q('Weight', 'wt_raw', 'Gram')})
    ammo = ev.new_inst(st, prog.cls(C.M_MUN, 'Ammo'), {
        'dm': dm, 'mv': q('Velocity', 'mv_raw', 'KMH'), 'powder_temp': q('Temperature', 'pt_raw', 'Celsius'),
        'temp_modifier': S('tm'), 'use_powder_sensitivity': Const(False), **(ammo_attrs or {})})
    weapon = ev.new_inst(st, prog.cls(C.M_MUN, 'Weapon'), {
        'sight_height': q('Distance', 'sh_raw', 'Centimeter'), 'twist': q('Distance', 'tw_raw', 'Millimeter'),
        'zero_elevation': q('Angular', 'zero', 'MOA'), 'sight': NONE})
    atmo = ev.new_inst(st, prog.cls(C.M_COND, 'Atmo'), {
        '_altitude': q('Distance', 'alt_raw', 'Meter'), '_pressure': q('Pressure', 'pr_raw', 'hPa'),
        '_temperature': q('Temperature', 'at_raw', 'Celsius'), '_powder_temp': q('Temperature', 'apt_raw', 'Kelvin')})
    shot = ev.new_inst(st, prog.cls(C.M_COND, 'Shot'), {
        'look_angle': q('Angular', 'look', 'Degree'), 'relative_angle': q('Angular', 'rel', 'Mil'),
        'cant_angle': q('Angular', 'cant', 'Thousandth'), 'weapon': weapon, 'ammo': ammo, 'atmo': atmo, '_winds': SymObj('winds')})
    cfg_inst = ev.new_inst(st, cfgc, {f: S(f'cfg.{f}') for f in prog.namedtuple_fields(cfgc)})
    try:
        selfv = ev.construct(tcc, [cfg_inst], {}, st, ctx)
        r = ev.call_func(it, [shot], {}, st, ctx, self_val=selfv)
    except Undecided as exc:
        raise AnalysisError(f'_init_trajectory: {exc}') from exc
    if isinstance(r, Raised):
        raise AnalysisError('_init_trajectory raises in the abstract evaluation')
    return ev, st, selfv, shot


def check_initial_state(prog: Program, rep, F: IntegrateFacts) -> None:
    tc = F.mod
    it = prog.func(C.M_TC, 'TrajectoryCalc._init_trajectory')
    rep.saw(it)
    ev, st, selfv, shot = init_trajectory_state(prog)
    h = st.heap[selfv.oid]

    def raw_in(dim, sym, unit):
        return C.read_raw_in(ev, prog, dim, sym, unit)
    look, rel, cant, zero = (A.sym(n) for n in ('look', 'rel', 'cant', 'zero'))
    be = look + A.fn('cos', cant) * (zero + rel)
    az = A.fn('sin', cant) * (zero + rel)
    sh_ft = raw_in('Distance', 'sh_raw', 'Foot')
    mv_fps = raw_in('Velocity', 'mv_raw', 'FPS')
    want_attrs = {
        'look_angle': (look, 'look angle in radians'),
        'barrel_elevation': (be, 'barrel elevation = look + cos(cant)(zero + rel)'),
        'barrel_azimuth': (az, 'barrel azimuth = sin(cant)(zero + rel)'),
        'sight_height': (sh_ft, 'sight height in feet'),
        'cant_cosine': (A.fn('cos', cant), 'cos(cant)'),
        'cant_sine': (A.fn('sin', cant), 'sin(cant)'),
        'alt0': (raw_in('Distance', 'alt_raw', 'Foot'), 'station altitude in feet'),
        'muzzle_velocity': (mv_fps, 'muzzle velocity (powder temperature) in fps'),
        'twist': (raw_in('Distance', 'tw_raw', 'Inch'), 'twist in inches'),
        'length': (raw_in('Distance', 'len_raw', 'Inch'), 'bullet length in inches'),
        'diameter': (raw_in('Distance', 'dia_raw', 'Inch'), 'bullet diameter in inches'),
        'weight': (raw_in('Weight', 'wt_raw', 'Grain'), 'bullet weight in grains'),
    }
    for attr, (want, label) in want_attrs.items():
        got = h.get(attr)
        vals = [x for _p, x in cond_leaves(got)] if got is not None else []
        if vals and all(isinstance(x, Scalar) and x.rf.equals(want) for x in vals):
            rep.ok('C01.R3', it.where, f'self.{attr} = {label}')
        else:
            rep.fail('C01.R3', tc.path, it.node.lineno, it.qualname, f'init:{attr}',
                     f'self.{attr} is {got!r} on entry; the statement needs {label} = {want!r}')
    # prologue of _integrate: initial position and velocity
    pre = F.func.node.body[:F.func.node.body.index(F.loop)] if F.loop in F.func.node.body else None
    if pre is None:
        # the loop may sit inside a region statement: take everything textually before it
        pre = [s for s in F.func.node.body if s.lineno < F.loop.lineno]
    env = {F.func.positional[0]: selfv, F.func.positional[1]: shot}
    for p in F.func.positional[2:]:
        env[p] = S(f'${p}')
    st.env.update(env)
    try:
        t0 = ev.exec_block(pre, st, Ctx(tc, F.func, None, 0))
    except Undecided as exc:
        raise AnalysisError(f'prologue of _integrate: {exc}') from exc
    lv = [l for _p, l in leaves(t0) if l.kind == 'fall']
    if not lv:
        raise AnalysisError('prologue of _integrate does not reach the loop')
    cc, sc = A.fn('cos', cant), A.fn('sin', cant)
    wantP = (A.rf(0), -cc * sh_ft, -sc * sh_ft)
    wantV = (mv_fps * A.fn('cos', be) * A.fn('cos', az), mv_fps * A.fn('sin', be), mv_fps * A.fn('cos', be) * A.fn('sin', az))
    okP = okV = okT = True
    gotP = gotV = None
    for l in lv:
        P0, V0 = _vec(ev, l.state, l.state.env.get(F.P)), _vec(ev, l.state, l.state.env.get(F.V))
        t_ = l.state.env.get(F.t)
        gotP, gotV = P0, V0
        okP = okP and P0 is not None and all(P0[i].equals(wantP[i]) for i in range(3))
        okV = okV and V0 is not None and all(V0[i].equals(wantV[i]) for i in range(3))
        okT = okT and isinstance(t_, Scalar) and t_.rf.is_zero()
    if okP:
        rep.ok('C01.R3', tc.where(F.func.node), 'P0 = (0, -cos(cant) sh, -sin(cant) sh) in feet')
    else:
        rep.fail('C01.R3', tc.path, F.func.node.lineno, F.func.qualname, 'P0',
                 f'initial position is {gotP!r}; the statement says (0, -cos(cant) sh, -sin(cant) sh) = {wantP!r}')
    if okV:
        rep.ok('C01.R3', tc.where(F.func.node), 'V0 = mv (cos be cos az, sin be, cos be sin az) in fps')
    else:
        rep.fail('C01.R3', tc.path, F.func.node.lineno, F.func.qualname, 'V0',
                 f'initial velocity is {gotV!r}; the statement says mv (cos be cos az, sin be, cos be sin az) = {wantV!r}'[:700])
    if okT:
        rep.ok('C01.R3', tc.where(F.func.node), 'time starts at 0')
    else:
        rep.fail('C01.R3', tc.path, F.func.node.lineno, F.func.qualname, 't0', 'time does not start at 0')
    rep.assume('angles are within one turn (the 2*pi wrap of Angular.to_raw is not taken)')


TCF = 'py_ballisticcalc/trajectory_calc/_trajectory_calc.py'
CON = 'py_ballisticcalc/conditions.py'
VARIANTS = [
    Variant('density-at-station-only', 'break', [(TCF, '                self.alt0 + range_vector.y)\n', '                self.alt0)\n')], 'C01.R2', 'positive control', 'caught'),
    Variant('velocity-plus-wind', 'break', [(TCF, 'velocity_adjusted = velocity_vector - wind_vector', 'velocity_adjusted = velocity_vector + wind_vector')], 'C01.R1'),
    Variant('drag-at-speed-not-mach', 'break', [(TCF, 'self.drag_by_mach(velocity / mach)', 'self.drag_by_mach(velocity)')], 'C01'),
    Variant('gravity-on-x', 'break', [(TCF, 'Vector(.0, self._config.cGravityConstant, .0)', 'Vector(self._config.cGravityConstant, .0, .0)')], 'C01.R1'),
    Variant('delta-time-without-step', 'break', [(TCF, 'delta_time = self.calc_step / max(1.0, velocity)', 'delta_time = 0.0005 / max(1.0, velocity)')], 'C01.R1', 'no convergence under step refinement'),
    Variant('ground-speed-in-drag', 'break', [(TCF, '            velocity = velocity_adjusted.magnitude()  # Velocity relative to air\n', '            velocity = velocity_vector.magnitude()\n')], 'C01.R1', 'drag magnitude from ground speed: only shows with wind'),
    Variant('drag-dropped-on-z', 'break', [(TCF, 'velocity_vector -= (velocity_adjusted * drag - self.gravity_vector) * delta_time  # type: ignore', 'velocity_vector -= (Vector(velocity_adjusted.x, velocity_adjusted.y, 0.0) * drag - self.gravity_vector) * delta_time  # type: ignore')], 'C01.R1', 'no lateral drag: only shows with cross wind or cant'),
    Variant('position-uses-wind-relative-velocity', 'break', [(TCF, 'delta_range_vector = velocity_vector * delta_time', 'delta_range_vector = (velocity_vector - wind_vector) * delta_time')], 'C01.R1', 'only shows with wind'),
    Variant('azimuth-ignored', 'break', [(TCF, '            math.cos(self.barrel_elevation) * math.sin(self.barrel_azimuth)\n', '            0.0\n')], 'C01.R3', 'only shows with cant'),
    Variant('sight-height-in-inches', 'break', [(TCF, 'self.sight_height = shot_info.weapon.sight_height >> Distance.Foot', 'self.sight_height = shot_info.weapon.sight_height >> Distance.Inch')], 'C01.R3'),
    Variant('relative-angle-ignored-in-azimuth', 'break', [(CON, "        return Angular.Radian(math.sin(self.cant_angle >> Angular.Radian)\n                              * ((self.weapon.zero_elevation >> Angular.Radian)\n                                 + (self.relative_angle >> Angular.Radian)))", "        return Angular.Radian(math.sin(self.cant_angle >> Angular.Radian)\n                              * (self.weapon.zero_elevation >> Angular.Radian))")], 'C01.R3', 'only shows with cant and hold-over together'),
    Variant('mach-from-previous-step', 'break', [(TCF, '            density_factor, mach = shot_info.atmo.get_density_factor_and_mach_for_altitude(\n                self.alt0 + range_vector.y)\n', '            density_factor, _mach_now = shot_info.atmo.get_density_factor_and_mach_for_altitude(\n                self.alt0 + range_vector.y)\n            mach = mach or _mach_now\n')], 'C01', 'speed of sound frozen at the muzzle value'),
    Variant('twin-subtract-method', 'twin', [(TCF, 'velocity_adjusted = velocity_vector - wind_vector', 'velocity_adjusted = velocity_vector.subtract(wind_vector)')], None),
    Variant('twin-explicit-euler-order', 'twin', [(TCF, '            velocity_vector -= (velocity_adjusted * drag - self.gravity_vector) * delta_time  # type: ignore\n            # Bullet position changes by velocity time_deltas the time step\n            delta_range_vector = velocity_vector * delta_time\n', '            delta_range_vector = velocity_vector * delta_time\n            velocity_vector -= (velocity_adjusted * drag - self.gravity_vector) * delta_time  # type: ignore\n            # Bullet position changes by velocity time_deltas the time step\n')], None, 'explicit Euler is consistent too'),
    Variant('twin-locals-renamed', 'twin', [(TCF, 'velocity_adjusted', 'v_air', 3)], None),
]
