"""C20 - Trajectory look-ups return the first row satisfying the query."""
from __future__ import annotations

import ast
from typing import Dict, List, Optional, Tuple

from .. import algebra as A
from ..abseval import (Branch, Cond, Const, Ctx, Evaluator, FuncRef, Inst, Leaf, NONE, Raised, Scalar, State, S, SymObj,
                       Test, Undecided, cond_leaves, leaves)
from ..check import Variant
from ..loader import AnalysisError, Func, Program, ancestors, dotted, find_func_for_node, norm, parent
from . import common as C
from .c16 import reachable_leaves, truth_at

TRUE_ = Const(True)

ID = 'C20'
TECHNIQUE = ('the searches by inductive invariants in a linear-constraint domain (engine F: Houdini '
             'inference, Fourier-Motzkin refutation, counterexamples from finite families) - '
             'index_at_distance, the first-true search behind the helpers with the wrapper predicate '
             'abstracted as key[i] >= q over a non-decreasing key, the nearest search, the apex bisection; '
             'the wiring of the helper chain by abstract evaluation through recorders (engine D); ordering '
             'enumeration / sampling of the sentinel guards and of the deviation test; inventory of unchecked'
             ' subscripts')
DECIDED = [
    'R1 index_at_distance, whatever its shape (generator scan, loop, bisection over the row distances), '
    'returns for every trajectory length the index of the first row with distance >= the query and -1 exactly'
    ' when the last row is short of it, with every index in range (engine F: proof from inferred invariants /'
    ' the exact meaning of the scan, counterexamples from a finite family); bisect_for_monotonic_condition, '
    'whatever its shape (library bisect, a hand-written lower bound, a scan), returns for every length the '
    'first index whose (monotone) predicate holds and -1 when none does (engine F, the wrapper read as key[i]'
    ' >= q); BisectWrapper[i] = check_condition(i) = predicate(array[i]) and len = len(array), '
    'find_first_index... hands (array, BisectWrapper(array, predicate)) to the search and returns the index '
    "found, the distance / time helpers search shot.trajectory with `distance in the caller's unit >= query` "
    '/ `time >= query` and return the index found (engine D through recorders: a lambda, a named function or '
    'attrgetter are the same); the nearest search returns for every length >= 1 an index in range such that '
    'no neighbour is nearer to the target, the earlier row on ties, and -1 on an empty sequence (engine F; '
    'local optimality on a sorted sequence is global); the deviation test accepts a row exactly at the '
    'allowed deviation on either side, rejects one beyond it (also for a zero allowance) and passes the -1 of'
    ' an empty sequence on (sampling of the outcome tree)',
    'R2 a -1 result is tested before any use as a subscript: get_at_distance raises ArithmeticError, '
    'find_time_for_distance_in_shot returns NaN; no call site subscripts an unchecked look-up result',
    'R3 the apex helper hands the whole trajectory to its search, and the search - for every length - returns'
    ' the first row that is not lower than its successor of a single-peaked sequence (the highest row), with '
    'every index in range: proved from branch conditions and Houdini-inferred loop invariants by Fourier-'
    'Motzkin refutation (engine F, the rising-at-i predicate abstracted as a derived ascending sequence); '
    'counterexamples (wrong row, index out of range, non-termination) from a finite family of lengths and '
    'apex positions',
]
NOT_DECIDED = [
    '"exactly what a sequential scan finds" on arbitrary data: for non-decreasing keys the library bisect is '
    'read by its documented contract (first position whose element is not below the target), which is '
    'trusted, not analysed; hand-written searches are proved',
]

INDEX_FUNCS = {'index_at_distance', 'find_index_of_point_for_distance', 'find_index_for_time_point',
               'find_first_index_satisfying_monotonic_condition', 'bisect_for_monotonic_condition',
               'find_first_index_matching_condition', 'find_index_of_point_with_flag', 'find_mach_point_index',
               'find_touch_point_index', 'find_velocity_less_than_index'}


def _row(ev, st, prog):
    return C.mk_row(ev, st, prog, 'row_', {'distance': C.mk_quantity(ev, st, prog, 'Distance', 'x', 'Foot'), 'time': S('t')})


def _is_ge(ev, v, key_sym: str, q_sym: str) -> Optional[str]:
    """None when the guarded boolean is `increasing(key) - query >= 0`; otherwise what it is."""
    if not (isinstance(v, Cond) and isinstance(v.a, Const) and isinstance(v.b, Const)):
        return f'evaluates to {v!r}'
    t = v.test
    if not (v.a.value is True and v.b.value is False):
        return f'is inverted: {v!r}'
    if t.kind != 'nonneg':
        return f'normalises to {t!r}: not a >= comparison (a row equal to the query would be skipped)' if t.kind == 'pos' \
            else f'normalises to {t!r}'
    co = t.rf.coeffs_in(q_sym)
    if co is None or set(co) - {0, 1} or 1 not in co or not co[1].equals(A.rf(-1)):
        return f'normalises to {t!r}: not `key - query >= 0`'
    rest = co.get(0, A.rf(0))
    ck = rest.coeffs_in(key_sym)
    if ck is None or set(ck) - {0, 1} or 1 not in ck or not ck[1].is_const() or ck[1].const_value() <= 0 \
            or not ck.get(0, A.rf(0)).is_zero():
        return f'normalises to {t!r}: the key side is not an increasing function of the row\'s own {key_sym}'
    return None


def check_index_at_distance(prog: Program, rep, rule: str) -> bool:
    """index_at_distance decided for every trajectory length (engine F), whatever its shape - a generator scan, a loop,
    a bisection over the distances: on rows in non-decreasing distance the value returned is the index of the first row
    whose distance is at least the query, and -1 exactly when no row qualifies; every index is in range.  Row distance
    and query must be read on one scale (both as quantities, both raw, or both in one unit).  Returns True when the
    function was decided here (proved or refuted)."""
    from fractions import Fraction
    from .. import loopproof as L
    td = prog.module(C.M_TD)
    iad = prog.func(C.M_TD, 'HitResult.index_at_distance')
    me, qn = iad.positional[0], iad.positional[1]
    scales = set()

    def scale_of(e):
        """(base expression, scale tag) for  x | x.raw_value | float(x) | x >> U"""
        if isinstance(e, ast.Attribute) and e.attr == 'raw_value':
            return e.value, 'raw'
        if isinstance(e, ast.Call) and isinstance(e.func, ast.Name) and e.func.id == 'float' and len(e.args) == 1:
            return e.args[0], 'raw'
        if isinstance(e, ast.BinOp) and isinstance(e.op, ast.RShift):
            return e.left, 'in ' + norm(e.right)
        return e, 'quantity'

    def is_rows(e) -> bool:
        if isinstance(e, ast.Name) and e.id in row_aliases:
            return True
        return isinstance(e, ast.Attribute) and e.attr == 'trajectory' and isinstance(e.value, ast.Name) and e.value.id == me

    # locals that only name the row list (assigned once, from self.trajectory)
    row_aliases: set = set()
    stores: Dict[str, list] = {}
    for n in ast.walk(iad.node):
        if isinstance(n, ast.Name) and isinstance(n.ctx, ast.Store):
            stores.setdefault(n.id, []).append(n)
    for n in ast.walk(iad.node):
        if isinstance(n, (ast.Assign, ast.AnnAssign)) and n.value is not None:
            tg = n.targets if isinstance(n, ast.Assign) else [n.target]
            if len(tg) == 1 and isinstance(tg[0], ast.Name) and len(stores.get(tg[0].id, [])) == 1 and is_rows(n.value):
                row_aliases.add(tg[0].id)
    # module-level integer constants (a named sentinel)
    consts = {}
    for nm in {x.id for x in ast.walk(iad.node) if isinstance(x, ast.Name) and isinstance(x.ctx, ast.Load)} - set(stores) - set(iad.params):
        v_ = C.const_number(prog, td, nm)
        if v_ is not None and float(v_).is_integer():
            consts[nm] = int(v_)

    # locals that name the list of row distances: [row.distance<scale> for row in self.trajectory]
    aliases = {}
    for n in ast.walk(iad.node):
        if isinstance(n, ast.Assign) and len(n.targets) == 1 and isinstance(n.targets[0], ast.Name) \
                and isinstance(n.value, ast.ListComp) and len(n.value.generators) == 1 and not n.value.generators[0].ifs \
                and is_rows(n.value.generators[0].iter) and isinstance(n.value.generators[0].target, ast.Name):
            base, sc = scale_of(n.value.elt)
            if isinstance(base, ast.Attribute) and base.attr == 'distance' and isinstance(base.value, ast.Name) \
                    and base.value.id == n.value.generators[0].target.id:
                aliases[n.targets[0].id] = sc

    def array_of(e):
        if is_rows(e):
            return '$rows'
        if isinstance(e, ast.Name) and e.id in aliases:
            scales.add(('row', aliases[e.id]))
            return '$rows.distance'
        return None

    def scalar_of(e, tr):
        if isinstance(e, ast.Name) and e.id in consts:
            return ('int', consts[e.id])
        base, sc = scale_of(e)
        if isinstance(base, ast.Name) and base.id == qn:
            scales.add(('query', sc))
            return ('var', '$q')
        if isinstance(base, ast.Attribute) and base.attr == 'distance' and isinstance(base.value, ast.Subscript) \
                and is_rows(base.value.value) and not isinstance(base.value.slice, ast.Slice):
            scales.add(('row', sc))
            return ('elem', '$rows.distance', tr.expr(base.value.slice))
        return None

    roles = L.Roles(arrays={'$rows': None, '$rows.distance': 'nonstrict'}, reals=['$q'], same_length=[('$rows', '$rows.distance')],
                    array_of=array_of, scalar_of=scalar_of, skip_assign=list(aliases) + sorted(row_aliases))
    rep.assume('index_at_distance: rows in non-decreasing distance (the solver records them in order)')

    def goal(ab, st, tag, v, node):
        if tag != 'return':
            return []
        if v is None or v.kind != 'int':
            return [(L.F_, f'line {node.lineno}: the value returned is not an index')]
        r, q = v.lin, st.env['$q'].lin
        n_ = ab.len_of('$rows')
        zero, one = L.Lin.const(0), L.Lin.const(1)
        d_r = L.Lin.var(ab.pr.elem_term('$rows.distance', r))
        d_p = L.Lin.var(ab.pr.elem_term('$rows.distance', r - one))
        d_l = L.Lin.var(ab.pr.elem_term('$rows.distance', n_.plus(-1)))
        found = L.f_and(L.f_le(zero, r), L.f_le(r, n_.plus(-1)), L.f_le(q, d_r), L.f_or(L.f_eq(r, zero), L.f_lt(d_p, q)))
        none = L.f_and(L.f_eq(r, L.Lin.const(-1)), L.f_or(L.f_eq(n_, zero), L.f_lt(d_l, q)))
        return [(L.f_or(found, none), f'line {node.lineno}: the index returned is that of the first row with distance >= the '
                                      f'query, or -1 when the last row is short of it')]

    def inputs():
        for n in range(0, 6):
            shapes = [[Fraction(i) for i in range(n)]]
            if n >= 3:
                shapes.append([Fraction(0)] + [Fraction(1)] * (n - 2) + [Fraction(2)])     # a run of equal distances
            for dist in shapes:
                qs = {Fraction(-1), Fraction(n + 1)} | set(dist) | {x + Fraction(1, 2) for x in dist}
                for q in sorted(qs):
                    yield {'$rows': [None] * n, '$rows.distance': dist, '$q': q}

    def oracle(inp, c, outcome):
        dist, q = inp['$rows.distance'], inp['$q']
        where = f'row distances {[str(x) for x in dist]}, query {q}'
        if outcome[0] in ('raise', 'hang'):
            return f'{where}: {outcome[1]}'
        if outcome[0] != 'return':
            return f'{where}: nothing returned'
        want = next((i for i, x in enumerate(dist) if x >= q), -1)
        if outcome[1] != want:
            return f'{where}: returns {outcome[1]}, the first row at or beyond the query is {want}'
        return None

    try:
        res = L.analyse_search(iad.node, roles, goal, inputs(), oracle)
    except L.Unsupported as exc:
        rep.undecided(rule, iad.where, 'index_at_distance (engine F)', f'outside the fragment: {exc}')
        return False
    # a quantity compared as such is compared by its raw magnitude (C13.R2): 'quantity' and 'raw' are one scale
    row_sc = {('raw' if s_ == 'quantity' else s_) for k_, s_ in scales if k_ == 'row'}
    q_sc = {('raw' if s_ == 'quantity' else s_) for k_, s_ in scales if k_ == 'query'}
    if not row_sc or not q_sc:
        rep.undecided(rule, iad.where, 'index_at_distance (engine F)', 'the row distance / the query are not read in a spelling the rule knows')
        return False
    if len(row_sc) != 1 or row_sc != q_sc:
        rep.fail(rule, td.path, iad.node.lineno, iad.qualname, 'scale',
                 f'the row distance is read as {sorted(row_sc)} and the query as {sorted(q_sc)}: not one scale')
        return True
    rep.extra['index_at_distance_proof'] = {'loops': res.loop_info, 'prover_calls': res.prover_calls,
                                           'concrete_inputs': res.concrete_runs, 'concrete_inputs_not_readable': res.concrete_unknown,
                                           'obligations': [{'text': L.pretty(o.text), 'status': o.status} for o in res.obligations][:20]}
    unknown = [o for o in res.obligations if o.status != 'proved']
    if res.witnesses:
        rep.fail(rule, td.path, iad.node.lineno, iad.qualname, 'first-row',
                 'counterexample: ' + res.witnesses[0] + (f'; unproved: {L.pretty(unknown[0].text)}' if unknown else ''))
        return True
    if not [o for o in res.obligations if o.tag == 'return'] or res.concrete_unknown == res.concrete_runs:
        rep.undecided(rule, iad.where, 'index_at_distance (engine F)', 'not readable as an index search')
        return False
    for o in res.obligations:
        where = f'{td.path}:{getattr(o.node, "lineno", iad.node.lineno)}'
        if o.status == 'proved':
            rep.ok(rule, where, L.pretty(o.text))
        else:
            rep.undecided(rule, where, L.pretty(o.text), 'not proved and no counterexample in the finite family')
    return not unknown


def _engine_f_report(rep, rule, mod, func, res, L, what: str, key: str) -> bool:
    """Common reporting of an engine-F result.  True when every obligation is proved (or a counterexample was reported)."""
    rep.extra[f'{key}_proof'] = {'loops': res.loop_info, 'prover_calls': res.prover_calls, 'concrete_inputs': res.concrete_runs,
                                 'concrete_inputs_not_readable': res.concrete_unknown,
                                 'obligations': [{'text': L.pretty(o.text), 'status': o.status} for o in res.obligations][:20]}
    unknown = [o for o in res.obligations if o.status != 'proved']
    if res.witnesses:
        rep.fail(rule, mod.path, func.node.lineno, func.qualname, key,
                 'counterexample: ' + res.witnesses[0] + (f'; unproved: {L.pretty(unknown[0].text)}' if unknown else ''))
        return True
    if not [o for o in res.obligations if o.tag == 'return'] or (res.concrete_runs and res.concrete_unknown == res.concrete_runs):
        rep.undecided(rule, func.where, f'{what} (engine F)', 'not readable as an index search')
        return False
    for o in res.obligations:
        where = f'{mod.path}:{getattr(o.node, "lineno", func.node.lineno)}'
        if o.status == 'proved':
            rep.ok(rule, where, L.pretty(o.text))
        else:
            rep.undecided(rule, where, L.pretty(o.text), 'not proved and no counterexample in the finite family')
    return not unknown


def check_first_true_search(prog: Program, rep, rule: str) -> Optional[bool]:
    """bisect_for_monotonic_condition(arr, wrapper), whatever its shape (library bisect, a hand-written bisection, a
    scan): with wrapper[i] = check_condition(i) = p(arr[i]) (established separately for BisectWrapper) and p monotone
    (False ... True), the value returned is the first index with p true, or -1 when there is none, for every length;
    every index in range.  p(i) is modelled as key[i] >= q over a non-decreasing key sequence, which is exactly a
    monotone predicate.  None when the function is outside the fragment."""
    from fractions import Fraction
    from .. import loopproof as L
    hp = prog.module(C.M_HELP)
    bf = prog.func(C.M_HELP, 'bisect_for_monotonic_condition')
    arr_p, wr_p = bf.positional[0], bf.positional[1]

    def pred_index(e):
        """index expression when e is wrapper[i] / wrapper.check_condition(i) / wrapper.__getitem__(i)"""
        if isinstance(e, ast.Subscript) and isinstance(e.value, ast.Name) and e.value.id == wr_p and not isinstance(e.slice, ast.Slice):
            return e.slice
        if isinstance(e, ast.Call) and isinstance(e.func, ast.Attribute) and isinstance(e.func.value, ast.Name) \
                and e.func.value.id == wr_p and e.func.attr in ('check_condition', '__getitem__') and len(e.args) == 1 and not e.keywords:
            return e.args[0]
        if isinstance(e, ast.Call) and isinstance(e.func, ast.Name) and e.func.id == 'bool' and len(e.args) == 1:
            return pred_index(e.args[0])
        return None

    def scalar_of(e, tr):
        i = pred_index(e)
        if i is not None:
            return ('cmp', '>=', ('elem', '$key', tr.expr(i)), ('var', '$q'))
        if isinstance(e, ast.Compare) and len(e.ops) == 1:
            l, r_ = e.left, e.comparators[0]
            for a_, b_, flip in ((l, r_, False), (r_, l, True)):
                i = pred_index(a_)
                if i is not None and isinstance(b_, ast.Constant) and isinstance(b_.value, bool):
                    p_ = ('cmp', '>=', ('elem', '$key', tr.expr(i)), ('var', '$q'))
                    op = type(e.ops[0])
                    if flip:
                        op = {ast.Lt: ast.Gt, ast.Gt: ast.Lt, ast.LtE: ast.GtE, ast.GtE: ast.LtE}.get(op, op)
                    # p OP const, with False < True
                    table = {(ast.Lt, True): ('not', p_), (ast.GtE, True): p_, (ast.Eq, True): p_, (ast.Is, True): p_,
                             (ast.NotEq, True): ('not', p_), (ast.IsNot, True): ('not', p_),
                             (ast.Gt, False): p_, (ast.LtE, False): ('not', p_), (ast.Eq, False): ('not', p_),
                             (ast.Is, False): ('not', p_), (ast.NotEq, False): p_, (ast.IsNot, False): p_,
                             (ast.LtE, True): ('bool', True), (ast.GtE, False): ('bool', True),
                             (ast.Gt, True): ('bool', False), (ast.Lt, False): ('bool', False)}
                    return table.get((op, b_.value))
        if isinstance(e, ast.Call) and 2 <= len(e.args) <= 4 and not e.keywords:
            fn = e.func.attr if isinstance(e.func, ast.Attribute) else e.func.id if isinstance(e.func, ast.Name) else ''
            if fn in ('bisect_left', 'bisect_right', 'bisect') and isinstance(e.args[0], ast.Name) and e.args[0].id == wr_p:
                tgt = e.args[1]
                lo = tr.expr(e.args[2]) if len(e.args) > 2 else ('int', 0)
                hi = tr.expr(e.args[3]) if len(e.args) > 3 else ('len', '$key')
                if isinstance(tgt, ast.Constant) and ((fn == 'bisect_left' and tgt.value is True)
                                                      or (fn != 'bisect_left' and tgt.value is False)):
                    return ('bisect', 'left', '$key', ('var', '$q'), lo, hi)      # first index whose predicate is True
                return ('opaque', ast.unparse(e))
        return None

    def array_of(e):
        if isinstance(e, ast.Name) and e.id == wr_p:
            return '$key'
        return None
    roles = L.Roles(arrays={arr_p: None, '$key': 'nonstrict'}, reals=['$q'], same_length=[(arr_p, '$key')],
                    array_of=array_of, scalar_of=scalar_of)
    rep.assume('first-true search: the predicate is monotone over the array (False ... True), as the helper documents')

    def goal(ab, st, tag, v, node):
        if tag != 'return':
            return []
        if v is None or v.kind != 'int':
            return [(L.F_, f'line {node.lineno}: the value returned is not an index')]
        r, q = v.lin, st.env['$q'].lin
        n_ = ab.len_of('$key')
        zero, one = L.Lin.const(0), L.Lin.const(1)
        k_r = L.Lin.var(ab.pr.elem_term('$key', r))
        k_p = L.Lin.var(ab.pr.elem_term('$key', r - one))
        k_l = L.Lin.var(ab.pr.elem_term('$key', n_.plus(-1)))
        found = L.f_and(L.f_le(zero, r), L.f_le(r, n_.plus(-1)), L.f_le(q, k_r), L.f_or(L.f_eq(r, zero), L.f_lt(k_p, q)))
        none = L.f_and(L.f_eq(r, L.Lin.const(-1)), L.f_or(L.f_eq(n_, zero), L.f_lt(k_l, q)))
        return [(L.f_or(found, none), f'line {node.lineno}: the index returned is the first one whose predicate holds, or -1 '
                                      f'when none does')]

    def inputs():
        for n in range(0, 7):
            for first_true in range(0, n + 1):
                key = [Fraction(0) if i < first_true else Fraction(1) for i in range(n)]
                yield {arr_p: [None] * n, '$key': key, '$q': Fraction(1), '$first': first_true}

    def oracle(inp, c, outcome):
        n = len(inp['$key'])
        where = f'{n} rows, predicate true from row {inp["$first"]} on' if inp['$first'] < n else f'{n} rows, predicate never true'
        if outcome[0] in ('raise', 'hang'):
            return f'{where}: {outcome[1]}'
        if outcome[0] != 'return':
            return f'{where}: nothing returned'
        want = inp['$first'] if inp['$first'] < n else -1
        if outcome[1] != want:
            return f'{where}: returns {outcome[1]}, a sequential scan finds {want}'
        return None
    try:
        res = L.analyse_search(bf.node, roles, goal, inputs(), oracle)
    except L.Unsupported as exc:
        rep.note(f'bisect_for_monotonic_condition outside the fragment of engine F: {exc}')
        return None
    return _engine_f_report(rep, rule, hp, bf, res, L, 'bisect_for_monotonic_condition', 'first-true')


def check_nearest(prog: Program, rep, rule: str) -> Optional[bool]:
    """find_nearest_index_satisfying_monotonic_condition(arr, target, getter), whatever its shape: on keys in
    non-decreasing order the index returned is in range and is the row whose key is nearest to the target, the earlier
    row on ties (local optimality on both sides, which on a sorted sequence is global), for every length >= 1.
    None when engine F cannot read the function."""
    from fractions import Fraction
    from .. import loopproof as L
    hp = prog.module(C.M_HELP)
    nf = prog.func(C.M_HELP, 'find_nearest_index_satisfying_monotonic_condition')
    arr_p, tgt_p, get_p = nf.positional[0], nf.positional[1], nf.positional[2]

    def is_wrapper_call(e) -> bool:
        if not (isinstance(e, ast.Call) and (dotted(e.func) or '').split('.')[-1] == 'BisectWrapper'):
            return False
        a = [norm(x) for x in e.args] + [norm(k.value) for k in e.keywords]
        return a == [arr_p, get_p]
    stores: Dict[str, list] = {}
    for n in ast.walk(nf.node):
        if isinstance(n, ast.Name) and isinstance(n.ctx, ast.Store):
            stores.setdefault(n.id, []).append(n)
    aliases = set()
    for n in ast.walk(nf.node):
        if isinstance(n, (ast.Assign, ast.AnnAssign)) and n.value is not None:
            tg = n.targets if isinstance(n, ast.Assign) else [n.target]
            if len(tg) == 1 and isinstance(tg[0], ast.Name) and len(stores.get(tg[0].id, [])) == 1 and is_wrapper_call(n.value):
                aliases.add(tg[0].id)

    def array_of(e):
        if is_wrapper_call(e) or (isinstance(e, ast.Name) and e.id in aliases):
            return '$key'
        return None

    def scalar_of(e, tr):
        if isinstance(e, ast.Call) and isinstance(e.func, ast.Name) and e.func.id == get_p and len(e.args) == 1 and not e.keywords \
                and isinstance(e.args[0], ast.Subscript) and isinstance(e.args[0].value, ast.Name) and e.args[0].value.id == arr_p \
                and not isinstance(e.args[0].slice, ast.Slice):
            return ('elem', '$key', tr.expr(e.args[0].slice))
        return None
    roles = L.Roles(arrays={arr_p: None, '$key': 'nonstrict'}, reals=[tgt_p], same_length=[(arr_p, '$key')],
                    array_of=array_of, scalar_of=scalar_of, skip_assign=sorted(aliases))
    rep.assume('nearest search: keys in non-decreasing order')

    def goal(ab, st, tag, v, node):
        if tag != 'return':
            return []
        if v is None or v.kind != 'int':
            return [(L.F_, f'line {node.lineno}: the value returned is not an index')]
        r, q = v.lin, st.env[tgt_p].lin
        n_ = ab.len_of('$key')
        zero, one = L.Lin.const(0), L.Lin.const(1)
        k_r = L.Lin.var(ab.pr.elem_term('$key', r))
        k_p = L.Lin.var(ab.pr.elem_term('$key', r - one))
        k_n = L.Lin.var(ab.pr.elem_term('$key', r + one))
        two_q = q.scale(2)
        left = L.f_or(L.f_eq(r, zero), L.f_and(L.f_lt(k_p, k_r), L.f_lt(k_p + k_r, two_q)))
        right = L.f_or(L.f_eq(r, n_.plus(-1)), L.f_eq(k_n, k_r), L.f_le(two_q, k_r + k_n))
        some = L.f_and(L.f_le(zero, r), L.f_le(r, n_.plus(-1)), left, right)
        none = L.f_and(L.f_eq(n_, zero), L.f_eq(r, L.Lin.const(-1)))
        return [(L.f_or(some, none), f'line {node.lineno}: the index returned is in range and no neighbour is nearer to the target '
                                     f'(the earlier row on ties); -1 on an empty sequence')]

    def inputs():
        yield {arr_p: [], '$key': [], tgt_p: Fraction(1)}
        for n in range(1, 6):
            shapes = [[Fraction(2 * i) for i in range(n)]]
            if n >= 3:
                shapes.append([Fraction(0)] + [Fraction(2)] * (n - 2) + [Fraction(4)])
            for key in shapes:
                qs = {Fraction(-3), key[-1] + 3} | set(key) | {x + 1 for x in key} | {x + Fraction(1, 2) for x in key}
                for q in sorted(qs):
                    yield {arr_p: [None] * n, '$key': key, tgt_p: q}

    def oracle(inp, c, outcome):
        key, q = inp['$key'], inp[tgt_p]
        where = f'keys {[str(x) for x in key]}, target {q}'
        if outcome[0] in ('raise', 'hang'):
            return f'{where}: {outcome[1]}'
        if outcome[0] != 'return':
            return f'{where}: nothing returned'
        want = min(range(len(key)), key=lambda i: (abs(key[i] - q), i)) if key else -1
        if outcome[1] != want:
            return f'{where}: returns {outcome[1]}, the nearest row (earlier on ties) is {want}'
        return None
    try:
        res = L.analyse_search(nf.node, roles, goal, inputs(), oracle)
    except L.Unsupported as exc:
        rep.note(f'find_nearest_index_satisfying_monotonic_condition outside the fragment of engine F: {exc}')
        return None
    return _engine_f_report(rep, rule, hp, nf, res, L, 'nearest search', 'nearest')


def check_wrapper_and_wiring(prog: Program, rep, rule: str) -> None:
    """Engine D: BisectWrapper exposes the predicate of the element; find_first_index_satisfying_monotonic_condition
    hands (arr, BisectWrapper(arr, predicate)) to the search and returns what it finds; the distance / time helpers
    search shot.trajectory with `distance in the caller's unit >= query` / `time >= query` and return the index found."""
    hp = prog.module(C.M_HELP)
    ctx = Ctx(hp, None, None, 0)
    bw = prog.cls(C.M_HELP, 'BisectWrapper')
    ev = Evaluator(prog, hooks=C.pref_hooks(prog))
    st = State()
    try:
        w = ev.construct(bw, [SymObj('arr'), SymObj('pred')], {}, st, ctx)
        env = {'w': w, 'arr': SymObj('arr'), 'pred': SymObj('pred'), 'i': S('i')}
        want_p = ev.describe(ev.eval_text('pred(arr[i])', dict(env), hp, st))
        want_l = ev.describe(ev.eval_text('len(arr)', dict(env), hp, st))
        got = {'wrapper[i]': ev.describe(ev.eval_text('w[i]', dict(env), hp, st)),
               'len(wrapper)': ev.describe(ev.eval_text('len(w)', dict(env), hp, st))}
        if 'check_condition' in bw.methods:
            got['wrapper.check_condition(i)'] = ev.describe(ev.eval_text('w.check_condition(i)', dict(env), hp, st))
    except Undecided as exc:
        raise AnalysisError(f'BisectWrapper: {exc}') from exc
    bad = [f'{k} is {v}' for k, v in got.items() if v != (want_l if k.startswith('len') else want_p)]
    if bad:
        rep.fail(rule, hp.path, bw.node.lineno, 'BisectWrapper', 'wrapper', '; '.join(bad) + f' (expected {want_p} / {want_l})')
    else:
        rep.ok(rule, f'{hp.path}:{bw.node.lineno}', 'BisectWrapper[i] = predicate(array[i]), len = len(array)')

    # find_first_index_satisfying_monotonic_condition
    ff = prog.func(C.M_HELP, 'find_first_index_satisfying_monotonic_condition')
    rep.saw(ff)
    seen = []

    def h_search(ev_, func, args, kwargs, st_, self_val):
        a = list(args) + [kwargs[k] for k in func.positional[len(args):] if k in kwargs]
        seen.append((a, st_))
        return SymObj('search@result')
    ev1 = Evaluator(prog, hooks={'call:bisect_for_monotonic_condition': h_search})
    try:
        r, _st = ev1.call_value(ff, [SymObj('arr'), SymObj('pred')])
    except Undecided as exc:
        raise AnalysisError(f'{ff.qualname}: {exc}') from exc
    outs = [x for _p, x in cond_leaves(r)]
    problems = []
    if not seen:
        raise AnalysisError(f'{ff.qualname} does not reach bisect_for_monotonic_condition in the abstract evaluation')
    for a, st_ in seen:
        arr_ok = len(a) == 2 and isinstance(a[0], SymObj) and a[0].path == 'arr'
        wr = a[1] if len(a) == 2 else None
        wr_ok = isinstance(wr, Inst) and wr.cls is bw
        if wr_ok:
            h = ev1.hp(st_, wr.oid)
            wr_ok = all(isinstance(x, SymObj) for x in (h.get('array'), h.get('callable'))) and h['array'].path == 'arr' \
                and h['callable'].path == 'pred'
        if not arr_ok:
            problems.append(f'searches {ev1.describe(a[0]) if a else None}, not the array it was given')
        if not wr_ok:
            problems.append('the wrapper handed to the search is not BisectWrapper(the same array, the given predicate)')
    if not all(isinstance(x, SymObj) and x.path == 'search@result' for x in outs):
        problems.append(f'returns {outs[0]!r}, not the index found')
    if problems:
        rep.fail(rule, hp.path, ff.node.lineno, ff.qualname, 'wrap', '; '.join(sorted(set(problems))))
    else:
        rep.ok(rule, ff.where, 'find_first_index...: wraps the same array with the given predicate and returns the index found')

    # the distance / time helpers
    for fname, key, what in (('find_index_of_point_for_distance', 'x', 'distance'), ('find_index_for_time_point', 't', 'time')):
        f = prog.func(C.M_HELP, fname)
        rep.saw(f)
        problems = []
        n_checked = 0
        units = ('Meter', 'Yard') if key == 'x' else (None,)
        for uname in units:
            calls = []

            def h_first(ev_, func, args, kwargs, st_, self_val):
                a = list(args) + [kwargs[k] for k in func.positional[len(args):] if k in kwargs]
                if len(a) != 2:
                    raise Undecided('call of the search')
                st2 = st_.copy()
                row = _row(ev_, st2, prog)
                calls.append((a[0], ev_.lift(lambda p_: ev_.call(p_, [row], {}, st2, Ctx(hp, f, None, 1)), a[1])))
                return SymObj('first@result')

            def h_near(ev_, func, args, kwargs, st_, self_val):
                return SymObj('nearest@result')
            ev2 = Evaluator(prog, hooks={'call:find_first_index_satisfying_monotonic_condition': h_first,
                                         'call:find_nearest_index_satisfying_monotonic_condition': h_near,
                                         **C.pref_hooks(prog)})
            env = {f.positional[0]: SymObj('shot'), f.positional[1]: S('q')}
            if key == 'x' and len(f.positional) > 2:
                env[f.positional[2]] = C.enum_val(prog, uname)
            if key == 't' and len(f.positional) > 2:
                env[f.positional[2]] = TRUE_
                for p_ in f.positional[3:]:
                    env[p_] = S('dev')
            try:
                tree, _st = ev2.run_func(f, env)
            except Undecided as exc:
                raise AnalysisError(f'{fname}: {exc}') from exc
            for _path, leaf in leaves(tree):
                if leaf.kind == 'raise':
                    continue
                vals = [x for _p, x in cond_leaves(leaf.value)] if leaf.value is not None else [None]
                if leaf.kind != 'return' or not all(isinstance(x, SymObj) and x.path == 'first@result' for x in vals):
                    problems.append(f'returns {leaf.value!r} on some path, not the index found by the search')
            if not calls:
                raise AnalysisError(f'{fname} does not reach find_first_index_satisfying_monotonic_condition in the abstract '
                                    f'evaluation')
            for arr, v in calls:
                n_checked += 1
                if not (isinstance(arr, SymObj) and arr.path == 'shot.trajectory'):
                    problems.append(f'searches {ev2.describe(arr)}, not the shot\'s trajectory')
                why = _is_ge(ev2, v, key, 'q')
                if why is None and key == 'x':
                    want_key = C.read_raw_in(ev2, prog, 'Distance', 'x', uname)
                    if not (isinstance(v, Cond) and v.test.rf is not None and v.test.rf.equals(want_key - A.sym('q'))):
                        why = (f'does not read the row distance in the caller\'s unit: with unit {uname} it tests '
                               f'{getattr(v, "test", v)!r}, expected {want_key!r} - q >= 0')
                if why:
                    problems.append(f'the {what} predicate {why}')
        if problems:
            rep.fail(rule, hp.path, f.node.lineno, f.qualname, f'{fname}:predicate', f'{fname}: ' + '; '.join(sorted(set(problems))[:3]))
        else:
            rep.ok(rule, f.where, f'{fname}: predicate is `{what} >= query` over shot.trajectory ({n_checked} evaluations), the index '
                   f'found is returned')


def _first_true_by_form(prog: Program, rep, ev, hp, bf, bw) -> None:
    """Fallback when engine F cannot read the function: the library-bisect form, read by engine D."""
    # ---- bisect_for_monotonic_condition ----------------------------------------------------------------
    bcalls = [c for c in ast.walk(bf.node) if isinstance(c, ast.Call) and (dotted(c.func) or '').startswith('bisect.')]
    problems = []
    if len(bcalls) != 1:
        raise AnalysisError('bisect_for_monotonic_condition: neither readable by engine F nor of the one-bisect-call form')
    else:
        c = bcalls[0]
        kind = dotted(c.func).split('.')[-1]
        a = [norm(x) for x in c.args]
        arr, wr = bf.positional[0], bf.positional[1]
        ok = (kind == 'bisect_left' and a[:2] == [wr, 'True']) or (kind in ('bisect_right', 'bisect') and a[:2] == [wr, 'False'])
        if not ok:
            problems.append(f'`{norm(c)}` does not locate the first True of the predicate sequence')
        if len(a) >= 3 and a[2] != '0':
            problems.append(f'search starts at {a[2]}')
        if len(a) >= 4 and a[3] != f'len({arr})':
            problems.append(f'search ends at {a[3]}')
    st = State()
    wrapper = ev.new_inst(st, bw, {'array': SymObj('arr'), 'callable': SymObj('pred')})
    try:
        r, st = ev.call_value(bf, [SymObj('arr'), wrapper], st=st)
    except Undecided as exc:
        raise AnalysisError(f'bisect_for_monotonic_condition: {exc}') from exc
    idx = 'bisect_left@result' if bcalls and dotted(bcalls[0].func).endswith('bisect_left') else 'bisect_right@result'
    for path, leaf in cond_leaves(r):
        beyond = any(t.kind == 'nonneg' and t.rf is not None and t.rf.equals(A.sym(idx) - A.sym('len(arr)')) and pol
                     for t, pol in path)
        pred_true = any(t.kind == 'truthy' and 'pred' in t.key and pol for t, pol in path)
        pred_false = any(t.kind == 'truthy' and 'pred' in t.key and not pol for t, pol in path)
        is_idx = isinstance(leaf, SymObj) and leaf.path == idx
        is_m1 = isinstance(leaf, Scalar) and leaf.rf.equals(A.rf(-1))
        if beyond and not is_m1:
            problems.append('an index beyond the array is not turned into -1')
        if not beyond and pred_true and not is_idx:
            problems.append('a qualifying index is not returned')
        if not beyond and pred_false and not is_m1:
            problems.append('an index whose predicate is false is not turned into -1')
        if not beyond and not pred_true and not pred_false:
            problems.append('the found index is returned without re-checking the predicate')
    if problems:
        rep.fail('C20.R1', hp.path, bf.node.lineno, bf.qualname, 'bisect', '; '.join(sorted(set(problems))))
    else:
        rep.ok('C20.R1', bf.where, 'first True by bisect over [0, len), -1 when beyond the array or predicate false')


def _nearest_by_form(prog: Program, rep, ev, hp, nf) -> None:
    """Fallback when engine F cannot read the function: the bisect_left + neighbour-comparison form, read by engine D."""
    st = State()
    try:
        r, st = ev.call_value(nf, [SymObj('arr'), S('q'), SymObj('g')], st=st)
    except Undecided as exc:
        raise AnalysisError(f'nearest index: {exc}') from exc
    pos = A.sym('bisect_left@result')
    problems = []
    bc = [c for c in ast.walk(nf.node) if isinstance(c, ast.Call) and (dotted(c.func) or '').startswith('bisect.')]
    if len(bc) != 1 or dotted(bc[0].func) != 'bisect.bisect_left' or len(bc[0].args) != 2 \
            or norm(bc[0].args[0]) != f'BisectWrapper({nf.positional[0]}, {nf.positional[2]})' \
            or norm(bc[0].args[1]) != nf.positional[1]:
        raise AnalysisError('nearest search: neither readable by engine F nor of the bisect_left form')
    # the two neighbour keys are the symbols g(arr[pos-1]) and g(arr[pos]) appearing in the guards
    gsyms = set()
    for path, leaf in cond_leaves(r):
        for t, pol in path:
            if t.rf is not None:
                gsyms |= {x for x in t.rf.symbols() if x.startswith('g(')}
    before_s = [x for x in gsyms if repr(pos - 1) in x]
    after_s = [x for x in gsyms if x not in before_s]
    seen_tie = len(before_s) == 1 and len(after_s) == 1
    # end cases
    def leaf_at(env):
        for path, leaf in cond_leaves(r):
            ok = True
            for t, pol in path:
                if t.rf is None:
                    continue
                try:
                    x = t.rf.evalf(env)
                except (KeyError, ZeroDivisionError, ValueError):
                    continue
                if {'nz': x != 0, 'pos': x > 0, 'nonneg': x >= 0}[t.kind] != pol:
                    ok = False
            if ok:
                return leaf
        return None
    if seen_tie:
        # ordering enumeration: tie, earlier nearer, later nearer (pos = 2 of 5)
        for label, bv, av, want_off in (('tie', 1.0, 3.0, -1), ('earlier row nearer', 1.5, 3.0, -1), ('later row nearer', 1.0, 2.5, 0)):
            lf = leaf_at({'bisect_left@result': 2.0, 'len(arr)': 5.0, before_s[0]: bv, after_s[0]: av, 'q': 2.0})
            if isinstance(lf, SymObj):
                lf = Scalar(A.sym(lf.path))
            if not (isinstance(lf, Scalar) and lf.rf.equals(pos + want_off)):
                problems.append(f'{label}: returns {lf!r}, expected {"the earlier row" if want_off else "the later row"}')
    l0 = leaf_at({'bisect_left@result': 0.0, 'len(arr)': 5.0})
    ln = leaf_at({'bisect_left@result': 5.0, 'len(arr)': 5.0})
    if not (isinstance(l0, Scalar) and l0.rf.is_zero()):
        problems.append(f'position 0 yields {l0!r}, expected row 0')
    if not (isinstance(ln, Scalar) and ln.rf.equals(A.sym('len(arr)') - 1)):
        problems.append(f'position len yields {ln!r}, expected the last row')
    if problems:
        rep.fail('C20.R1', hp.path, nf.node.lineno, nf.qualname, 'nearest', '; '.join(sorted(set(problems))))
    else:
        rep.ok('C20.R1', nf.where, 'nearest: bisect_left on the key, neighbours compared with <= (earlier row wins ties)')


def check_apex(prog: Program, rep, rule: str) -> None:
    """The apex helper.  (a) find_index_of_apex_point hands the whole trajectory to the search (engine D).  (b) The
    search itself (engine F): on a single-peaked sequence - `h[i] < h[i+1]` true up to some row and false from there
    on - the index returned is the first row that is not lower than its successor, i.e. the highest row; every index
    is in range; an empty sequence gives -1.  The predicate `rising at i` is abstracted as s[i] < 0 over a derived
    ascending sequence s of length n-1, which is exactly single-peakedness."""
    from fractions import Fraction
    from .. import loopproof as L
    hp = prog.module(C.M_HELP)
    if not prog.has_func(C.M_HELP, 'find_index_of_apex_in_points') or not prog.has_func(C.M_HELP, 'find_index_of_apex_point'):
        raise AnalysisError('the apex helpers vanished')
    wrap = prog.func(C.M_HELP, 'find_index_of_apex_point')
    srch = prog.func(C.M_HELP, 'find_index_of_apex_in_points')
    rep.saw(wrap)
    rep.saw(srch)
    # (a) the wrapper
    got: List[object] = []

    def h_search(ev_, func, args, kwargs, st_, self_val):
        got.append(args[0] if args else next(iter(kwargs.values()), None))
        return SymObj('apex@result')
    evw = Evaluator(prog, hooks={f'call:{srch.qualname}': h_search})
    try:
        r, _st = evw.call_value(wrap, [SymObj('shot')])
        outs = [x for _p, x in cond_leaves(r)]
        whole = all(isinstance(a_, SymObj) and a_.path == 'shot.trajectory' for a_ in got)
        passed = all(isinstance(x, SymObj) and x.path == 'apex@result' for x in outs)
        if got and whole and passed:
            rep.ok(rule, wrap.where, 'find_index_of_apex_point searches the whole trajectory and returns the index found')
        elif got and not whole:
            bad = next(a_ for a_ in got if not (isinstance(a_, SymObj) and a_.path == 'shot.trajectory'))
            rep.fail(rule, hp.path, wrap.node.lineno, wrap.qualname, 'apex-window',
                     f'find_index_of_apex_point searches {bad!r} on some path, not the whole trajectory: a highest row '
                     f'outside that window is never returned')
        else:
            # a path that answers without the search: acceptable only when decided from the rows themselves
            foreign = []
            for path_, x in cond_leaves(r):
                if isinstance(x, SymObj) and x.path == 'apex@result':
                    continue
                for t_, _pol in path_:
                    names_ = set(t_.rf.symbols()) if t_.rf is not None else {t_.key}
                    foreign += [n_ for n_ in names_ if 'shot.trajectory' not in n_]
            if foreign:
                rep.fail(rule, hp.path, wrap.node.lineno, wrap.qualname, 'apex-shortcut',
                         f'find_index_of_apex_point answers {[repr(x) for x in outs if not (isinstance(x, SymObj) and x.path == "apex@result")][0]} '
                         f'without searching, decided from `{foreign[0]}`, which is not a row of the trajectory: the result object '
                         f'keeps the caller\'s live shot, so the answer for an old result changes when the shot is changed afterwards')
            else:
                rep.undecided(rule, wrap.where, 'apex wrapper', f'returns {outs!r}: not the index found by the search')
    except Undecided as exc:
        rep.undecided(rule, wrap.where, 'apex wrapper', f'not readable by engine D: {exc}')
    # (b) the search
    tp = srch.positional[0]

    def hook(node: ast.Compare, tr):
        if len(node.ops) != 1:
            return None
        l, r_ = node.left, node.comparators[0]

        def height_at(e):
            if isinstance(e, ast.Attribute) and e.attr == 'height' and isinstance(e.value, ast.Subscript) \
                    and isinstance(e.value.value, ast.Name) and e.value.value.id == tp:
                return e.value.slice
            return None
        i, j = height_at(l), height_at(r_)
        if i is None or j is None:
            return None
        up = ('cmp', '<', ('elem', '$rise', tr.expr(i)), ('int', 0))          # h[i] < h[i+1]
        if norm(j) in (f'{norm(i)} + 1', f'1 + {norm(i)}'):
            table = {ast.Lt: up, ast.GtE: ('not', up)}
        elif norm(i) in (f'{norm(j)} + 1', f'1 + {norm(j)}'):
            up = ('cmp', '<', ('elem', '$rise', tr.expr(j)), ('int', 0))
            table = {ast.Gt: up, ast.LtE: ('not', up)}
        else:
            return None
        return table.get(type(node.ops[0]))      # <= / > between neighbours differ from the predicate on plateaus: not abstracted

    roles = L.Roles(arrays={tp: None, '$rise': 'nonstrict'}, len_offset={'$rise': (tp, -1)}, min_len={tp: 1},
                    compare_hook=hook)
    rep.assume('apex search: the sequence is single-peaked (h[i] < h[i+1] holds up to some row and fails from there on); '
               'among equal highest rows the first is the one asked for')

    def goal(ab, st, tag, v, node):
        if tag != 'return':
            return []
        if v is None or v.kind != 'int':
            return [(L.F_, f'line {node.lineno}: the value returned is not an index')]
        r_ = v.lin
        n_ = ab.len_of(tp)
        zero, one = L.Lin.const(0), L.Lin.const(1)
        before = L.Lin.var(ab.pr.elem_term('$rise', r_ - one))
        at = L.Lin.var(ab.pr.elem_term('$rise', r_))
        g = L.f_and(L.f_le(zero, r_), L.f_le(r_, n_.plus(-1)),
                    L.f_or(L.f_eq(r_, zero), L.f_lt(before, zero)),
                    L.f_or(L.f_eq(r_, n_.plus(-1)), L.f_le(zero, at)))
        return [(g, f'line {node.lineno}: the index returned is the first row not lower than its successor (the highest row)')]

    def inputs():
        yield {tp: [], '$rise': []}
        for n in range(1, 9):
            for p_ in range(n):                       # apex at row p_
                rise = [Fraction(-1) if i < p_ else Fraction(1) for i in range(n - 1)]
                yield {tp: [None] * n, '$rise': rise, '$apex': p_}

    def oracle(inp, c, outcome):
        n = len(inp[tp])
        where = f'{n} rows, apex at row {inp.get("$apex")}'
        if outcome[0] in ('raise', 'hang'):
            return f'{where}: {outcome[1]}'
        if outcome[0] != 'return':
            return f'{where}: no index returned'
        want = -1 if n == 0 else inp['$apex']
        if outcome[1] != want:
            return f'{where}: returns {outcome[1]}, the highest row is {want}'
        return None

    try:
        res = L.analyse_search(srch.node, roles, goal, inputs(), oracle)
    except L.Unsupported as exc:
        rep.undecided(rule, srch.where, 'apex search', f'outside the fragment engine F reads: {exc}')
        return
    rep.extra['apex_proof'] = {'loops': res.loop_info, 'invariants': list(res.invariants.values()),
                               'prover_calls': res.prover_calls, 'concrete_inputs': res.concrete_runs,
                               'concrete_inputs_not_readable': res.concrete_unknown,
                               'obligations': [{'text': L.pretty(o.text), 'status': o.status} for o in res.obligations][:30]}
    unknown = [o for o in res.obligations if o.status != 'proved']
    if res.witnesses:
        rep.fail(rule, hp.path, srch.node.lineno, srch.qualname, 'apex-search',
                 'counterexample: ' + res.witnesses[0] + (f'; unproved: {L.pretty(unknown[0].text)}' if unknown else ''))
        return
    if not [o for o in res.obligations if o.tag == 'return']:
        rep.undecided(rule, srch.where, 'apex search', 'no return site reached in the abstract reading')
    for o in res.obligations:
        where = f'{hp.path}:{getattr(o.node, "lineno", srch.node.lineno)}'
        if o.status == 'proved':
            rep.ok(rule, where, L.pretty(o.text))
        else:
            rep.undecided(rule, where, L.pretty(o.text), 'not proved from the inferred invariants and no counterexample in the finite family')


def run(prog: Program, rep, thorough: bool) -> None:
    A.reset()
    rep.rule('C20.R3', 'apex helper: whole trajectory searched; the search returns the highest row of a single-peaked sequence', 2)
    check_apex(prog, rep, 'C20.R3')
    rep.rule('C20.R1', 'look-ups are first-qualifying searches over >= predicates', 7)
    rep.rule('C20.R2', 'sentinel discipline', 3)
    td = prog.module(C.M_TD)
    hp = prog.module(C.M_HELP)

    def bisect_hook(name):
        def h(ev_, fv, args, kwargs, st):
            return SymObj(f'{name}@result')
        return h
    ev = Evaluator(prog, hooks={'ext:bisect.bisect_left': bisect_hook('bisect_left'),
                                'ext:bisect.bisect_right': bisect_hook('bisect_right'),
                                'ext:bisect.bisect': bisect_hook('bisect_right'),
                                **C.pref_hooks(prog)})

    # ---- index_at_distance -------------------------------------------------------------------
    iad = prog.func(C.M_TD, 'HitResult.index_at_distance')
    rep.saw(iad)
    decided_by_f = check_index_at_distance(prog, rep, 'C20.R1')
    problems = []
    gens = [n for n in ast.walk(iad.node) if isinstance(n, ast.GeneratorExp)]
    loops = [n for n in ast.walk(iad.node) if isinstance(n, ast.For)]
    pred = idx_var = order_ok = default_ok = None
    if decided_by_f:
        pass                # decided as a whole, for every length, by engine F above
    elif gens and not loops:
        g = gens[0]
        nxt = parent(g)
        if not (isinstance(nxt, ast.Call) and (dotted(nxt.func) or '') == 'next' and len(nxt.args) == 2):
            raise AnalysisError('index_at_distance: a generator that is not consumed by next(..., default), and engine F cannot read the function')
        else:
            default_ok = norm(nxt.args[1]) in ('-1',)
        comp = g.generators[0]
        pred = comp.ifs[0] if len(comp.ifs) == 1 else None
        it = norm(comp.iter)
        if it == 'range(len(self.trajectory))' and isinstance(comp.target, ast.Name):
            idx_var, order_ok, elt_ok = comp.target.id, True, norm(g.elt) == comp.target.id
            row_expr = f'self.trajectory[{idx_var}]'
        elif it == 'enumerate(self.trajectory)' and isinstance(comp.target, ast.Tuple):
            idx_var, order_ok = comp.target.elts[0].id, True
            elt_ok = norm(g.elt) == idx_var
            row_expr = comp.target.elts[1].id
        elif it in ('reversed(range(len(self.trajectory)))', 'range(len(self.trajectory) - 1, -1, -1)', 'reversed(self.trajectory)'):
            order_ok, elt_ok, row_expr = False, False, None
            problems.append(f'iterates `{it}`: not an ascending scan over all rows')
        else:
            raise AnalysisError(f'index_at_distance iterates `{it[:60]}`: neither a scan the rule knows nor readable by engine F')
        if not elt_ok and order_ok:
            problems.append(f'yields `{norm(g.elt)}` instead of the index')
    elif loops:
        lp = loops[0]
        it = norm(lp.iter)
        if it == 'range(len(self.trajectory))':
            idx_var, order_ok, row_expr = lp.target.id, True, f'self.trajectory[{lp.target.id}]'
        elif it == 'enumerate(self.trajectory)':
            idx_var, order_ok, row_expr = lp.target.elts[0].id, True, lp.target.elts[1].id
        else:
            problems.append(f'iterates `{it}`: not an ascending scan over all rows')
            row_expr = None
        ifs = [s for s in lp.body if isinstance(s, ast.If)]
        pred = ifs[0].test if len(ifs) == 1 else None
        rets = [r for r in ast.walk(iad.node) if isinstance(r, ast.Return)]
        default_ok = any(norm(r.value) == '-1' for r in rets if r.lineno > lp.lineno)
        if ifs and not any(isinstance(x, ast.Return) and norm(x.value) == idx_var for x in ifs[0].body):
            problems.append('the loop does not return the index of the first qualifying row')
    elif not decided_by_f:
        raise AnalysisError('index_at_distance is neither a generator scan nor a loop, and engine F cannot read it')
    if pred is not None and row_expr is not None:
        st = State()
        row = _row(ev, st, prog)
        d = C.mk_quantity(ev, st, prog, 'Distance', 'q', 'Yard')
        # bind whatever the predicate uses for the row
        st.env[iad.positional[1]] = d
        st.env[iad.positional[0]] = SymObj('self', prog.cls(C.M_TD, 'HitResult'))
        # statements before the scan (locals the predicate reads)
        pre_stmts = []
        for s_ in iad.node.body:
            if isinstance(s_, (ast.Return, ast.For, ast.While)) or any(isinstance(x, ast.GeneratorExp) for x in ast.walk(s_)):
                break
            pre_stmts.append(s_)
        try:
            t_pre = ev.exec_block(pre_stmts, st, Ctx(td, iad, None, 0))
            if isinstance(t_pre, Leaf):
                st = t_pre.state
        except Undecided as exc:
            raise AnalysisError(f'index_at_distance: {exc}') from exc
        txt = norm(pred)
        if row_expr.startswith('self.trajectory['):
            class _Sub(ast.NodeTransformer):
                def visit_Subscript(self, n):
                    if norm(n) == row_expr:
                        return ast.Name(id='__row__', ctx=ast.Load())
                    return self.generic_visit(n)
            pred2 = ast.fix_missing_locations(_Sub().visit(ast.parse(txt, mode='eval').body))
            st.env['__row__'] = row
        else:
            pred2 = pred
            st.env[row_expr] = row
        try:
            v = ev.eval(pred2, st, Ctx(td, iad, None, 0))
            why = _is_ge(ev, v, 'x', 'q')
            if why:
                problems.append(f'the scan predicate `{txt}` {why}')
        except Undecided as exc:
            raise AnalysisError(f'index_at_distance predicate: {exc}') from exc
    elif not problems and not decided_by_f:
        problems.append('scan predicate not found')
    if default_ok is False:
        problems.append('the default is not -1')
    if decided_by_f and pred is None and not problems:
        pass            # another shape, decided as a whole by engine F above
    elif problems:
        rep.fail('C20.R1', td.path, iad.node.lineno, iad.qualname, 'index_at_distance', '; '.join(problems))
    else:
        rep.ok('C20.R1', iad.where, 'ascending scan, first i with distance >= d, default -1')

    # ---- helper chain ------------------------------------------------------------------------------
    check_wrapper_and_wiring(prog, rep, 'C20.R1')
    bf = prog.func(C.M_HELP, 'bisect_for_monotonic_condition')
    rep.saw(bf)
    bw = prog.cls(C.M_HELP, 'BisectWrapper')
    proved = check_first_true_search(prog, rep, 'C20.R1')
    if proved is None:
        _first_true_by_form(prog, rep, ev, hp, bf, bw)

    # ---- nearest time ----------------------------------------------------------------------------------
    nf = prog.func(C.M_HELP, 'find_nearest_index_satisfying_monotonic_condition')
    rep.saw(nf)
    if check_nearest(prog, rep, 'C20.R1') is None:
        _nearest_by_form(prog, rep, ev, hp, nf)
    # deviation test in find_index_for_time_point: by evaluation with the nearest search replaced by an index symbol,
    # then sampling (row exactly at the allowed deviation, inside, outside, on either side; the empty-sequence -1)
    ft = prog.func(C.M_HELP, 'find_index_for_time_point')
    evd = Evaluator(prog, hooks={'call:find_nearest_index_satisfying_monotonic_condition': lambda *a_: S('n'),
                                 'call:find_first_index_satisfying_monotonic_condition': lambda *a_: S('f'),
                                 **C.pref_hooks(prog)})
    if len(ft.positional) < 4:
        raise AnalysisError('find_index_for_time_point lost its parameters')
    env = {ft.positional[0]: SymObj('shot'), ft.positional[1]: S('q'), ft.positional[2]: Const(False), ft.positional[3]: S('dev')}
    try:
        tree, _st = evd.run_func(ft, env)
    except Undecided as exc:
        raise AnalysisError(f'find_index_for_time_point: {exc}') from exc
    row_syms = set()
    for path_, _leaf in leaves(tree):
        for t_, _pol in path_:
            if t_.rf is not None:
                row_syms |= {x for x in t_.rf.symbols() if x not in ('q', 'dev', 'n', 'f')}
    if len(row_syms) != 1:
        raise AnalysisError(f'find_index_for_time_point: the time of the row found is not one symbol of the outcome tree: {sorted(row_syms)}')
    tsym = next(iter(row_syms))
    samples = [('a row exactly at the allowed deviation (later than the query)', 5.0, 4.0, 1.0, True),
               ('a row exactly at the allowed deviation (earlier than the query)', 3.0, 4.0, 1.0, True),
               ('a row inside the allowed deviation', 5.0, 4.75, 0.5, True),
               ('a row at the query with zero allowed deviation', 4.0, 4.0, 0.0, True),
               ('a row off the query with zero allowed deviation', 5.0, 4.0, 0.0, False),
               ('a row beyond the allowed deviation (later)', 5.0, 4.0, 0.5, False),
               ('a row beyond the allowed deviation (earlier)', 3.0, 4.0, 0.5, False)]
    dev_bad = []
    for label, tr_, q_, d_, accept in samples:
        for n_ in (0.0, 3.0):
            lf = reachable_leaves(tree, {tsym: tr_, 'q': q_, 'dev': d_, 'n': n_})
            vals = [x for l_ in lf if l_.kind == 'return' and l_.value is not None for _p, x in cond_leaves(l_.value)]
            if len(vals) != len(lf) or not vals:
                dev_bad.append(f'{label}: no value returned')
            elif accept and not all(isinstance(x, Scalar) and x.rf.equals(A.sym('n')) for x in vals):
                dev_bad.append(f'{label}: returns {vals[0]!r}, expected the row found')
            elif not accept and not all(isinstance(x, Scalar) and x.rf.equals(A.rf(-1)) for x in vals):
                dev_bad.append(f'{label}: returns {vals[0]!r}, expected -1')
    lf = reachable_leaves(tree, {'q': 4.0, 'dev': 1.0, 'n': -1.0})
    vals = [x for l_ in lf if l_.kind == 'return' and l_.value is not None for _p, x in cond_leaves(l_.value)]
    if len(vals) != len(lf) or not all(isinstance(x, Scalar) and x.rf.equals(A.rf(-1)) for x in vals):
        dev_bad.append('the -1 of an empty sequence is not passed on (it would be used as a subscript)')
    if dev_bad:
        rep.fail('C20.R1', hp.path, ft.node.lineno, ft.qualname, 'deviation', 'nearest-time look-up: ' + '; '.join(sorted(set(dev_bad))[:3]))
    else:
        rep.ok('C20.R1', ft.where, f'deviation test is `|t_row - t| <= allowed deviation` ({2 * len(samples) + 1} sample orderings); -1 passed on')

    # ---- R2 ------------------------------------------------------------------------------------------------
    gad = prog.func(C.M_TD, 'HitResult.get_at_distance')
    rep.saw(gad)
    ev2 = Evaluator(prog, opaque={'index_at_distance', 'find_index_of_point_for_distance'}, hooks=C.pref_hooks(prog))
    hr = prog.cls(C.M_TD, 'HitResult')
    for f, mod, selfv, args, on_m1 in (
            (gad, td, SymObj('self', hr), [SymObj('d')], 'raise'),
            (prog.func(C.M_HELP, 'find_time_for_distance_in_shot'), hp, None, [SymObj('shot'), S('q')], 'nan')):
        rep.saw(f)
        st = State()
        env = {}
        names = list(f.positional)
        if selfv is not None:
            env[names.pop(0)] = selfv
        for n, a in zip(names, args):
            env[n] = a
        for p in names[len(args):]:
            d = f.default_of(p)
            if d is not None:
                env[p] = ev2.eval(d, State(), Ctx(mod, None, None, 0))
        try:
            tree, st = ev2.run_func(f, env, st)
        except Undecided as exc:
            raise AnalysisError(f'{f.qualname}: {exc}') from exc
        syms = set()
        for p_, _l in leaves(tree):
            for t, _pol in p_:
                if t.rf is not None:
                    syms |= {s for s in t.rf.symbols() if 'index' in s or 'find_' in s}
        if len(syms) != 1:
            rep.fail('C20.R2', mod.path, f.node.lineno, f.qualname, 'sentinel',
                     f'{f.qualname} uses the look-up result without testing it for the -1 sentinel')
            continue
        sym = next(iter(syms))
        m1 = reachable_leaves(tree, {sym: -1.0})
        if on_m1 == 'raise':
            ok = all(l.kind == 'raise' for l in m1)
        else:
            ok = all(l.kind == 'return' and isinstance(l.value, Const) and 'nan' in str(l.value.value) for l in m1)
        ok_pos = all(all(l.kind == 'return' and not (isinstance(l.value, Const) and 'nan' in str(l.value.value))
                         for l in reachable_leaves(tree, {sym: float(k)})) for k in (0, 3))
        if ok and ok_pos:
            rep.ok('C20.R2', f.where, f'{f.qualname}: -1 -> {"ArithmeticError" if on_m1 == "raise" else "NaN"}; valid indices return the row')
        else:
            rep.fail('C20.R2', mod.path, f.node.lineno, f.qualname, 'sentinel',
                     f'{f.qualname}: the -1 sentinel is not turned into {"an error" if on_m1 == "raise" else "NaN"} '
                     f'before it is used as a subscript (Python would return the last row)' if not ok else
                     f'{f.qualname} also rejects valid indices')
    # no unchecked subscript by a look-up result anywhere
    n_sites = 0
    for mod in prog.modules.values():
        if mod.name.startswith('py_ballisticcalc.visualize'):
            continue
        for sub in ast.walk(mod.tree):
            if not isinstance(sub, ast.Subscript):
                continue
            for c in ast.walk(sub.slice):
                if isinstance(c, ast.Call) and (dotted(c.func) or '').split('.')[-1] in INDEX_FUNCS:
                    f = find_func_for_node(prog, mod, sub)
                    n_sites += 1
                    rep.fail('C20.R2', mod.path, sub.lineno, f.qualname if f else '<module>', f'unchecked:{norm(sub)[:40]}',
                             f'`{norm(sub)[:70]}` subscripts with a look-up result that may be -1')
    rep.ok('C20.R2', 'py_ballisticcalc', 'no expression subscripts directly with a look-up result')


HP = 'py_ballisticcalc/helpers.py'
TDF = 'py_ballisticcalc/trajectory_data/_trajectory_data.py'
VARIANTS = [
    Variant('apex-right-mid-minus-1', 'break', [(HP, '            # Move left to the decreasing side (possible apex)\n            right = mid\n', '            # Move left to the decreasing side (possible apex)\n            right = mid - 1\n')], 'C20.R3', 'the apex itself is skipped'),
    Variant('apex-left-not-advanced', 'break', [(HP, '            # Move right to the increasing side\n            left = mid + 1\n', '            # Move right to the increasing side\n            left = mid\n')], 'C20.R3', 'never terminates on two rising rows'),
    Variant('apex-window-cut-at-touch-point', 'break', [(HP, '    return find_index_of_apex_in_points(shot.trajectory)', '    k = find_touch_point_index(shot)\n    return find_index_of_apex_in_points(shot.trajectory[:k + 1] if k > 0 else shot.trajectory)')], 'C20.R3', 'seeded change C20/5'),
    Variant('apex-test-reversed', 'break', [(HP, '        if trajectory_points[mid].height < trajectory_points[mid + 1].height:', '        if trajectory_points[mid].height >= trajectory_points[mid + 1].height:')], 'C20.R3'),
    Variant('twin-apex-compare-swapped', 'twin', [(HP, '        if trajectory_points[mid].height < trajectory_points[mid + 1].height:', '        if trajectory_points[mid + 1].height > trajectory_points[mid].height:')], None),
    Variant('twin-apex-loop-ne', 'twin', [(HP, '    left, right = 0, points_count - 1\n    while left < right:', '    left, right = 0, points_count - 1\n    while left != right:')], None, 'left <= right is invariant, so != is < (proved)'),
    Variant('index-bisect-excludes-last-row', 'break', [(TDF, '        return next((i for i in range(len(self.trajectory))\n                     if self.trajectory[i].distance >= d), -1)', '        distances = [row.distance.raw_value for row in self.trajectory]\n        i = bisect_left(distances, float(d), 0, len(distances) - 1)\n        return i if i < len(distances) else -1'), (TDF, 'from dataclasses import dataclass, field\n', 'from bisect import bisect_left\nfrom dataclasses import dataclass, field\n')], 'C20.R1', 'seeded change C16/3: a query beyond the last row returns the last row'),
    Variant('twin-index-bisect', 'twin', [(TDF, '        return next((i for i in range(len(self.trajectory))\n                     if self.trajectory[i].distance >= d), -1)', '        distances = [row.distance.raw_value for row in self.trajectory]\n        i = bisect_left(distances, float(d))\n        return i if i < len(distances) else -1'), (TDF, 'from dataclasses import dataclass, field\n', 'from bisect import bisect_left\nfrom dataclasses import dataclass, field\n')], None, 'a correct bisection: proved'),
    Variant('twin-index-loop', 'twin', [(TDF, '        return next((i for i in range(len(self.trajectory))\n                     if self.trajectory[i].distance >= d), -1)', '        for i in range(len(self.trajectory)):\n            if self.trajectory[i].distance >= d:\n                return i\n        return -1')], None),
    Variant('index-scan-strict', 'break', [(TDF, '                     if self.trajectory[i].distance >= d), -1)', '                     if self.trajectory[i].distance > d), -1)')], 'C20.R1', 'a row exactly at the query is skipped'),
    Variant('nearest-tie-strict', 'break', [(HP, '    if abs(value_getter(arr[before]) - target_value) <= abs(\n        value_getter(arr[after]) - target_value\n    ):', '    if abs(value_getter(arr[before]) - target_value) < abs(\n        value_getter(arr[after]) - target_value\n    ):')], 'C20.R1', '', 'pass'),
    Variant('index-at-distance-strict', 'break', [(TDF, 'if self.trajectory[i].distance >= d), -1)', 'if self.trajectory[i].distance > d), -1)')], 'C20.R1', 'positive control', 'caught'),
    Variant('helper-distance-strict', 'break', [(HP, 'lambda p: (p.distance >> distance_unit) >= distance', 'lambda p: (p.distance >> distance_unit) > distance')], 'C20.R1', 'positive control', 'caught'),
    Variant('bisect-right-true', 'break', [(HP, 'bisect.bisect_left(wrapper, True, 0, len(arr))', 'bisect.bisect_right(wrapper, True, 0, len(arr))')], 'C20.R1', 'positive control', 'caught'),
    Variant('unchecked-subscript', 'break', [(HP, '    if point_index >= 0:\n        return shot[point_index].time\n    return float("NaN")', '    return shot[point_index].time')], 'C20.R2'),
    Variant('get-at-distance-guard-weakened', 'break', [(TDF, '        if (i := self.index_at_distance(d)) < 0:', '        if (i := self.index_at_distance(d)) < -1:')], 'C20.R2'),
    Variant('twin-recheck-dropped', 'twin', [(HP, '    if wrapper.check_condition(idx):\n        return idx\n    return -1', '    return idx')], None,
            'on a monotone predicate an index below len found by bisect_left(.., True) always qualifies: the re-check is redundant (the earlier pattern rule demanded it - a false alarm the proof removed)'),
    Variant('helper-distance-raw-units', 'break', [(HP, 'lambda p: (p.distance >> distance_unit) >= distance', 'lambda p: p.distance.raw_value >= distance')], 'C20.R1', 'the query is in the caller\'s unit, the key in raw inches'),
    Variant('deviation-strict', 'break', [(HP, 'if abs(shot.trajectory[index].time - time) <= max_time_deviation_in_seconds:', 'if abs(shot.trajectory[index].time - time) < max_time_deviation_in_seconds:')], 'C20.R1'),
    Variant('index-scan-descending', 'break', [(TDF, 'for i in range(len(self.trajectory))\n', 'for i in reversed(range(len(self.trajectory)))\n')], 'C20.R1'),
    Variant('twin-bisect-right-false', 'twin', [(HP, 'bisect.bisect_left(wrapper, True, 0, len(arr))', 'bisect.bisect_right(wrapper, False, 0, len(arr))')], None, 'same index', 'pass'),
    Variant('twin-scan-as-loop', 'twin', [(TDF, "        return next((i for i in range(len(self.trajectory))\n                     if self.trajectory[i].distance >= d), -1)", "        for i, row in enumerate(self.trajectory):\n            if row.distance >= d:\n                return i\n        return -1")], None),
]
