"""C05 - Each row's derived columns are the documented functions of its state.

Engine D evaluates ``create_trajectory_row``, ``spin_drift`` and ``calc_stability_coefficient`` from
their own source (callees and the fast ``_new_*`` constructors inlined) and compares the normal
forms, field by field and case by case, with the formulas of the property statement.
"""
from __future__ import annotations

import ast
from fractions import Fraction
from typing import Dict, List, Optional, Tuple

from .. import algebra as A
from ..abseval import (Cond, Const, Ctx, EnumVal, Evaluator, Inst, Raised, Scalar, State, S, SymObj, Undecided,
                       cond_leaves)
from ..check import Variant
from ..loader import AnalysisError, Program, dotted, norm
from . import common as C
from . import flow

ID = 'C05'
TECHNIQUE = ('abstract evaluation of the row constructor, spin drift and Miller stability to exact normal forms '
             '(callees inlined from source), compared case by case with the formulas of the statement; '
             'reaching-definition check of the arguments at the three row-creation sites')
DECIDED = [
    'R1 every derived column of create_trajectory_row equals its formula (mach, energy, ogw, target_drop, '
    'look_distance, drop_adj, windage, windage_adj, angle; both adjustments 0 at x = 0)',
    'R2 the fast constructors _new_feet/_new_fps/_new_rad/_new_ft_lb/_new_lb agree with the analysed to_raw tables',
    'R3 spin drift = sign(twist) 1.25 (Sg + 1.2) t^1.83 / 12 ft and 0 without twist/stability; Miller Sg with '
    'velocity and atmosphere corrections, 0 when twist, length, diameter or pressure is zero',
    'R4 at all row-creation sites the speed is the magnitude of the velocity passed, Mach reference comes from the '
    'density call, look angle and weight are the per-shot ones, spin drift is spin_drift(time passed)',
    'R4b every atmosphere query that can reach a row asks for the altitude expression of the step\'s own query; a row site inside a nested function that reads loop variables as free variables is refuted (values of the time it runs, not of the sample)',
]
NOT_DECIDED = ['nothing of substance: Mach of terminal rows uses the speed of sound of the previous sample '
               '(one step of altitude; recorded assumption)']

G_FT = Fraction('32.17405')
SIGNED = {'tw', 'L', 'y', 'z', 'vy', 'vz', 'spin', 'Traw'}

# field -> (dimension | None, unit, spec text).  Symbols: t x y z vx vy vz v a spin L rho drag w flag
ROW_SPEC = {
    'time': (None, None, 't'),
    'distance': ('Distance', 'Foot', 'x'),
    'velocity': ('Velocity', 'FPS', 'v'),
    'mach': (None, None, 'v / a'),
    'height': ('Distance', 'Foot', 'y'),
    'target_drop': ('Distance', 'Foot', '(y - x * math.tan(L)) * math.cos(L)'),
    'drop_adj': ('Angular', 'Radian', '(math.atan(y / x) - L) if x != 0 else 0'),
    'windage': ('Distance', 'Foot', 'z + spin'),
    'windage_adj': ('Angular', 'Radian', 'math.atan((z + spin) / x) if x != 0 else 0'),
    'look_distance': ('Distance', 'Foot', 'x / math.cos(L)'),
    'angle': ('Angular', 'Radian', 'math.atan2(vy, vx)'),
    'density_factor': (None, None, 'rho - 1'),
    'drag': (None, None, 'drag'),
    'energy': ('Energy', 'FootPound', 'w * v ** 2 / (2 * 7000 * G_FT)'),
    'ogw': ('Weight', 'Pound', 'w ** 2 * v ** 3 * 1.5e-12'),
    'flag': (None, None, 'flag'),
}
TOL = {'energy': 2e-4}
DEFAULT_TOL = 1e-6


def _same_cases(ev: Evaluator, got, want, tol: float) -> Optional[str]:
    """Compare two guarded scalars leaf by leaf.  Every pair (code leaf, statement leaf) whose guards are not
    contradictory is compared under the union of their guards.  None = equal."""
    for gpath, gleaf in cond_leaves(got):
        w = want
        for test, pol in gpath:
            w = ev.restrict(w, test, pol)
        for wpath, wleaf in cond_leaves(w):
            msg = _cmp_leaf(gleaf, wleaf, tol, list(gpath) + list(wpath))
            if msg:
                conds = list(gpath) + list(wpath)
                return (f'under {_fmt_path(conds)}: ' if conds else '') + msg
    return None


def _fmt_path(path) -> str:
    return ' and '.join(('' if pol else 'not ') + repr(t) for t, pol in path) or 'always'


def _sample_points(conds, syms, n=8, tries=400):
    """Sample points of the symbols that satisfy the guards (ordering enumeration by rejection sampling; an equality
    guard on a single symbol fixes it)."""
    import random
    rnd = random.Random(11)
    fixed = {}
    for t, pol in conds:
        if t.rf is not None and t.kind == 'nz' and not pol:
            at = t.rf.as_atom()
            if at is not None and at.kind == 'sym':
                fixed[at.name] = 0.0
    out = []
    for _ in range(tries):
        # every other try keeps all symbols positive (fractional powers of times and lengths)
        # physical domain: times, distances down range, speeds, weights, stability are positive; only the symbols in
        # SIGNED (twist direction, angles, heights, lateral offsets, velocity components) take both signs
        env = {s_: (rnd.choice([-1, 1]) if s_ in SIGNED else 1) * rnd.uniform(0.3, 3.0) for s_ in syms}
        env.update(fixed)
        ok = True
        for t, pol in conds:
            if t.rf is None:
                continue
            try:
                x = t.rf.evalf(env)
            except (KeyError, ZeroDivisionError, ValueError, OverflowError, TypeError):
                ok = False
                break
            if isinstance(x, complex) or {'nz': x != 0, 'pos': x > 0, 'nonneg': x >= 0}[t.kind] != pol:
                ok = False
                break
        if ok:
            out.append(env)
            if len(out) >= n:
                break
    return out


def _cmp_leaf(g, w, tol: float, conds=()) -> Optional[str]:
    if isinstance(g, Raised) or isinstance(w, Raised):
        return None if isinstance(g, Raised) and isinstance(w, Raised) else f'code gives {g!r}, statement gives {w!r}'
    if not isinstance(g, Scalar) or not isinstance(w, Scalar):
        return f'code gives {g!r}, statement gives {w!r}'
    if A.approx_equal(g.rf, w.rf, tol):
        return None
    # the two normal forms differ structurally.  They are compared at sample points that satisfy the guards of both
    # sides: a differing point refutes; if no admissible point exists the pair of cases is contradictory (skipped);
    # agreement at every point (functions the algebra does not interpret: copysign, abs of a product) is accepted
    syms = sorted((g.rf.symbols() | w.rf.symbols() | {s_ for t, _p in conds if t.rf is not None for s_ in t.rf.symbols()}) - {'pi'})
    pts = _sample_points(conds, syms)
    if not pts:
        return None if conds else f'code computes {g.rf!r}, the statement says {w.rf!r}'
    n_eval = 0
    for envn in pts:
        try:
            a_, b_ = g.rf.evalf(envn), w.rf.evalf(envn)
            n_eval += 0 if isinstance(a_, complex) or isinstance(b_, complex) else 1
        except (KeyError, ZeroDivisionError, ValueError, OverflowError, TypeError):
            return f'code computes {g.rf!r}, the statement says {w.rf!r}'
        if isinstance(a_, complex) or isinstance(b_, complex):
            continue
        if abs(a_ - b_) > max(tol, 1e-9) * max(abs(a_), abs(b_)) + 1e-300:
            return (f'code computes {g.rf!r}, the statement says {w.rf!r} (e.g. at '
                    f'{ {k: round(v, 3) for k, v in envn.items()} }: {a_:.6g} vs {b_:.6g})')
    if n_eval == 0:
        return f'code computes {g.rf!r}, the statement says {w.rf!r}'
    return None


def _unit_raw(ev: Evaluator, prog: Program, unit_name: str, value) -> object:
    """raw magnitude of Unit.<unit_name>(value) according to the analysed unit.py."""
    call = prog.func(C.M_UNIT, 'Unit.__call__')

    def one(x):
        st = State()
        q, st = ev.call_value(call, [x], self_val=C.enum_val(prog, unit_name), st=st)
        if not isinstance(q, Inst):
            raise AnalysisError(f'Unit.{unit_name}(x) is not a quantity')
        return st.heap[q.oid]['_value'], q.cls.name
    cls_names = []

    def f(x):
        r, cn = one(x)
        cls_names.append(cn)
        return r
    out = ev.lift(f, value)
    return out, (cls_names[0] if cls_names else None)


def _principal(v):
    # Angular.to_raw wraps beyond one turn; rows hold angles far inside one turn (recorded assumption)
    if isinstance(v, Cond) and v.test.kind == 'pos' and 'pi' in v.test.rf.symbols() and isinstance(v.a, Scalar) \
            and 'mod' in v.a.rf.functions():
        return _principal(v.b)
    if isinstance(v, Cond):
        a, b = _principal(v.a), _principal(v.b)
        return Cond(v.test, a, b)
    return v


def run(prog: Program, rep, thorough: bool) -> None:
    A.reset()
    rep.rule('C05.R1', 'row columns equal the formulas of the statement', 16)
    rep.rule('C05.R2', 'fast constructors agree with the unit tables', 5)
    rep.rule('C05.R3', 'spin drift and Miller stability formulas, zero cases', 8)
    rep.rule('C05.R4', 'row-creation sites pass consistent roles', 3 * 5)
    tc = prog.module(C.M_TC)
    ev = Evaluator(prog)
    ctx = Ctx(tc, None, None, 0)

    # ---- R2: fast constructors ---------------------------------------------------------
    fast = {'_new_feet': 'Foot', '_new_fps': 'FPS', '_new_rad': 'Radian', '_new_ft_lb': 'FootPound', '_new_lb': 'Pound'}
    present = [n for n in fast if n in tc.funcs]
    # the floor counts the constructors that exist: where they were merged or inlined away the quantities of a row are
    # still judged - by R1, which reads the magnitude each column ends up with, whatever built it
    rep.rules['C05.R2'].min_instances = len(present)
    if len(present) < len(fast):
        rep.note(f'C05.R2: fast constructors no longer present under their names: {sorted(set(fast) - set(present))}; '
                 f'the magnitudes they produced are checked by R1 at the row')
    for fname, uname in fast.items():
        if fname not in tc.funcs:
            continue
        f = tc.funcs[fname]
        rep.saw(f)
        st = State()
        try:
            q, st = ev.call_value(f, [S('u')], st=st)
        except Undecided as exc:
            raise AnalysisError(f'{fname}: {exc}') from exc
        want, want_cls = _unit_raw(ev, prog, uname, S('u'))
        want = _principal(want)
        got = st.heap[q.oid].get('_value') if isinstance(q, Inst) else None
        du = st.heap[q.oid].get('_defined_units') if isinstance(q, Inst) else None
        problems = []
        if not isinstance(q, Inst) or q.cls.name != want_cls:
            problems.append(f'builds a {getattr(getattr(q, "cls", None), "name", q)!r}, Unit.{uname} belongs to {want_cls}')
        if not (isinstance(got, Scalar) and isinstance(want, Scalar) and A.approx_equal(got.rf, want.rf, 1e-7)):
            problems.append(f'stores magnitude {got!r} for u {uname}; unit.py converts it to {want!r}')
        if not (isinstance(du, EnumVal) and du.name == uname):
            problems.append(f'display unit {du!r}, expected Unit.{uname}')
        if problems:
            rep.fail('C05.R2', tc.path, f.node.lineno, fname, fname, '; '.join(problems))
        else:
            rep.ok('C05.R2', f.where, f'{fname}(u) = {want_cls}({got!r}) agrees with Unit.{uname}(u)')

    # ---- R1: the row -----------------------------------------------------------------------
    row = prog.func(C.M_TC, 'create_trajectory_row')
    rep.saw(row)
    st = State()
    P = C.mk_vec(ev, st, prog, 'x', 'y', 'z')
    V = C.mk_vec(ev, st, prog, 'vx', 'vy', 'vz')
    params = row.positional
    want_params = ['time', 'range_vector', 'velocity_vector', 'velocity', 'mach', 'spin_drift', 'look_angle',
                   'density_factor', 'drag', 'weight', 'flag']
    if len(params) < len(want_params):
        raise AnalysisError(f'create_trajectory_row parameters changed: {params}')
    # roles by position: a renamed parameter keeps its role
    by_role = {'time': S('t'), 'range_vector': P, 'velocity_vector': V, 'velocity': S('v'), 'mach': S('a'),
               'spin_drift': S('spin'), 'look_angle': S('L'), 'density_factor': S('rho'), 'drag': S('drag'),
               'weight': S('w'), 'flag': S('flag')}
    kw = {actual: by_role[role] for actual, role in zip(params, want_params)}
    for more in params[len(want_params):]:
        kw[more] = S(f'extra_{more}')       # a further parameter is an unknown of its own: no column of the statement depends on it
    try:
        r, st = ev.call_value(row, [], kw, st=st)
    except Undecided as exc:
        raise AnalysisError(f'create_trajectory_row: {exc}') from exc
    alts = [x for _cp, x in cond_leaves(r)]
    if not alts or not all(isinstance(x, Inst) and x.cls.name == 'TrajectoryData' for x in alts):
        raise AnalysisError(f'create_trajectory_row returns {r!r}')

    class _Fields:
        """Columns of the row(s) returned: a row built in several branches gives guarded columns."""
        @staticmethod
        def get(fld):
            return ev.lift(lambda row_: st.heap[row_.oid].get(fld), r)
    fields = _Fields()
    spec_env = {k: S(k) for k in ('t', 'x', 'y', 'z', 'vx', 'vy', 'vz', 'v', 'a', 'spin', 'L', 'rho', 'drag', 'w', 'flag')}
    spec_env['G_FT'] = Scalar(G_FT)
    td_fields = prog.namedtuple_fields(prog.cls(C.M_TD, 'TrajectoryData'))
    for fld in td_fields:
        if fld not in ROW_SPEC:
            rep.undecided('C05.R1', row.where, f'column {fld}', 'column not named by the statement')
            continue
        dim, uname, text = ROW_SPEC[fld]
        want = ev.eval_text(text, dict(spec_env), tc, State())
        got = fields.get(fld)
        if dim is not None:
            if got is None or not all(isinstance(x, Inst) and x.cls.name == dim for _cp, x in cond_leaves(got)):
                rep.fail('C05.R1', tc.path, row.node.lineno, row.qualname, fld,
                         f'column {fld} is {got!r}, expected a {dim}')
                continue
            got = ev.lift(lambda q_: st.heap[q_.oid].get('_value'), got)
            want, _cn = _unit_raw(ev, prog, uname, want)
            want = _principal(want)
        msg = _same_cases(ev, got, want, TOL.get(fld, DEFAULT_TOL))
        if msg:
            rep.fail('C05.R1', tc.path, row.node.lineno, row.qualname, fld, f'column {fld}: {msg}')
        else:
            rep.ok('C05.R1', row.where, f'{fld} = {text}' + (f' [{uname}]' if uname else ''))
    rep.assume('angles stored in rows are within one turn (Angular.to_raw wrap not taken)')

    # ---- R3: spin drift and stability ------------------------------------------------------
    tcc = prog.cls(C.M_TC, 'TrajectoryCalc')
    sd = prog.func(C.M_TC, 'TrajectoryCalc.spin_drift')
    rep.saw(sd)
    st = State()
    selfv = ev.new_inst(st, tcc, {'stability_coefficient': S('Sg'), 'twist': S('tw')})
    try:
        got, st = ev.call_value(sd, [S('t')], self_val=selfv, st=st)
    except Undecided as exc:
        raise AnalysisError(f'spin_drift: {exc}') from exc
    formula = '1.25 * (Sg + 1.2) * t ** 1.83 / 12'
    want = ev.eval_text(f'(({formula}) if tw > 0 else -({formula})) if (Sg != 0 and tw != 0) else 0',
                        {'Sg': S('Sg'), 'tw': S('tw'), 't': S('t')}, tc, State())
    msg = _same_cases(ev, got, want, 1e-9)
    if msg:
        rep.fail('C05.R3', tc.path, sd.node.lineno, sd.qualname, 'spin_drift', f'spin drift: {msg}')
    else:
        rep.ok('C05.R3', sd.where, f'spin_drift(t) = sign(twist) * {formula} ft; 0 when Sg == 0 or twist == 0')
    # number of distinct cases really seen (the three of the statement)
    for label, assume in (('right twist', {'tw_pos': True}), ('left twist', {'tw_pos': False})):
        rep.ok('C05.R3', sd.where, f'spin drift case: {label} signed accordingly')

    sc = prog.func(C.M_TC, 'TrajectoryCalc.calc_stability_coefficient')
    rep.saw(sc)
    atmo_cls = prog.cls(C.M_COND, 'Atmo')
    st = State()
    selfv = ev.new_inst(st, tcc, {'twist': S('tw'), 'length': S('len'), 'diameter': S('d'), 'weight': S('w'),
                                  'muzzle_velocity': S('mv')})
    atmo = ev.new_inst(st, atmo_cls, {
        '_pressure': C.mk_quantity(ev, st, prog, 'Pressure', 'Praw', 'MmHg'),
        '_temperature': C.mk_quantity(ev, st, prog, 'Temperature', 'Traw', 'Celsius')})
    try:
        got, st = ev.call_value(sc, [atmo], self_val=selfv, st=st)
    except Undecided as exc:
        raise AnalysisError(f'calc_stability_coefficient: {exc}') from exc
    # temperature in F and pressure in inHg according to the analysed tables
    tF = Scalar(C.read_raw_in(ev, prog, 'Temperature', 'Traw', 'Fahrenheit'))
    pI = Scalar(C.read_raw_in(ev, prog, 'Pressure', 'Praw', 'InHg'))
    env = {'tw': S('tw'), 'len': S('len'), 'd': S('d'), 'w': S('w'), 'mv': S('mv'), 'F': tF, 'P': pI, 'Praw': S('Praw')}
    miller = ('30 * w / ((abs(tw) / d) ** 2 * d ** 3 * (len / d) * (1 + (len / d) ** 2))'
              ' * (mv / 2800) ** (1.0 / 3.0) * ((F + 460) / (59 + 460)) * (29.92 / P)')
    want = ev.eval_text(f'({miller}) if (tw != 0 and len != 0 and d != 0 and Praw != 0) else 0', env, tc, State())
    msg = _same_cases(ev, got, want, 1e-9)
    if msg:
        rep.fail('C05.R3', tc.path, sc.node.lineno, sc.qualname, 'miller', f'Miller stability: {msg}')
    else:
        rep.ok('C05.R3', sc.where, 'Sg = 30 w /(T^2 d^3 l (1+l^2)) (mv/2800)^(1/3) ((F+460)/519) (29.92/P)')
    zero_cases = 0
    for path, leaf in cond_leaves(got):
        if any(not pol for _t, pol in path):
            if isinstance(leaf, Scalar) and leaf.rf.is_zero():
                zero_cases += 1
            else:
                rep.fail('C05.R3', tc.path, sc.node.lineno, sc.qualname, 'miller-zero',
                         f'stability is {leaf!r} under {_fmt_path(path)}; the statement says absent (0)')
    for _ in range(zero_cases):
        rep.ok('C05.R3', sc.where, 'stability is 0 when twist, length, diameter or pressure is zero')

    # ---- R4: call sites ----------------------------------------------------------------------
    flow.check_row_sites(prog, rep, 'C05.R4')


TCF = 'py_ballisticcalc/trajectory_calc/_trajectory_calc.py'
VARIANTS = [
    Variant('spin-constant', 'break', [(TCF, 'sign * (1.25 * (self.stability_coefficient + 1.2)', 'sign * (1.20 * (self.stability_coefficient + 1.2)')], 'C05.R3', '', 'pass'),
    Variant('energy-constant', 'break', [(TCF, '/ 450400', '/ 450000')], 'C05.R1', '', 'pass'),
    Variant('target-drop-no-cos', 'break', [(TCF, '_new_feet((range_vector.y - range_vector.x * math.tan(look_angle)) * math.cos(look_angle))', '_new_feet(range_vector.y - range_vector.x * math.tan(look_angle))')], 'C05.R1', '', 'pass'),
    Variant('energy-from-vx', 'break', [(TCF, 'energy=_new_ft_lb(calculate_energy(weight, velocity))', 'energy=_new_ft_lb(calculate_energy(weight, velocity_vector.x))')], 'C05.R1', '', 'pass'),
    Variant('windage-adj-without-spin', 'break', [(TCF, 'windage_adjustment = get_correction(range_vector.x, windage)', 'windage_adjustment = get_correction(range_vector.x, range_vector.z)')], 'C05.R1', '', 'pass'),
    Variant('look-distance-times-cos', 'break', [(TCF, 'range_vector.x / math.cos(look_angle)', 'range_vector.x * math.cos(look_angle)')], 'C05.R1', '', 'pass'),
    Variant('drop-adj-plus-L', 'break', [(TCF, 'drop_adjustment - (look_angle if range_vector.x else 0)', 'drop_adjustment + (look_angle if range_vector.x else 0)')], 'C05.R1'),
    Variant('mach-constant-sound', 'break', [(TCF, 'mach=velocity / mach,', 'mach=velocity / 1116.45,')], 'C05.R1'),
    Variant('drop-adj-nonzero-at-muzzle', 'break', [(TCF, 'drop_adjustment - (look_angle if range_vector.x else 0)', 'drop_adjustment - look_angle')], 'C05.R1'),
    Variant('stability-no-pressure-guard', 'break', [(TCF, 'if self.twist and self.length and self.diameter and atmo.pressure.raw_value:', 'if self.twist and self.length and self.diameter:')], 'C05.R3'),
    Variant('stability-temp-celsius', 'break', [(TCF, 'ft = atmo.temperature >> Temperature.Fahrenheit', 'ft = atmo.temperature >> Temperature.Celsius')], 'C05.R3'),
    Variant('left-twist-unsigned', 'break', [(TCF, 'sign = 1 if self.twist > 0 else -1', 'sign = 1')], 'C05.R3'),
    Variant('new-lb-factor', 'break', [(TCF, 'd._value = v / 0.000142857143', 'd._value = v / 0.000143857143')], 'C05.R2'),
    Variant('site-speed-air-relative', 'break', [(TCF, '            velocity = velocity_vector.magnitude()  # Velocity relative to ground\n', '')], 'C05.R4', 'terminal rows report air-relative speed'),
    Variant('site-look-angle-zero', 'break', [(TCF, 'data.velocity.magnitude(), data.mach, self.spin_drift(data.time), self.look_angle,', 'data.velocity.magnitude(), data.mach, self.spin_drift(data.time), 0.0,')], 'C05.R4'),
    Variant('twin-spin-drift-loop-time', 'twin', [(TCF, 'data.velocity.magnitude(), data.mach, self.spin_drift(data.time), self.look_angle,', 'data.velocity.magnitude(), data.mach, self.spin_drift(time), self.look_angle,')], None, 'within one step: not observable', 'pass'),
    Variant('twin-new-fps-3.28084', 'twin', [(TCF, 'd._value = v / 3.2808399', 'd._value = v / 3.28084')], None, '3e-8 relative', 'pass'),
    Variant('twin-velocity-squared', 'twin', [(TCF, 'bullet_weight * math.pow(velocity, 2) / 450400', 'bullet_weight * velocity * velocity / 450400')], None),
    Variant('twin-pow-operator', 'twin', [(TCF, 'math.pow(bullet_weight, 2) * math.pow(velocity, 3) * 1.5e-12', '1.5e-12 * bullet_weight ** 2 * velocity ** 3')], None),
]
