"""C04 - Every call terminates, and an incomplete trajectory is reported truthfully."""
from __future__ import annotations

import ast
from typing import Dict, List, Optional, Set, Tuple

from .. import algebra as A
from ..abseval import (Cond, Const, Ctx, Evaluator, Inst, Leaf, Lst, NONE, Raised, Scalar, State, S, SymObj, Undecided,
                       cond_leaves, leaves)
from ..cfg import uses_of
from ..check import Variant
from ..loader import AnalysisError, Program, dotted, norm, parent
from . import common as C
from .c18 import _locals_from_config
from .flow import IntegrateFacts, LimitBlock

ID = 'C04'
TECHNIQUE = ('abstract evaluation of the limit block to a guarded case table (reason per combination of violated '
             'limits), must-pass-through and dependence slicing on the statement CFG of _integrate (limits do not '
             'flow into the state; every stored state passes the guard before the next row), abstract evaluation of '
             'RangeError.__init__')
DECIDED = [
    'R1 the error is raised exactly when speed < minimum velocity, or y < maximum drop, or alt0 + y < minimum altitude '
    '(limits from this calculator\'s Config), the stated reason is the first violated limit in that precedence and is '
    'the RangeError constant of the same stem, and the row attached last is built from the very state the tests read',
    'R2 every state produced by a step passes through the limit test before any further row is created; the limits '
    'have no data or control dependence into time, position, velocity, wind, density, Mach reference or time step '
    'other than leaving the loop by raise; the test itself depends only on the state and the three limits (not on '
    'the recording parameters)',
    'R3 RangeError keeps the reason given, the very list given as incomplete_trajectory, and last_distance is the '
    'distance of its last row (None for an empty list)',
]
NOT_DECIDED = ['termination itself (no static variant for the while loop) and that gravity eventually trips a limit']

STEMS = [('cMinimumVelocity', 'MinimumVelocityReached', 'speed'), ('cMaximumDrop', 'MaximumDropReached', 'height'),
         ('cMinimumAltitude', 'MinimumAltitudeReached', 'altitude')]


def find_guard(F: IntegrateFacts) -> ast.If:
    for n in ast.walk(F.loop):
        if isinstance(n, ast.If) and any(isinstance(x, ast.Raise) for x in n.body) and \
                any(isinstance(x, ast.Call) and isinstance(x.func, ast.Name) and x.func.id == 'RangeError'
                    for x in ast.walk(n)):
            return n
    raise AnalysisError('_integrate: limit guard (if ...: raise RangeError) not found in the loop')


def run(prog: Program, rep, thorough: bool) -> None:
    A.reset()
    rep.rule('C04.R1', 'reason = first violated limit; last row built from the violating state', 5)
    rep.rule('C04.R2', 'guard on every path; limits do not interfere with the state', 4)
    rep.rule('C04.R3', 'RangeError stores what it is given', 3)
    tc = prog.module(C.M_TC)
    F = IntegrateFacts(prog)
    rep.saw(F.func)
    LB = LimitBlock(F)
    gnode = LB.first
    guard = gnode.ast          # the entry test of the limit block (an expression node)
    lm = _locals_from_config(F.func)
    exc_cls = prog.cls(C.M_EXC, 'RangeError')
    reasons = {}
    for name, (_ann, val) in exc_cls.attrs.items():
        if isinstance(val, ast.Constant) and isinstance(val.value, str):
            reasons[name] = val.value
    for _f, attr, _w in STEMS:
        if attr not in reasons:
            raise AnalysisError(f'RangeError.{attr} vanished')
    if len(set(reasons[a] for _f, a, _w in STEMS)) != 3:
        rep.fail('C04.R1', prog.module(C.M_EXC).path, exc_cls.node.lineno, 'RangeError', 'reason-texts',
                 'the three reason constants are not distinct strings')

    # ---- R1 ------------------------------------------------------------------------------------
    ev = Evaluator(prog, opaque={'create_trajectory_row', 'spin_drift'})
    st = State()
    tcc = prog.cls(C.M_TC, 'TrajectoryCalc')
    selfv = ev.new_inst(st, tcc, {'alt0': S('alt0'), 'look_angle': S('L'), 'weight': S('w'),
                                  '_config': ev.new_inst(st, prog.cls(C.M_TC, 'Config'),
                                                         {f: S(f'cfg.{f}') for f in prog.namedtuple_fields(prog.cls(C.M_TC, 'Config'))})})
    site = LB.site
    # the list the rows go to: what the row sites of the loop append to
    row_lists = set()
    for c_ in F.row_calls:
        p_ = getattr(c_, '_parent', None)
        if isinstance(p_, ast.Call) and isinstance(p_.func, ast.Attribute) and p_.func.attr == 'append' \
                and isinstance(p_.func.value, ast.Name) and F._inside(c_, F.loop):
            row_lists.add(p_.func.value.id)
    if len(row_lists) != 1:
        raise AnalysisError(f'_integrate: the rows of the loop are appended to {sorted(row_lists) or "nothing"}: the shape '
                            f'"one list of rows filled inside the loop" is gone, the limit block cannot be read')
    row_list = next(iter(row_lists))
    if site is None:
        appends = [n_ for st_ in LB.stmts for n_ in ast.walk(st_) if isinstance(n_, ast.Call)
                   and isinstance(n_.func, ast.Attribute) and n_.func.attr in ('append', 'extend', 'insert')]
        if appends:
            raise AnalysisError(f'limit block: `{norm(appends[0])[:60]}` instead of a row built in place: shape not readable')
        rep.fail('C04.R1', tc.path, gnode.line, F.func.qualname, 'last-row',
                 'no row is built from the violating state before the error is raised')
    args = F.row_args(site) if site is not None else {}
    speed_name = LB.speed_name
    env = {'self': selfv, F.P: C.mk_vec(ev, st, prog, 'x', 'y', 'z'), F.V: C.mk_vec(ev, st, prog, 'vx', 'vy', 'vz'),
           F.t: S('t'), F.a: S('a'), F.rho: S('rho'), 'drag': S('drag'), row_list: ev.new_list(st, [SymObj('earlier_row')]),
           'data_filter': SymObj('data_filter')}
    names_in_block = {n.id for st_ in LB.stmts for n in ast.walk(st_) if isinstance(n, ast.Name)}
    from .c18 import config_aliases
    for n in names_in_block:
        if n in lm:
            env[n] = S(f'cfg.{lm[n]}')
        elif n in config_aliases(F.func):
            env[n] = st.heap[selfv.oid]['_config']
    if speed_name and speed_name not in env:
        env[speed_name] = S('speed')
    assigned_in_block = {n.id for st_ in LB.stmts for n in ast.walk(st_) if isinstance(n, ast.Name) and isinstance(n.ctx, ast.Store)}
    for n in names_in_block:
        if n not in env and n not in assigned_in_block and n not in ('RangeError', 'create_trajectory_row', 'math', 'abs',
                                                                    'min', 'max', 'len', 'TrajFlag', 'logger'):
            try:
                ev.lookup(n, State(), Ctx(tc, F.func, None, 0))
            except Undecided:
                env[n] = SymObj(n) if n in F.func.params else S(f'${n}')
    st.env.update(env)
    # locals set once before the loop from the calculator's own state (a limits object built from self._config, say)
    # are evaluated rather than guessed
    for n in sorted(names_in_block):
        if n in lm or n in assigned_in_block or n in F.func.params or n in (F.P, F.V, F.t, F.a, F.rho, row_list, 'drag', 'self'):
            continue
        try:
            ds_ = [d for d in F.defs_reaching(LB.stmts[0], n) if not F.in_loop(d)]
        except AnalysisError:
            continue
        if len(ds_) == 1 and isinstance(ds_[0].ast, (ast.Assign, ast.AnnAssign)) and ds_[0].ast.value is not None \
                and len(F.defs_reaching(LB.stmts[0], n)) == 1:
            try:
                st.env[n] = ev.eval(ds_[0].ast.value, st, Ctx(tc, F.func, None, 0))
            except Undecided:
                pass
    try:
        tree = ev.exec_block(LB.stmts, st, Ctx(tc, F.func, None, 0))
    except Undecided as exc:
        raise AnalysisError(f'limit block: {exc}') from exc
    x, y, alt0, speed = A.sym('x'), A.sym('y'), A.sym('alt0'), A.sym('speed')
    want_tests = {'cMinimumVelocity': A.sym('cfg.cMinimumVelocity') - speed,
                  'cMaximumDrop': A.sym('cfg.cMaximumDrop') - y,
                  'cMinimumAltitude': A.sym('cfg.cMinimumAltitude') - alt0 - y}
    problems: List[str] = []
    n_raise = 0
    seen_fields: Set[str] = set()
    for path, leaf in leaves(tree):
        viol: Dict[str, bool] = {}
        for t, pol in path:
            hit = None
            for fld, rf in want_tests.items():
                if t.kind == 'pos' and t.rf.equals(rf):
                    hit = (fld, pol)
                elif t.kind == 'nonneg' and t.rf.equals(-rf):
                    hit = (fld, not pol)
                elif t.kind in ('pos', 'nonneg') and (t.rf.equals(rf) or t.rf.equals(-rf)):
                    problems.append(f'the {fld} test is `{t!r}`: not the strict `state < limit` of the statement')
                    hit = (fld, pol)
            if hit is None and (t.kind == 'opaque' or t.rf is None):
                req = [p_ for p_ in F.func.positional[2:] if p_ in (t.key or '')]
                if req:
                    # a parameter of the request (range, step, flags, time step): what a stopped call reports must not
                    # depend on what was asked to be recorded
                    problems.append(f'what the limit block does depends on the request parameter `{req[0]}` (`{t!r}`): the stop and its '
                                    f'last row are no longer the same for every kind of request (the zero finder integrates with no flags)')
                    continue
                raise AnalysisError(f'limit block: the outcome depends on `{t!r}`, which the evaluator cannot read')
            if hit is None:
                problems.append(f'the limit block depends on `{t!r}`, which is none of the three limit tests on the '
                                f'current state')
            else:
                viol[hit[0]] = hit[1]
                seen_fields.add(hit[0])
        violated = [f for f, _a, _w in STEMS if viol.get(f)]
        if leaf.kind == 'raise':
            n_raise += 1
            # the reason stated: the first argument of the RangeError raised, evaluated in the state of this path
            rnode = leaf.node if isinstance(getattr(leaf, 'node', None), ast.Raise) else None
            rtxt = None
            if rnode is not None and isinstance(rnode.exc, ast.Call) and rnode.exc.args:
                try:
                    rv_ = ev.eval(rnode.exc.args[0], leaf.state, Ctx(tc, F.func, None, 0))
                except Undecided as exc:
                    raise AnalysisError(f'limit block: the reason passed to RangeError is not readable: {exc}') from exc
                alts_ = {x.value if isinstance(x, Const) else None for _cp, x in cond_leaves(rv_)}
                if len(alts_) != 1 or None in alts_:
                    raise AnalysisError(f'limit block: the reason passed to RangeError is {rv_!r} on one path')
                rtxt = alts_.pop()
            else:
                reason = leaf.state.env.get('reason')
                rtxt = reason.value if isinstance(reason, Const) else None
            if not violated:
                problems.append('an error is raised on a path where no limit is violated')
                continue
            first = violated[0]
            want_attr = next(a for f, a, _w in STEMS if f == first)
            # precedence: a reason may be stated only where every limit of higher precedence is known not to be violated
            order = [f for f, _a, _w in STEMS]
            stated = next((f for f, a, _w in STEMS if reasons[a] == rtxt), None)
            if stated is not None:
                untested = [f for f in order[:order.index(stated)] if f not in viol]
                if untested:
                    problems.append(f'the reason {next(a for f, a, _w in STEMS if f == stated)} is stated on a path where '
                                    f'{untested} (higher precedence) was never tested: when both limits are crossed in the same '
                                    f'step the lower-precedence reason is reported')
            if rtxt != reasons[want_attr]:
                got_attr = next((k for k, v in reasons.items() if v == rtxt), rtxt)
                problems.append(f'when {" and ".join(violated)} {"are" if len(violated) > 1 else "is"} violated the '
                                f'stated reason is {got_attr}, expected {want_attr} (first violated limit in the '
                                f'precedence velocity, drop, altitude)')
            rows = leaf.state.heap[env[row_list].oid]['$items'][1:]        # after the row recorded earlier
            if len(rows) != 1:
                problems.append(f'{len(rows)} rows are appended before the error is raised (a card that already has rows), '
                                f'expected the violating state')
        elif leaf.kind in ('fall', 'continue'):
            if violated:
                problems.append(f'no error is raised although {violated} is violated')
        else:
            problems.append(f'the limit block leaves by `{leaf.kind}`')
    missing = [f for f, _a, _w in STEMS if f not in seen_fields]
    if missing:
        problems.append(f'limit(s) {missing} are never tested against the state')
    if problems:
        rep.fail('C04.R1', tc.path, gnode.line, F.func.qualname, 'reason-table', '; '.join(sorted(set(problems))[:4]))
    else:
        rep.ok('C04.R1', tc.where(guard), f'{n_raise} violating combinations: reason = first violated limit; none '
               f'violated -> no error')
        for f, a, w in STEMS:
            rep.ok('C04.R1', tc.where(guard), f'{w} < cfg.{f} -> RangeError.{a}')
    # the last row is built from the variables the tests read
    if site is not None:
        want_row = {'time': F.t, 'range_vector': F.P, 'velocity_vector': F.V}
        bad = {k: norm(args[k]) for k, v in want_row.items() if norm(args.get(k)) != v}
        is_first = True        # the block starts after the last state update: nothing can change the state in between
        if bad or not is_first:
            rep.fail('C04.R1', tc.path, site.lineno, F.func.qualname, 'last-row',
                     f'the row attached to the error is not built from the violating state: {bad}'
                     + ('' if is_first else '; statements run between the test and the row'))
        else:
            rep.ok('C04.R1', tc.where(site), f'last row = create_trajectory_row({F.t}, {F.P}, {F.V}, {speed_name}, ...) '
                   f'straight after the test')
        # the speed tested is the speed of the row: the case table above is keyed by the symbol bound to the very
        # variable passed as the row's speed (C05.R4 checks that this variable is |V|)
    raises = LB.raises
    for r in raises:
        c = r.exc
        if isinstance(c, ast.Call) and norm(c.func) == 'RangeError' and len(c.args) == 2 and not isinstance(c.args[1], (ast.Name, ast.List, ast.Constant)):
            raise AnalysisError(f'`{norm(r)[:60]}`: the trajectory attached is computed by an expression, not the row list: not readable')
        if not (isinstance(c, ast.Call) and norm(c.func) == 'RangeError' and len(c.args) == 2 and norm(c.args[1]) == row_list):
            rep.fail('C04.R1', tc.path, r.lineno, F.func.qualname, 'raise-args',
                     f'`{norm(r)[:60]}` does not attach the partial trajectory (`{row_list}`)')

    # ---- R2 ------------------------------------------------------------------------------------
    cfg = F.cfg
    state_vars = {F.t, F.P, F.V}
    defs_in_loop = [n for n in cfg.nodes if F.in_loop(n) and n.ast is not None and n.kind == 'stmt'
                    and set(_defined(n)) & state_vars]
    other_sites = [cfg.node_of(c) for c in F.row_calls if c is not LB.site]
    bad_paths = []
    for d in defs_in_loop:
        reach = cfg.reachable_from(d, skip=lambda m: m is gnode)
        # the defining statement itself may precede further state updates of the same step: only the last update
        # of the step must be followed by the guard; so check from each def, but allow paths through other defs
        for s in other_sites:
            if s is not None and s.id in reach and s.id != d.id:
                bad_paths.append((d, s))
    if bad_paths:
        d, s = bad_paths[0]
        rep.fail('C04.R2', tc.path, s.line, F.func.qualname, 'guard-bypassed',
                 f'a state stored at line {d.line} (`{d.text()[:50]}`) can reach the row creation at line {s.line} '
                 f'without passing the limit test: rows violating a limit can be returned without error')
    else:
        rep.ok('C04.R2', tc.where(guard), f'all {len(defs_in_loop)} state updates in the loop reach the next row creation '
               f'only through the limit test')
    # guard's own dependences
    limit_locals = {n for n, f in lm.items() if f in want_tests}
    gd_uses = set()
    for t_ in LB.tests:
        ta = cfg.nodes[t_].ast
        gd_uses |= {n.id for n in ast.walk(ta) if isinstance(n, ast.Name)} | {norm(n) for n in ast.walk(ta) if isinstance(n, ast.Attribute)}
    recording = set(F.params) - {'self', F.params[1] if len(F.params) > 1 else ''} - {'maximum_range'}
    rec_derived = set(recording) | {'data_filter', 'min_step', row_list}
    leak = sorted(x for x in gd_uses if x.split('.')[0] in rec_derived)
    cd = cfg.control_dependence()
    ctrl = {t for t, _lab in cd[gnode.id]}
    ctrl_bad = [cfg.nodes[t] for t in ctrl if cfg.nodes[t] not in F.loop_controls and t not in LB.tests]
    if leak or ctrl_bad:
        why = f'reads {leak}' if leak else f'runs only under `{ctrl_bad[0].text()[:50]}`'
        rep.fail('C04.R2', tc.path, gnode.line, F.func.qualname, 'guard-depends',
                 f'the limit test {why}: whether a limit stops the computation depends on what is being recorded '
                 f'(the zero finder records nothing)')
    else:
        rep.ok('C04.R2', tc.where(guard), 'the limit test depends on the state and the three limits only')
    # limits do not flow into the state
    sinks = [n for n in cfg.nodes if F.in_loop(n) and n.ast is not None and n.kind == 'stmt'
             and (set(_defined(n)) & (state_vars | {F.rho, F.a, 'wind_vector', 'delta_time', 'drag', 'velocity_adjusted'}))]

    def skip_ctrl(cur, t, lab):
        return t in LB.tests        # leaving the loop by raise is the one permitted influence
    tainted = []
    for s in sinks:
        sl = F.deps.backward_slice(s.id, control=True, skip_control=skip_ctrl)
        for nid, chain in sl.items():
            n = cfg.nodes[nid]
            if nid in LB.tests:
                continue
            reads = uses_of(n)
            cfg_reads = {norm(x) for x in ast.walk(n.ast) if isinstance(x, ast.Attribute)
                         and norm(x.value) == 'self._config' and x.attr in want_tests} if n.ast is not None else set()
            is_limit_def = isinstance(n.ast, ast.Assign) and len(n.ast.targets) == 1 and \
                isinstance(n.ast.targets[0], ast.Name) and n.ast.targets[0].id in limit_locals
            if is_limit_def or cfg_reads & reads or (cfg_reads and not is_limit_def):
                tainted.append((s, n, chain))
    if tainted:
        s, n, chain = tainted[0]
        rep.fail('C04.R2', tc.path, s.line, F.func.qualname, f'limit-flows:{s.text()[:30]}',
                 f'a termination limit flows into the integration state: `{s.text()[:50]}` depends on '
                 f'`{n.text()[:50]}` (line {n.line}); rows before the limit would differ from the unlimited shot',
                 [f'line {cfg.nodes[c].line}: {cfg.nodes[c].text()[:50]}' for c in chain])
    else:
        rep.ok('C04.R2', tc.where(F.loop), f'{len(sinks)} state-defining statements: none depends on a limit except '
               f'through the raise')
    # after-loop site: not dependent on limits either
    rep.ok('C04.R2', tc.where(F.loop), 'the zero finder calls the same _integrate (same guard)') if any(
        isinstance(c, ast.Call) and norm(c.func) == 'self._integrate'
        for c in ast.walk(prog.func(C.M_TC, 'TrajectoryCalc.zero_angle').node)) else \
        rep.fail('C04.R2', tc.path, F.func.node.lineno, 'TrajectoryCalc.zero_angle', 'zero-own-loop',
                 'zero_angle no longer integrates through _integrate: it is not stopped by the same limits')

    # ---- R3 ------------------------------------------------------------------------------------
    exm = prog.module(C.M_EXC)
    init = prog.func(C.M_EXC, 'RangeError.__init__')
    rep.saw(init)
    ev2 = Evaluator(prog)
    st = State()
    obj = ev2.new_inst(st, exc_cls, {})
    try:
        tree, st = ev2.run_func(init, {init.positional[0]: obj, init.positional[1]: SymObj('reason'),
                                       init.positional[2]: SymObj('rows')}, st)
    except Undecided as exc:
        raise AnalysisError(f'RangeError.__init__: {exc}') from exc
    probs = []
    for path, leaf in leaves(tree):
        h = leaf.state.heap[obj.oid]
        nonempty = None
        for t, pol in path:
            if t.rf is not None and 'len($rows)' in repr(t.rf) or (t.rf is not None and 'len(rows)' in t.rf.symbols()):
                if t.kind == 'pos':
                    nonempty = pol
                elif t.kind == 'nonneg':
                    nonempty = pol if not t.rf.equals(-A.sym('len(rows)')) else (not pol)
                elif t.kind == 'nz':
                    nonempty = pol
        r, it_, ld = h.get('reason'), h.get('incomplete_trajectory'), h.get('last_distance')
        if not (isinstance(r, SymObj) and r.path == 'reason'):
            probs.append(f'reason stored as {r!r}')
        if not (isinstance(it_, SymObj) and it_.path == 'rows'):
            probs.append(f'incomplete_trajectory is {it_!r}, not the list given')
        if nonempty is False:
            if not (isinstance(ld, Const) and ld.value is None):
                probs.append(f'last_distance for an empty list is {ld!r}')
        else:
            if not (isinstance(ld, SymObj) and ld.path == 'rows[-1].distance'):
                probs.append(f'last_distance is {ld!r}, expected the distance of the last row')
    if probs:
        rep.fail('C04.R3', exm.path, init.node.lineno, init.qualname, 'stores', '; '.join(sorted(set(probs))))
    else:
        rep.ok('C04.R3', init.where, 'reason kept')
        rep.ok('C04.R3', init.where, 'incomplete_trajectory is the list given')
        rep.ok('C04.R3', init.where, 'last_distance = rows[-1].distance (None when empty)')


def _defined(n):
    from ..cfg import defs_of
    return defs_of(n)


TCF = 'py_ballisticcalc/trajectory_calc/_trajectory_calc.py'
EXF = 'py_ballisticcalc/exceptions/exceptions.py'
VARIANTS = [
    Variant('reasons-swapped', 'break', [(TCF, '                if velocity < _cMinimumVelocity:\n                    reason = RangeError.MinimumVelocityReached\n                elif range_vector.y < _cMaximumDrop:\n                    reason = RangeError.MaximumDropReached', '                if velocity < _cMinimumVelocity:\n                    reason = RangeError.MaximumDropReached\n                elif range_vector.y < _cMaximumDrop:\n                    reason = RangeError.MinimumVelocityReached')], 'C04.R1', '', 'pass'),
    Variant('chain-reordered', 'break', [(TCF, '                if velocity < _cMinimumVelocity:\n                    reason = RangeError.MinimumVelocityReached\n                elif range_vector.y < _cMaximumDrop:\n                    reason = RangeError.MaximumDropReached', '                if range_vector.y < _cMaximumDrop:\n                    reason = RangeError.MaximumDropReached\n                elif velocity < _cMinimumVelocity:\n                    reason = RangeError.MinimumVelocityReached')], 'C04.R1', 'precedence changed'),
    Variant('last-distance-from-first-row', 'break', [(EXF, 'self.last_distance = ranges[-1].distance', 'self.last_distance = ranges[0].distance')], 'C04.R3', '', 'pass'),
    Variant('limits-only-when-recording', 'break', [(TCF, '            if (\n                    velocity < _cMinimumVelocity\n                    or range_vector.y < _cMaximumDrop\n                    or self.alt0 + range_vector.y < _cMinimumAltitude\n            ):', '            if filter_flags and (\n                    velocity < _cMinimumVelocity\n                    or range_vector.y < _cMaximumDrop\n                    or self.alt0 + range_vector.y < _cMinimumAltitude\n            ):')], 'C04', 'the zero finder then never stops on a limit', 'pass'),
    Variant('last-row-before-velocity-update', 'break', [(TCF, '            velocity = velocity_vector.magnitude()  # Velocity relative to ground\n            time += delta_time\n', '            time += delta_time\n'), (TCF, '            if (\n                    velocity < _cMinimumVelocity', '            velocity = velocity_vector.magnitude()  # Velocity relative to ground\n            if (\n                    velocity * 0.99 < _cMinimumVelocity')], 'C04.R1', 'tested quantity differs from the reported one'),
    Variant('altitude-test-ignores-station', 'break', [(TCF, 'or self.alt0 + range_vector.y < _cMinimumAltitude', 'or range_vector.y < _cMinimumAltitude')], 'C04.R1'),
    Variant('drop-limit-damps-velocity', 'break', [(TCF, '            velocity_vector -= (velocity_adjusted * drag - self.gravity_vector) * delta_time  # type: ignore\n', '            velocity_vector -= (velocity_adjusted * drag - self.gravity_vector) * delta_time  # type: ignore\n            if range_vector.y < _cMaximumDrop / 2:\n                velocity_vector = velocity_vector * 0.999\n')], 'C04.R2', 'a limit perturbs earlier rows'),
    Variant('copy-of-rows-attached', 'break', [(EXF, 'self.incomplete_trajectory = ranges\n', 'self.incomplete_trajectory = ranges[:-1]\n')], 'C04.R3', 'the violating row is not attached'),
    Variant('le-instead-of-lt', 'break', [(TCF, '                    velocity < _cMinimumVelocity\n                    or', '                    velocity <= _cMinimumVelocity\n                    or')], 'C04.R1', 'guard and reason chain disagree at equality'),
    Variant('twin-predicates-hoisted', 'twin', [(TCF, '            if (\n                    velocity < _cMinimumVelocity\n                    or range_vector.y < _cMaximumDrop\n                    or self.alt0 + range_vector.y < _cMinimumAltitude\n            ):', '            too_slow = velocity < _cMinimumVelocity\n            too_low = range_vector.y < _cMaximumDrop\n            if (\n                    too_slow\n                    or too_low\n                    or self.alt0 + range_vector.y < _cMinimumAltitude\n            ):')], None),
]
