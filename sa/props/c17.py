"""C17 - Powder temperature sensitivity is linear, anchored and reproduces calibration."""
from __future__ import annotations

import ast
from typing import Dict, List, Optional, Tuple

from .. import algebra as A
from ..abseval import (Cond, Const, Ctx, EnumVal, Evaluator, Inst, NONE, Raised, Scalar, State, S, SymObj, Test, Undecided,
                       cond_leaves)
from ..check import Variant
from ..loader import AnalysisError, Program, dotted, norm
from . import common as C

ID = 'C17'
TECHNIQUE = ('abstract evaluation of Ammo.get_velocity_for_temp / calc_powder_sens / Atmo.__init__ to '
             'rational normal forms; the calibration identity is checked in each of the four strict orderings'
             ' of the two measurements (the code touches them only through <, fabs and == 0); the solver '
             'wiring by evaluation of _init_trajectory around a recorder of get_velocity_for_temp, on a fresh'
             ' solver and on a second shot with the same ammunition; Ammo.__init__ evaluated for every '
             'combination of switch and modifier')
DECIDED = [
    'R1 sensitivity disabled: the stated velocity is returned on every path',
    'R2 enabled: v(T) = v0 + m * v0/15 * (T - T0) in Celsius and m/s (degree 1, anchored at T0, slope m '
    'v0/15)',
    'R3 the modifier stored by calc_powder_sens makes v(t1) = v1 in all four strict orderings (v1 <> v0, t1 '
    '<> t0), and equal measurements are rejected',
    'R4 after _init_trajectory - on a fresh solver and again for a second shot on the same solver with the '
    'same ammunition and another atmosphere - the launch speed is what ammo.get_velocity_for_temp returned '
    "for the powder temperature of that shot's atmosphere, read in fps; no other method overwrites it; the "
    'solver never reads ammo.mv, and Atmo keeps the given powder temperature, falling back to the air '
    'temperature only when none is given',
    'R3b / R4b the calibration is evaluated with the sensitivity switch on and off on an ammunition that '
    'already carries a modifier; with neither air nor powder temperature given the powder is at the air '
    'temperature the Atmo object itself reports',
    'R3c Ammo.__init__ stores the sensitivity switch and the modifier as given (switch on / off x no modifier'
    ' / 0 / m), so an ammunition built with the switch on and calibrated afterwards reproduces the second '
    'measurement',
]
NOT_DECIDED = [
    'nothing further',
]


def _celsius(ev, st, prog, name: str):
    """Temperature quantity whose Celsius reading is the symbol ``name``."""
    # raw is Fahrenheit in the analysed tables: construct through Unit.Celsius(x) so the rule does not assume it
    call = prog.func(C.M_UNIT, 'Unit.__call__')
    q, _ = ev.call_value(call, [S(name)], self_val=C.enum_val(prog, 'Celsius'), st=st)
    return q


def _mps(ev, st, prog, name: str):
    call = prog.func(C.M_UNIT, 'Unit.__call__')
    q, _ = ev.call_value(call, [S(name)], self_val=C.enum_val(prog, 'MPS'), st=st)
    return q


def _in_unit(ev, st, prog, q, unit: str):
    if isinstance(q, Inst):
        raw_ = st.heap[q.oid].get('_value')
        return ev.lift(lambda r_: Scalar(C.read_raw_in(ev, prog, q.cls.name, r_, unit)) if isinstance(r_, Scalar) else r_, raw_)
    return q


def _redisplay(ev, st, q, prog, unit: str):
    """Same magnitude, displayed in another unit: code that reads display values instead of converting shows up."""
    if isinstance(q, Inst):
        st.heap[q.oid]['_defined_units'] = C.enum_val(prog, unit)
    return q


def _mk_ammo(ev, st, prog, sens, modifier='m'):
    ac = prog.cls(C.M_MUN, 'Ammo')
    return ev.new_inst(st, ac, {'mv': _redisplay(ev, st, _mps(ev, st, prog, 'v0'), prog, 'KMH'),
                                'powder_temp': _redisplay(ev, st, _celsius(ev, st, prog, 'T0'), prog, 'Rankin'),
                                'temp_modifier': S(modifier) if isinstance(modifier, str) else modifier,
                                'use_powder_sensitivity': sens, 'dm': NONE})


def _sign_under(x: A.RF, positives: List[A.RF]) -> Optional[int]:
    """Sign of x when it is a numeric multiple of one of the quantities assumed positive."""
    if x.is_const():
        v = x.const_value()
        return (v > 0) - (v < 0)
    for p in positives:
        k = A.ratio_const(x, p)
        if k is not None and k != 0:
            return 1 if k > 0 else -1
    return None


def _resolve_abs(x: A.RF, positives: List[A.RF]) -> A.RF:
    def f(atom):
        if atom.kind == 'fn' and atom.name == 'abs' and len(atom.args) == 1:
            s = _sign_under(atom.args[0], positives)
            if s is not None:
                return atom.args[0] if s >= 0 else -atom.args[0]
        return None
    return x.map_atoms(f)


def _decide(test: Test, positives: List[A.RF]) -> Optional[bool]:
    if test.rf is None:
        return None
    x = _resolve_abs(test.rf, positives)
    s = _sign_under(x, positives)
    if s is None:
        return None
    if test.kind == 'nz':
        return s != 0
    if test.kind == 'pos':
        return s > 0
    if test.kind == 'nonneg':
        return s >= 0
    return None


def _pick(v, positives: List[A.RF]):
    while isinstance(v, Cond):
        d = _decide(v.test, positives)
        if d is None:
            return v
        v = v.a if d else v.b
    return v


def run(prog: Program, rep, thorough: bool) -> None:
    A.reset()
    rep.rule('C17.R1', 'disabled sensitivity returns the stated velocity', 1)
    rep.rule('C17.R2', 'enabled: linear, anchored, slope = modifier', 1)
    rep.rule('C17.R3', 'calibration reproduces the second measurement in every ordering', 5)
    rep.rule('C17.R4', 'solver and atmosphere wiring of the powder temperature', 5)
    mun = prog.module(C.M_MUN)
    ev = Evaluator(prog, hooks=C.pref_hooks(prog), opaque={'calculate_air_density', 'machF', 'standard_pressure',
                                                             'standard_temperature'})
    gv = prog.func(C.M_MUN, 'Ammo.get_velocity_for_temp')
    cps = prog.func(C.M_MUN, 'Ammo.calc_powder_sens')
    rep.saw(gv)
    rep.saw(cps)

    # ---- R1 ------------------------------------------------------------------------------------
    st = State()
    ammo = _mk_ammo(ev, st, prog, Const(False))
    try:
        r, st = ev.call_value(gv, [_celsius(ev, st, prog, 'T')], self_val=ammo, st=st)
    except Undecided as exc:
        raise AnalysisError(f'get_velocity_for_temp (disabled): {exc}') from exc
    bad = None
    for path, leaf in cond_leaves(r):
        raw = _in_unit(ev, st, prog, leaf, 'MPS') if isinstance(leaf, Inst) else None
        if not (isinstance(raw, Scalar) and raw.rf.equals(A.sym('v0'))):
            bad = f'returns {raw if raw is not None else leaf!r} m/s instead of the stated velocity v0'
    if bad:
        rep.fail('C17.R1', mun.path, gv.node.lineno, gv.qualname, 'disabled', f'sensitivity disabled: {bad}')
    else:
        rep.ok('C17.R1', gv.where, 'use_powder_sensitivity false -> velocity v0 on every path')

    # ---- R2 ------------------------------------------------------------------------------------
    def reader(mod_value) -> Optional[A.RF]:
        st2 = State()
        am = _mk_ammo(ev, st2, prog, Const(True), mod_value)
        r2, st2 = ev.call_value(gv, [_redisplay(ev, st2, _celsius(ev, st2, prog, 'T'), prog, 'Fahrenheit')], self_val=am, st=st2)
        outs = []
        for _p, leaf in cond_leaves(r2):
            raw = _in_unit(ev, st2, prog, leaf, 'MPS') if isinstance(leaf, Inst) else None
            if isinstance(raw, Scalar):
                outs.append(raw.rf)
            else:
                return None
        if len(outs) != 1:
            return None
        return outs[0]
    try:
        v_of_T = reader('m')
    except Undecided as exc:
        raise AnalysisError(f'get_velocity_for_temp (enabled): {exc}') from exc
    v0, m, T, T0 = A.sym('v0'), A.sym('m'), A.sym('T'), A.sym('T0')
    want = v0 + m * v0 / 15 * (T - T0)
    # a bare number as query temperature must take the same path (no test on the number itself)
    st_b = State()
    am_b = _mk_ammo(ev, st_b, prog, Const(True))
    rb, st_b = ev.call_value(gv, [S('Tbare')], self_val=am_b, st=st_b)
    bare_guards = [t for p_, _l in cond_leaves(rb) for t, _pol in p_
                   if (t.rf is not None and 'Tbare' in t.rf.symbols()) or 'Tbare' in t.key]
    if bare_guards:
        rep.fail('C17.R2', mun.path, gv.node.lineno, gv.qualname, 'bare-query',
                 f'with sensitivity enabled the result depends on a test of the query temperature itself ({bare_guards[0]!r}): '
                 f'a bare 0 does not give the point on the line')
    if v_of_T is not None and v_of_T.equals(want):
        rep.ok('C17.R2', gv.where, f'v(T) = {want!r}: linear in T, v(T0) = v0, slope m*v0/15')
    else:
        rep.fail('C17.R2', mun.path, gv.node.lineno, gv.qualname, 'enabled',
                 f'enabled: v(T) = {v_of_T!r}; the statement says {want!r}')

    # ---- R3 ------------------------------------------------------------------------------------
    # calibrated on an ammunition that already carries a modifier m, with the sensitivity switch on and off
    for sens_on, tag in ((True, ''), (False, ' (sensitivity switched off while calibrating, earlier modifier m)')):
        st = State()
        ammo = _mk_ammo(ev, st, prog, Const(sens_on))
        try:
            ret, st = ev.call_value(cps, [_redisplay(ev, st, _mps(ev, st, prog, 'v1'), prog, 'KT'),
                                          _redisplay(ev, st, _celsius(ev, st, prog, 't1'), prog, 'Kelvin')], self_val=ammo, st=st)
        except Undecided as exc:
            raise AnalysisError(f'calc_powder_sens: {exc}') from exc
        stored = st.heap[ammo.oid].get('temp_modifier')
        v1, t1 = A.sym('v1'), A.sym('t1')
        orderings = [('second faster and warmer', [v1 - v0, t1 - T0]), ('second faster and colder', [v1 - v0, T0 - t1]),
                     ('second slower and warmer', [v0 - v1, t1 - T0]), ('second slower and colder', [v0 - v1, T0 - t1])]
        for label, pos in orderings:
            mval = _pick(stored, pos)
            rv = _pick(ret, pos)
            if isinstance(mval, Raised) or isinstance(rv, Raised) or not isinstance(mval, Scalar):
                rep.fail('C17.R3', mun.path, cps.node.lineno, cps.qualname, f'ordering:{label}{tag}',
                         f'calibration with {label}: no modifier is stored ({mval!r})')
                continue
            mrf = _resolve_abs(mval.rf, pos)
            # substitute the stored modifier into the reader and evaluate at T = t1
            got = v_of_T.subs({'m': mrf, 'T': t1}) if v_of_T is not None else None
            if got is not None and got.equals(v1):
                rep.ok('C17.R3', cps.where, f'{label}{tag}: stored modifier {mrf!r} gives v(t1) = v1')
            else:
                rep.fail('C17.R3', mun.path, cps.node.lineno, cps.qualname, f'ordering:{label}{tag}',
                         f'calibration with {label}{tag}: stores m = {mrf!r}; the ammunition then gives v(t1) = {got!r}, '
                         f'not the measured v1')
    # the usual order of use - build the ammunition with the switch on and no modifier yet, then calibrate - works only
    # when the constructor keeps the switch (and the modifier) as given: Ammo.__init__ evaluated for every combination
    ac = prog.cls(C.M_MUN, 'Ammo')
    ctor_bad = []
    n_ctor = 0
    for sw in (True, False):
        for mod_label, mod_kw in (('no modifier given', {}), ('modifier 0', {'temp_modifier': Scalar(0)}), ('a modifier m', {'temp_modifier': S('m')})):
            evc = Evaluator(prog, hooks={**C.pref_hooks(prog), **C.no_wrap_hooks()})
            stc = State()
            try:
                obj = evc.construct(ac, [SymObj('dm'), _mps(evc, stc, prog, 'v0')],
                                    {'powder_temp': _celsius(evc, stc, prog, 'T0'), 'use_powder_sensitivity': Const(sw), **mod_kw},
                                    stc, Ctx(mun, None, None, 0))
            except Undecided as exc:
                raise AnalysisError(f'Ammo.__init__: {exc}') from exc
            if not isinstance(obj, Inst):
                raise AnalysisError(f'Ammo(...) evaluates to {obj!r}')
            hsw = stc.heap[obj.oid].get('use_powder_sensitivity')
            alts = [x for _cp, x in cond_leaves(hsw)] if hsw is not None else []
            n_ctor += 1
            if not alts or not all(isinstance(x, Const) and bool(x.value) is sw for x in alts):
                ctor_bad.append(f'Ammo(..., use_powder_sensitivity={sw}) with {mod_label} stores the switch as {hsw!r}')
            hm = stc.heap[obj.oid].get('temp_modifier')
            want_m = A.sym('m') if 'a modifier' in mod_label else A.rf(0)
            if not all(isinstance(x, Scalar) and x.rf.equals(want_m) for _cp, x in cond_leaves(hm)):
                ctor_bad.append(f'Ammo(...) with {mod_label} stores the modifier {hm!r}')
    if ctor_bad:
        init_f = prog.func(C.M_MUN, 'Ammo.__init__')
        rep.fail('C17.R3', mun.path, init_f.node.lineno, init_f.qualname, 'constructor',
                 ctor_bad[0] + ': an ammunition built with the switch on and calibrated afterwards does not reproduce the second '
                 'measurement')
    else:
        rep.ok('C17.R3', f'{mun.path}:{ac.node.lineno}', f'Ammo.__init__ keeps the switch and the modifier as given ({n_ctor} combinations): '
               f'calibrating after construction takes effect')
    # equal measurements are rejected
    rejected = True
    for path, leaf in cond_leaves(ret):
        eq = any((t.kind == 'nz' and not pol) for t, pol in path)
        if eq and not isinstance(leaf, Raised):
            rejected = False
    if rejected and any(isinstance(x, Raised) for _p, x in cond_leaves(ret)):
        rep.ok('C17.R3', cps.where, 'equal velocities or equal temperatures raise')
    else:
        rep.fail('C17.R3', mun.path, cps.node.lineno, cps.qualname, 'equal-measurements',
                 'a second measurement equal to the baseline is not rejected on every path')

    # ---- R4 ------------------------------------------------------------------------------------
    tc = prog.module(C.M_TC)
    it = prog.func(C.M_TC, 'TrajectoryCalc._init_trajectory')
    rep.saw(it)
    # by evaluation: _init_trajectory on a symbolic shot, with Ammo.get_velocity_for_temp replaced by a recorder that
    # hands back a fresh velocity symbol in km/h; the launch speed must be that symbol read in fps, and the recorder
    # must have been asked for the powder temperature the Atmo object carries
    from .c01 import init_trajectory_state
    asked = []

    def gv_hook(ev_, func, args, kwargs, st_, self_val):
        asked.append(args[0] if args else next(iter(kwargs.values()), None))
        return C.mk_quantity(ev_, st_, prog, 'Velocity', f'gv_raw{len(asked)}', 'KMH')
    ev4, st4, self4, shot4 = init_trajectory_state(prog, {'call:Ammo.get_velocity_for_temp': gv_hook})
    # a second shot on the same solver: same rifle and ammunition, another atmosphere
    h_shot = st4.heap[shot4.oid]
    atmo_b = ev4.new_inst(st4, prog.cls(C.M_COND, 'Atmo'), dict(st4.heap[h_shot['atmo'].oid]))
    st4.heap[atmo_b.oid]['_powder_temp'] = C.mk_quantity(ev4, st4, prog, 'Temperature', 'apt_raw2', 'Kelvin')
    shot_b = ev4.new_inst(st4, prog.cls(C.M_COND, 'Shot'), {**h_shot, 'atmo': atmo_b})
    states = [(1, st4.heap[self4.oid].get('muzzle_velocity'), 'apt_raw')]
    try:
        r2 = ev4.call_func(it, [shot_b], {}, st4, Ctx(tc, None, None, 0), self_val=self4)
    except Undecided as exc:
        raise AnalysisError(f'_init_trajectory (second shot on the same solver): {exc}') from exc
    if isinstance(r2, Raised):
        raise AnalysisError('_init_trajectory raises on the second shot in the abstract evaluation')
    states.append((2, st4.heap[self4.oid].get('muzzle_velocity'), 'apt_raw2'))
    bad = None
    for k, got, apt_sym in states:
        if got is None:
            raise AnalysisError('_init_trajectory leaves no muzzle_velocity on the solver')
        vals = [x for _p, x in cond_leaves(got)]
        ordinal = 'first' if k == 1 else 'second (same solver, same ammunition, another atmosphere)'
        wants = [C.read_raw_in(ev4, prog, 'Velocity', f'gv_raw{j}', 'FPS') for j in range(1, len(asked) + 1)]
        mine = [j for j, w_ in enumerate(wants, 1) if vals and all(isinstance(x, Scalar) and x.rf.equals(w_) for x in vals)]
        if not mine:
            bad = f'{ordinal} shot: the launch speed is {got!r}, not ammo.get_velocity_for_temp(...) read in fps'
            break
        a_ = asked[mine[-1] - 1]
        raw_ = C.raw_of(ev4, st4, a_) if isinstance(a_, Inst) else None
        if raw_ is None or not raw_.equals(A.sym(apt_sym)):
            bad = (f'{ordinal} shot: the velocity comes from a query at {ev4.describe(a_)}, not at the powder temperature of '
                   f'this shot\'s atmosphere')
            break
    if bad:
        rep.fail('C17.R4', tc.path, it.node.lineno, it.qualname, 'muzzle_velocity', bad)
    else:
        rep.ok('C17.R4', it.where, 'muzzle_velocity = ammo.get_velocity_for_temp(atmo.powder_temp) read in fps, on a fresh '
               'solver and on a second shot with the same ammunition')
    # no later store replaces it
    other = [(f, n) for f in tc.funcs.values() if f is not it for n in ast.walk(f.node)
             if isinstance(n, (ast.Assign, ast.AugAssign, ast.AnnAssign))
             for t in (n.targets if isinstance(n, ast.Assign) else [n.target])
             if isinstance(t, ast.Attribute) and t.attr == 'muzzle_velocity']
    for f, n in other:
        rep.fail('C17.R4', tc.path, n.lineno, f.qualname, 'muzzle_velocity',
                 f'{f.qualname} overwrites the launch speed: `{norm(n)[:90]}`')
    mv_reads = [(f, n) for f in tc.funcs.values() for n in ast.walk(f.node)
                if isinstance(n, ast.Attribute) and n.attr == 'mv' and isinstance(n.ctx, ast.Load)]
    if mv_reads:
        f, n = mv_reads[0]
        rep.fail('C17.R4', tc.path, n.lineno, f.qualname, 'reads-mv',
                 f'the solver reads the stated velocity directly: {norm(n)}')
    else:
        rep.ok('C17.R4', it.where, 'the solver never reads ammo.mv')
    # Atmo keeps the powder temperature given, falls back to air temperature only when absent
    atmo_c = prog.cls(C.M_COND, 'Atmo')
    ainit = prog.func(C.M_COND, 'Atmo.__init__')
    rep.saw(ainit)
    cond = prog.module(C.M_COND)
    for label, powder in (('given', lambda st: _celsius(ev, st, prog, 'PT')), ('absent', lambda st: NONE),
                          ('and air temperature absent', lambda st: NONE)):
        st = State()
        kw = {'altitude': C.mk_quantity(ev, st, prog, 'Distance', 'alt', 'Foot'),
              'pressure': C.mk_quantity(ev, st, prog, 'Pressure', 'prs', 'MmHg'),
              'temperature': NONE if label.startswith('and') else _celsius(ev, st, prog, 'AT'),
              'humidity': Scalar(0), 'powder_t': powder(st)}
        try:
            obj = ev.construct(atmo_c, [], kw, st, Ctx(cond, None, None, 0))
        except Undecided as exc:
            raise AnalysisError(f'Atmo.__init__: {exc}') from exc
        outs = []
        airs = []
        for _p, leaf in cond_leaves(obj):
            if isinstance(leaf, Inst):
                pt = ev.getattr(leaf, 'powder_temp', st, Ctx(cond, None, None, 0))
                outs.append(_in_unit(ev, st, prog, pt, 'Celsius'))
                airs.append(_in_unit(ev, st, prog, ev.getattr(leaf, 'temperature', st, Ctx(cond, None, None, 0)), 'Celsius'))
        expect = A.sym('PT') if label == 'given' else A.sym('AT')
        if label.startswith('and'):
            # neither given: the powder is at the air temperature the object itself reports (standard at its altitude)
            def _key(v):
                return ('rf', v.rf.key() if hasattr(v.rf, 'key') else repr(v.rf)) if isinstance(v, Scalar) else \
                    ('sym', v.path) if isinstance(v, SymObj) else ('?', repr(v))
            if not airs or any(_key(a_)[0] == '?' for a_ in airs):
                raise AnalysisError(f'Atmo.temperature without arguments is {airs!r}')
            if len(outs) == len(airs) and all(_key(o) == _key(a_) for o, a_ in zip(outs, airs)):
                rep.ok('C17.R4', ainit.where, 'neither temperature given: the powder is at the air temperature the object reports')
            else:
                rep.fail('C17.R4', cond.path, ainit.node.lineno, ainit.qualname, 'powder-default-air',
                         f'neither temperature given: Atmo.powder_temp is {outs!r} while the air temperature of the object is '
                         f'{airs!r} (standard at its altitude)')
            continue
        if outs and all(isinstance(o, Scalar) and o.rf.equals(expect) for o in outs):
            rep.ok('C17.R4', ainit.where, f'powder temperature {label}: Atmo.powder_temp = {expect!r}')
        else:
            rep.fail('C17.R4', cond.path, ainit.node.lineno, ainit.qualname, f'powder-{label}',
                     f'powder temperature {label}: Atmo.powder_temp is {outs!r}, expected {expect!r}')


MUN = 'py_ballisticcalc/munition.py'
TCF = 'py_ballisticcalc/trajectory_calc/_trajectory_calc.py'
CON = 'py_ballisticcalc/conditions.py'
VARIANTS = [
    Variant('slope-constant-in-reader-only', 'break', [(MUN, 'self.temp_modifier / (15 / v0) * t_delta + v0', 'self.temp_modifier / (10 / v0) * t_delta + v0')], 'C17.R2', 'sibling disagreement', 'pass'),
    Variant('reader-sign-flip', 'break', [(MUN, 't_delta = t1 - t0\n            muzzle_velocity', 't_delta = t0 - t1\n            muzzle_velocity')], 'C17.R2'),
    Variant('default-powder-temperature-sea-level-standard', 'break', [(CON, 'self._powder_temp = PreferredUnits.temperature(self.temperature if powder_t is None else powder_t)', 'self._powder_temp = PreferredUnits.temperature((Temperature.Fahrenheit(cStandardTemperatureF) if temperature is None else self.temperature) if powder_t is None else powder_t)')], 'C17.R4', 'seeded change C17/5: altitude ignored when no air temperature is given'),
    Variant('solver-uses-air-temperature', 'break', [(TCF, 'get_velocity_for_temp(shot_info.atmo.powder_temp)', 'get_velocity_for_temp(shot_info.atmo.temperature)')], 'C17.R4', 'positive control', 'caught'),
    Variant('solver-reads-mv', 'break', [(TCF, 'self.muzzle_velocity = shot_info.ammo.get_velocity_for_temp(shot_info.atmo.powder_temp) >> Velocity.FPS', 'self.muzzle_velocity = shot_info.ammo.mv >> Velocity.FPS')], 'C17.R4', 'positive control', 'caught'),
    Variant('disabled-path-weakened', 'break', [(MUN, '        if not self.use_powder_sensitivity:\n            return self.mv\n', '        if not self.use_powder_sensitivity and not self.temp_modifier:\n            return self.mv\n')], 'C17.R1', 'positive control', 'caught'),
    Variant('atmo-powder-fallback-always', 'break', [(CON, 'PreferredUnits.temperature(self.temperature if powder_t is None else powder_t)', 'PreferredUnits.temperature(self.temperature)'), ], 'C17.R4'),
    Variant('calibration-rejects-nothing', 'break', [(MUN, 'if v_delta == 0 or t_delta == 0:', 'if v_delta == 0 and t_delta == 0:')], 'C17.R3'),
    Variant('calibration-by-slower-velocity', 'break', [(MUN, 'self.temp_modifier = v_delta / t_delta * (15 / v0)', 'self.temp_modifier = v_delta / t_delta * (15 / min(v0, v1))')], 'C17.R3', 'the defect repaired by 5912e58'),
    Variant('calibration-abs-deltas', 'break', [(MUN, 'v_delta = v1 - v0\n', 'v_delta = abs(v1 - v0)\n')], 'C17.R3', 'signs dropped'),
    Variant('query-zero-means-not-given', 'break', [(MUN, '        if not self.use_powder_sensitivity:\n            return self.mv\n', '        if not self.use_powder_sensitivity or not current_temp:\n            return self.mv\n')], 'C17.R2', 'a bare 0 query returns the stated velocity'),
    Variant('calibration-from-display-values', 'break', [(MUN, '        v0 = self.mv >> Velocity.MPS\n        t0 = self.powder_temp >> Temperature.Celsius\n        v1 = PreferredUnits.velocity(other_velocity) >> Velocity.MPS', '        v0 = self.mv.unit_value\n        t0 = self.powder_temp >> Temperature.Celsius\n        v1 = PreferredUnits.velocity(other_velocity).unit_value')], 'C17.R3', 'ratio of display values: wrong once mv is displayed in another unit'),
    Variant('twin-disabled-fresh-quantity', 'twin', [(MUN, '        if not self.use_powder_sensitivity:\n            return self.mv\n', '        if not self.use_powder_sensitivity:\n            return Velocity.MPS(self.mv >> Velocity.MPS)\n')], None),
    Variant('twin-reader-respelled', 'twin', [(MUN, 'self.temp_modifier / (15 / v0) * t_delta + v0', 'v0 + self.temp_modifier * v0 * t_delta / 15')], None),
]
