"""C13 - A quantity's magnitude is immutable and comparisons follow magnitude."""
from __future__ import annotations

import ast
from typing import Dict, List, Optional, Set

from .. import algebra as A
from ..abseval import (Cond, Const, Ctx, DictVal, EnumVal, Evaluator, Inst, Raised, Scalar, State, S, SymObj, Undecided,
                       cond_leaves)
from ..check import Variant
from ..loader import AnalysisError, ClassInfo, Func, Program, dotted, find_func_for_node, norm
from . import common as C

ID = 'C13'
TECHNIQUE = ('who-may-write inventory of every syntactic attribute store in the package (magnitude written '
             'only at construction), abstract evaluation of the comparisons - taken through the operator, so '
             'that a method bound in the class body to a function object is followed - to guard normal forms,'
             ' field-read sets of __hash__ vs __eq__, and exhaustive evaluation of to_raw/from_raw on the '
             '7x34 foreign units')
DECIDED = [
    'R1 the magnitude field is stored only in AbstractDimension.__init__ and on fresh objects from '
    'object.__new__ (fast constructors); convert and its aliases store the display unit only; no setter / '
    '__setattr__ / __dict__ route',
    'R2 ==, <, >, <=, >= on a quantity (against a number and against a quantity in another, unknown display '
    'unit) are defined once, on AbstractDimension, compare the base-unit magnitude with the operator of their'
    ' own name and read nothing else (__ne__ inherited from __eq__)',
    'R3 __hash__ reads a subset of what __eq__ reads and nothing that is written after construction',
    'R4 to_raw / from_raw of every dimension raise on every path for each of the 34 units of other dimensions',
    'R5 get_in (>>) raises, and convert (<<) and Unit.X(quantity) raise or hand back a quantity whose '
    'unit_value / get_in raise, on every path for every quantity dimension and each unit of another dimension'
    ' (7 x 3 x 34 evaluations); no memoising decorator on the quantity classes or on Unit',
]
NOT_DECIDED = [
    'nothing further (the magnitude of a quantity reached through an arbitrary alias is covered by the who-'
    'may-write inventory, which is name based: an attribute called _value is assumed to be the magnitude)',
]

MAG = '_value'
DISPLAY = '_defined_units'


def _self_reads(prog: Program, ci: ClassInfo, func: Func, seen: Optional[Set[str]] = None) -> Set[str]:
    """Fields of ``self`` read by func, transitively through self.method() / self.prop / float(self)."""
    seen = seen if seen is not None else set()
    if func.fq in seen:
        return set()
    seen.add(func.fq)
    selfname = func.positional[0] if func.positional else 'self'
    out: Set[str] = set()
    for n in ast.walk(func.node):
        if isinstance(n, ast.Attribute) and isinstance(n.value, ast.Name) and n.value.id == selfname \
                and isinstance(n.ctx, ast.Load):
            m = prog.find_method(ci, n.attr)
            if m is not None:
                out |= _self_reads(prog, ci, m, seen)
            elif prog.find_class_attr(ci, n.attr) is None or n.attr in (MAG, DISPLAY):
                out.add(n.attr)
        elif isinstance(n, ast.Call) and isinstance(n.func, ast.Name) and n.func.id in ('float', 'int', 'str', 'repr',
                                                                                       'hash', 'bool', 'abs') \
                and n.args and isinstance(n.args[0], ast.Name) and n.args[0].id == selfname:
            m = prog.find_method(ci, f'__{n.func.id}__')
            if m is not None:
                out |= _self_reads(prog, ci, m, seen)
    return out


def run(prog: Program, rep, thorough: bool) -> None:
    A.reset()
    rep.rule('C13.R1', 'magnitude written only at construction', 1 + 1 + 3 + 2)   # slots, >= 1 store site, hooks / ops / convert, memo
    rep.rule('C13.R2', 'comparison dunders compare the magnitude only', 5 + 1)
    rep.rule('C13.R3', 'hash reads a subset of what equality reads', 1)
    rep.rule('C13.R4', 'foreign units raise', 14)
    rep.rule('C13.R5', 'get_in / convert / Unit.X(quantity) never yield a number in a foreign unit', 21)
    umod = prog.module(C.M_UNIT)
    base = prog.cls(C.M_UNIT, 'AbstractDimension')
    dims = C.dimension_classes(prog)
    hierarchy = [base] + list(dims.values())
    hier_names = {c.name for c in hierarchy}

    # ---- R1 ----------------------------------------------------------------------------------
    init = prog.find_method(base, '__init__')
    if init is None:
        raise AnalysisError('AbstractDimension.__init__ vanished')
    rep.saw(init)
    slots = None
    if '__slots__' in base.attrs:
        try:
            slots = tuple(ast.literal_eval(base.attrs['__slots__'][1]))
        except (ValueError, SyntaxError):
            slots = None
    if slots is None or MAG not in slots:
        rep.fail('C13.R1', umod.path, base.node.lineno, base.name, '__slots__',
                 f'AbstractDimension no longer declares __slots__ containing {MAG!r}: {slots!r}')
    else:
        rep.ok('C13.R1', f'{umod.path}:{base.node.lineno}', f'__slots__ = {slots}')
    n_mag = 0
    for s in C.iter_attr_stores(prog):
        attr = s.attr
        fn = s.func
        in_hierarchy = fn is not None and fn.cls is not None and fn.cls.name in hier_names
        if attr is None:
            # dynamic attribute name: only relevant on a quantity
            if in_hierarchy:
                rep.fail('C13.R1', s.module.path, s.node.lineno, fn.qualname, f'dynamic:{s.form}',
                         f'{s.form} with a computed attribute name inside a quantity class: may rewrite the magnitude')
            continue
        if attr == MAG:
            n_mag += 1
            where = f'{s.module.path}:{s.node.lineno}'
            if s.form != 'assign' or not isinstance(getattr(s.node, '_parent', None), (ast.Assign, ast.AnnAssign)):
                rep.fail('C13.R1', s.module.path, s.node.lineno, fn.qualname if fn else '<module>',
                         f'{s.base_text}.{MAG}:{s.form}',
                         f'the magnitude is modified through `{s.form}` ({norm(getattr(s.node, "_parent", s.node))[:70]})')
                continue
            if fn is init and isinstance(s.base, ast.Name) and s.base.id == init.positional[0]:
                rep.ok('C13.R1', where, 'magnitude stored in AbstractDimension.__init__')
                continue
            if fn is not None and isinstance(s.base, ast.Name):
                fresh = C.fresh_object_locals(fn.node, prog, s.module)
                if s.base.id in fresh and fresh[s.base.id] in hier_names:
                    rep.ok('C13.R1', where, f'magnitude stored on a fresh {fresh[s.base.id]} from object.__new__ '
                           f'in {fn.qualname}')
                    continue
            rep.fail('C13.R1', s.module.path, s.node.lineno, fn.qualname if fn else '<module>',
                     f'{s.base_text}.{MAG}',
                     f'the magnitude of an existing quantity is written outside construction: '
                     f'`{norm(getattr(s.node, "_parent", s.node))[:80]}`')
        elif in_hierarchy and isinstance(s.base, ast.Name) and fn.positional and s.base.id == fn.positional[0]:
            # other stores on self inside the hierarchy
            if attr == DISPLAY and fn.name in ('__init__', 'convert', '__lshift__', '__rlshift__', '__ilshift__'):
                continue            # the conversion family: `q << unit` is the operator form of convert
            if attr == DISPLAY:
                # the display unit written by another operation: the magnitude is untouched, which is all the statement
                # asks; whether that operation should re-label the quantity is not decided here
                rep.undecided('C13.R1', f'{s.module.path}:{s.node.lineno}', f'{fn.qualname} stores self.{attr}',
                              'a display-unit store outside the conversion family: harmless to the magnitude, not judged')
                continue
            rep.fail('C13.R1', s.module.path, s.node.lineno, fn.qualname, f'self.{attr}',
                     f'{fn.qualname} stores self.{attr}: only __init__ and convert may write a quantity, '
                     f'and only the display unit after construction')
    # no setter / __setattr__ / __setstate__ in the hierarchy
    bad_hooks = []
    for c in hierarchy:
        for nm in ('__setattr__', '__setstate__', '__delattr__', '__getattribute__'):
            if nm in c.methods:
                bad_hooks.append(f'{c.name}.{nm}')
        for nm in c.setters:
            bad_hooks.append(f'{c.name}.{nm}.setter')
    if bad_hooks:
        rep.fail('C13.R1', umod.path, base.node.lineno, base.name, 'hooks',
                 f'attribute hooks or setters on a quantity class: {bad_hooks}')
    else:
        rep.ok('C13.R1', f'{umod.path}:{base.node.lineno}', 'no setter, __setattr__, __setstate__ in the quantity classes')
    # re-initialisation: `q.__init__(value, units)` on an existing quantity runs the constructor's store again
    dim_names = {c.name for c in hierarchy}
    n_reinit = 0
    for mod in prog.modules.values():
        for call in ast.walk(mod.tree):
            if not (isinstance(call, ast.Call) and isinstance(call.func, ast.Attribute) and call.func.attr == '__init__'):
                continue
            recv = call.func.value
            if isinstance(recv, ast.Call) and (dotted(recv.func) or '') == 'super':
                continue
            fn = find_func_for_node(prog, mod, call)
            if isinstance(recv, ast.Name) and prog.resolve_class(mod, recv.id) is not None and call.args \
                    and isinstance(call.args[0], ast.Name) and fn is not None and fn.positional[:1] == [call.args[0].id]:
                continue        # Base.__init__(self, ...): chaining inside a constructor
            tested = fn is not None and any(
                isinstance(t, ast.Call) and (dotted(t.func) or '') == 'isinstance' and len(t.args) == 2
                and norm(t.args[0]) == norm(recv)
                and any(isinstance(x, ast.Name) and x.id in dim_names for x in ast.walk(t.args[1]))
                for t in ast.walk(fn.node))
            n_reinit += 1
            if tested:
                rep.fail('C13.R1', mod.path, call.lineno, fn.qualname, f'reinit:{norm(recv)[:30]}',
                         f'`{norm(call)[:70]}` runs the constructor again on an existing quantity (the function tests it with '
                         f'isinstance against a quantity class): its magnitude is rewritten after construction, and every holder of '
                         f'that object sees another value')
            else:
                rep.undecided('C13.R1', mod.where(call), f'`{norm(call)[:60]}`', 'an explicit __init__ call on an object whose class '
                              'the rule does not know: a magnitude rewrite if it is a quantity')
    if not n_reinit:
        rep.ok('C13.R1', f'{umod.path}:{base.node.lineno}', 'no explicit __init__ call on an existing object in the package')
    # convert evaluated: magnitude untouched, display unit replaced, same object returned
    ev = Evaluator(prog, hooks={'inst_dict': lambda ev_, inst, st: DictVal({})})
    conv = prog.find_method(base, 'convert')
    if conv is None:
        raise AnalysisError('AbstractDimension.convert vanished')
    rep.saw(conv)
    for opname in ('convert', '__lshift__', '__rlshift__'):
        m = prog.find_method(dims['Distance'], opname)
        st = State()
        q = C.mk_quantity(ev, st, prog, 'Distance', 'raw', 'Yard')
        try:
            r, st = ev.call_value(m, [C.enum_val(prog, 'Meter')], self_val=q, st=st)
        except Undecided as exc:
            raise AnalysisError(f'{opname}: {exc}') from exc
        ok = all(isinstance(x, Inst) for _p, x in cond_leaves(r))
        mags = []
        for _p, x in cond_leaves(r):
            if isinstance(x, Inst):
                mags.append(st.heap[x.oid].get(MAG))
        kept = isinstance(st.heap[q.oid].get(MAG), Scalar) and st.heap[q.oid][MAG].rf.equals(A.sym('raw'))
        same_mag = all(isinstance(mv, Scalar) and mv.rf.equals(A.sym('raw')) for mv in mags)
        if ok and kept and same_mag:
            rep.ok('C13.R1', m.where, f'{opname}: magnitude of operand and result stays `raw`')
        else:
            rep.fail('C13.R1', umod.path, m.node.lineno, m.qualname, opname,
                     f'{opname} changes the magnitude: operand {st.heap[q.oid].get(MAG)!r}, result {mags!r}')

    # indirect routes: a function that re-runs __init__ on a live quantity, a conversion that recomputes the magnitude
    from ..effects import Effects, reachable
    eng = Effects(prog)
    for fq, sm in eng.summaries.items():
        f = eng.funcs[fq]
        for (o, fld), e in sm.effects.items():
            if fld != MAG or o[0] not in ('param', 'self', 'global'):
                continue
            if f is init and o[0] == 'self':
                continue
            if e.func == f.qualname and not e.chain:
                continue            # the direct store itself: judged by the inventory above
            if f.cls is not None and f.cls.name in hier_names or f.module is umod:
                rep.fail('C13.R1', f.module.path, f.node.lineno, f.qualname, f'indirect:{o[0]}',
                         f'{f.qualname} rewrites the magnitude of an existing quantity through a call: `{e.text}` in {e.func}',
                         list(e.chain))
    conv_reach = reachable(eng, [conv])
    forbidden = [eng.funcs[q].qualname for q in conv_reach
                 if eng.funcs[q].name in ('to_raw', 'from_raw', 'get_in', '__init__') and eng.funcs[q] is not conv
                 and eng.funcs[q].cls is not None and eng.funcs[q].cls.name in hier_names]
    new_objs = [n for n in ast.walk(conv.node) if isinstance(n, ast.Call) and (
        norm(n.func) in ('self.__class__', 'type(self)') or (isinstance(n.func, ast.Name) and n.func.id in dims))]
    if forbidden or new_objs:
        rep.fail('C13.R1', umod.path, conv.node.lineno, conv.qualname, 'convert-recomputes',
                 f'convert (and <<, PreferredUnits.<slot>(quantity)) goes through {sorted(set(forbidden)) or "a new quantity built from a converted value"}: '
                 f'the magnitude is recomputed by a round trip through the new unit instead of being kept (rounding drift; '
                 f'tangent-based units fold angles beyond 90 degrees)')
    else:
        rep.ok('C13.R1', conv.where, 'convert reaches no conversion routine and builds no new quantity: the magnitude is kept bit for bit')
    memo = []
    for c in hierarchy + [C.unit_class(prog)]:
        for nm, m in list(c.methods.items()) + list(c.setters.items()):
            for d in m.decorators:
                if d.split('.')[-1] in ('lru_cache', 'cache', 'cached_property'):
                    memo.append((c, m, d))
    if memo:
        c, m, d = memo[0]
        rep.fail('C13.R4' if m.name in ('get_in', 'from_raw', 'to_raw') else 'C13.R1', umod.path, m.node.lineno, m.qualname,
                 f'memo:{m.name}',
                 f'{m.qualname} is memoised with @{d}: the cache is keyed by __hash__/__eq__, which read the base-unit magnitude '
                 f'only, so a quantity of another dimension (or in another display unit, or a plain number equal to the '
                 f'magnitude) is answered from the cache instead of raising / being converted / being built')
    else:
        rep.ok('C13.R1', f'{umod.path}:{base.node.lineno}', 'no memoising decorator on the quantity classes')

    # ---- R2 ----------------------------------------------------------------------------------
    want = {'__eq__': ('nz', False), '__lt__': ('pos', 'b-a'), '__gt__': ('pos', 'a-b'), '__le__': ('nonneg', 'b-a'),
            '__ge__': ('nonneg', 'a-b')}
    a, b = A.sym('a'), A.sym('b')
    for name, spec in want.items():
        owners = [c.name for c in hierarchy if name in c.methods or name in c.attrs]
        m = prog.find_method(base, name)
        if owners != [base.name]:
            rep.fail('C13.R2', umod.path, base.node.lineno, base.name, name,
                     f'{name} must be defined once, on AbstractDimension; found on {owners}')
            continue
        if m is not None:
            rep.saw(m)
        OPS = {'__eq__': ast.Eq, '__lt__': ast.Lt, '__gt__': ast.Gt, '__le__': ast.LtE, '__ge__': ast.GtE}
        problems = []
        for dname_, other_kind in [(d_, k_) for d_ in sorted(dims) for k_ in ('number', 'quantity')]:
            st = State()
            q = ev.new_inst(st, dims[dname_], {MAG: S('a'), DISPLAY: SymObj('u1', C.unit_class(prog))})
            other = S('b') if other_kind == 'number' else ev.new_inst(
                st, dims[dname_], {MAG: S('b'), DISPLAY: SymObj('u2', C.unit_class(prog))})
            other_kind = f'{other_kind} ({dname_})'
            try:
                # through the operator, so that a method bound in the class body to a function object is followed too
                r = ev.compare(OPS[name](), q, other, st, Ctx(umod, None, None, 0))
            except Undecided as exc:
                raise AnalysisError(f'{name}: {exc}') from exc
            if not isinstance(r, Cond) or not isinstance(r.a, Const) or not isinstance(r.b, Const):
                unit_dep = any(('u1' in (t_.key or '') or 'u2' in (t_.key or '') or (t_.rf is not None and {'u1', 'u2'} & t_.rf.symbols()))
                               for p_, _x in cond_leaves(r) for t_, _pol in p_)
                problems.append(f'vs {other_kind}: the outcome depends on the display unit of an operand, not only on the two magnitudes'
                                if unit_dep else f'vs {other_kind}: result {r!r}'[:200])
                continue
            t = r.test
            if name == '__eq__':
                good = t.kind == 'nz' and (t.rf.equals(a - b) or t.rf.equals(b - a)) and r.a.value is False \
                    and r.b.value is True
            else:
                kind, diff = spec
                d = (b - a) if diff == 'b-a' else (a - b)
                good = t.kind == kind and t.rf.equals(d) and r.a.value is True and r.b.value is False
            if not good:
                problems.append(f'vs {other_kind}: {name} decides `{r!r}`; expected the magnitudes a, b compared '
                                f'with the operator of its name')
        if m is not None:
            reads = _self_reads(prog, base, m)
            if reads - {MAG}:
                problems.append(f'reads {sorted(reads - {MAG})} besides the magnitude')
        where_line = m.node.lineno if m is not None else base.node.lineno
        if problems:
            rep.fail('C13.R2', umod.path, where_line, m.qualname if m is not None else f'{base.name}.{name}', name, '; '.join(problems))
        else:
            rep.ok('C13.R2', f'{umod.path}:{where_line}', f'{name}: compares base-unit magnitudes only (every dimension, vs number and vs '
                   f'quantity; the two display units are distinct unknowns)')
    ne_owners = [c.name for c in hierarchy if '__ne__' in c.methods]
    if ne_owners:
        rep.fail('C13.R2', umod.path, base.node.lineno, base.name, '__ne__',
                 f'__ne__ is defined explicitly on {ne_owners}; it must stay the negation of __eq__')
    else:
        rep.ok('C13.R2', f'{umod.path}:{base.node.lineno}', '__ne__ inherited from __eq__')

    # ---- R3 ----------------------------------------------------------------------------------
    h = prog.find_method(base, '__hash__')
    eq = prog.find_method(base, '__eq__')
    h_owners = [c.name for c in hierarchy if '__hash__' in c.methods or '__hash__' in c.attrs]
    eq_bound = eq is None and '__eq__' in base.attrs       # bound in the class body to a function object: R2 decided what it compares
    if h is None and '__hash__' in base.attrs:
        raise AnalysisError('__hash__ is bound in the class body to a function object: what it reads is not traced')
    if h is None or (eq is None and not eq_bound):
        rep.fail('C13.R3', umod.path, base.node.lineno, base.name, '__hash__',
                 '__hash__ is not defined while __eq__ is: quantities would be unhashable or hash by identity')
    else:
        rep.saw(h)
        hr, er = _self_reads(prog, base, h), ({MAG} if eq_bound else _self_reads(prog, base, eq))
        mutable_after = {DISPLAY}
        extra = hr - er
        if h_owners != [base.name]:
            rep.fail('C13.R3', umod.path, h.node.lineno, h.qualname, 'owners', f'__hash__ defined on {h_owners}')
        elif extra or (hr & mutable_after):
            rep.fail('C13.R3', umod.path, h.node.lineno, h.qualname, '__hash__',
                     f'__hash__ reads {sorted(hr)} but __eq__ reads only {sorted(er)}: equal quantities in different '
                     f'display units hash differently, and `<<` / convert changes the hash of a live quantity')
        elif not hr:
            rep.fail('C13.R3', umod.path, h.node.lineno, h.qualname, '__hash__', '__hash__ reads no field of the quantity')
        else:
            rep.ok('C13.R3', h.where, f'__hash__ reads {sorted(hr)}, a subset of what __eq__ reads {sorted(er)}')

    # ---- R4 ----------------------------------------------------------------------------------
    members = C.unit_members(prog)
    ucls = C.unit_class(prog)
    for dname, ci in sorted(dims.items()):
        own = set(C.declared_units(prog, ci).values())
        foreign = [u for u in members if u not in own]
        for fname in ('to_raw', 'from_raw'):
            f = prog.find_method(ci, fname)
            rep.saw(f)
            leaks = []
            for u in foreign:
                st = State()
                selfv = ev.new_inst(st, ci, {})
                try:
                    r, st = ev.call_value(f, [S('v'), EnumVal(ucls, u, members[u])], self_val=selfv, st=st)
                except Undecided as exc:
                    raise AnalysisError(f'{dname}.{fname}(Unit.{u}): {exc}') from exc
                for _p, leaf in cond_leaves(r):
                    if not isinstance(leaf, Raised):
                        leaks.append(f'Unit.{u} -> {leaf!r}')
                        break
            if leaks:
                rep.fail('C13.R4', umod.path, f.node.lineno, f.qualname, f'{dname}.{fname}',
                         f'{dname}.{fname} yields a number for units of another dimension: {leaks[:3]}')
            else:
                rep.ok('C13.R4', f.where, f'{dname}.{fname}: all {len(foreign)} foreign units raise on every path')
    # ---- R5: every public route that reads or relabels a quantity in a foreign unit raises -------------------------
    call = prog.func(C.M_UNIT, 'Unit.__call__')
    routes = []
    for nm in ('get_in', 'convert'):
        m = prog.find_method(base, nm)
        if m is None:
            raise AnalysisError(f'AbstractDimension.{nm} vanished')
        routes.append((nm, m))
    rep.saw(call)
    for dname, ci in sorted(dims.items()):
        own = set(C.declared_units(prog, ci).values())
        own_u = sorted(own)[0]
        foreign = [u for u in members if u not in own]
        for label, m in routes + [('Unit.<foreign>(quantity)', call)]:
            leaks = []
            for u in foreign:
                st = State()
                q = C.mk_quantity(ev, st, prog, dname, 'raw', own_u)
                uv = EnumVal(ucls, u, members[u])
                try:
                    if m is call:
                        r, st = ev.call_value(call, [q], self_val=uv, st=st)
                    else:
                        r, st = ev.call_value(m, [uv], self_val=q, st=st)
                except Undecided as exc:
                    raise AnalysisError(f'{dname} {label} with Unit.{u}: {exc}') from exc
                for _p, leaf in cond_leaves(r):
                    if isinstance(leaf, Raised):
                        continue
                    if m.name == 'get_in':
                        leaks.append(f'Unit.{u} -> {leaf!r}')
                        break
                    # a relabelled (or rebuilt) quantity: the number must still be unreadable in the foreign unit
                    if not isinstance(leaf, Inst):
                        leaks.append(f'Unit.{u} -> {leaf!r}')
                        break
                    try:
                        reads = [ev.getattr(leaf, 'unit_value', st, Ctx(umod, None, None, 0)),
                                 ev.call_value(routes[0][1], [uv], self_val=leaf, st=st)[0]]
                    except Undecided as exc:
                        raise AnalysisError(f'{dname} {label} with Unit.{u}, then read: {exc}') from exc
                    if any(not isinstance(x, Raised) for rd in reads for _q, x in cond_leaves(rd)):
                        leaks.append(f'Unit.{u} -> a {leaf.cls.name} readable in Unit.{u}')
                        break
            where = m.where
            if leaks:
                rep.fail('C13.R5', umod.path, m.node.lineno, m.qualname, f'{dname}:{label}',
                         f'a {dname} quantity goes through {label} with a unit of another dimension and yields a number in '
                         f'that unit instead of a conversion error: {leaks[:3]}')
            else:
                rep.ok('C13.R5', where, f'{dname}: {label} never yields a number for any of the {len(foreign)} foreign units (it raises, or the result raises when read)')
    rep.assume('the instance __dict__ of a quantity is empty: R1 shows that no code stores any attribute other than '
               'the two slots on a quantity (name-based inventory)')
    rep.extra['magnitude_store_sites'] = n_mag


U = 'py_ballisticcalc/unit.py'
TCF = 'py_ballisticcalc/trajectory_calc/_trajectory_calc.py'
VARIANTS = [
    Variant('convert-rederives-magnitude', 'break', [(U, '        self._defined_units = units\n        return self\n', '        self._value = self.to_raw(self.from_raw(self._value, units), units)\n        self._defined_units = units\n        return self\n')], 'C13.R1', 'round trip through the new unit', 'pass'),
    Variant('lt-compares-display-value', 'break', [(U, '    def __lt__(self, other):\n        return float(self) < other', '    def __lt__(self, other):\n        return self.unit_value < other')], 'C13.R2', 'positive control', 'caught'),
    Variant('hash-over-value-and-units', 'break', [(U, 'return hash(self._value)', 'return hash((self._value, self.units))')], 'C13.R3', 'the defect repaired in /repo'),
    Variant('unit-call-floats-foreign-quantity', 'break', [(U, '        if isinstance(value, AbstractDimension):\n            return value << self  # type: ignore\n', '        if isinstance(value, AbstractDimension):\n            if self in value.__class__.__dict__.values():\n                return value << self  # type: ignore\n            value = float(value)\n')], 'C13.R5', 'seeded change C13/6 in spirit: a quantity of another dimension is rebuilt from its raw magnitude'),
    Variant('unit-call-memoised', 'break', [(U, '    def __call__(self: Self, value: Union[int, float, AbstractDimensionType]) -> AbstractDimensionType:', '    @lru_cache(maxsize=4096)\n    def __call__(self: Self, value: Union[int, float, AbstractDimensionType]) -> AbstractDimensionType:'), (U, 'from enum import IntEnum\n', 'from enum import IntEnum\nfrom functools import lru_cache\n')], 'C13.R1', 'seeded change C06/4'),
    Variant('distance-accepts-velocity-unit', 'break', [(U, '        if units == Distance.Inch:\n            return value\n        if units == Distance.Foot:\n            result = value / 12', '        if units == Distance.Inch or units == Unit.MPS:\n            return value\n        if units == Distance.Foot:\n            result = value / 12')], 'C13.R4'),
    Variant('validate-returns-for-foreign', 'break', [(U, "            raise UnitConversionError(f'{self.__class__.__name__}: unit {units} is not supported')", "            logger.warning(f'{self.__class__.__name__}: unit {units} is not supported')")], 'C13.R4'),
    Variant('magnitude-setter', 'break', [(U, '    @property\n    def raw_value(self) -> float:', '    def set_raw(self, v):\n        self._value = v\n\n    @property\n    def raw_value(self) -> float:')], 'C13.R1'),
    Variant('solver-scales-quantity-in-place', 'break', [(TCF, '        self.look_angle = shot_info.look_angle >> Angular.Radian\n', '        shot_info.look_angle._value *= 1.0\n        self.look_angle = shot_info.look_angle >> Angular.Radian\n')], 'C13.R1'),
    Variant('eq-reads-units', 'break', [(U, '    def __eq__(self, other):\n        return float(self) == other', '    def __eq__(self, other):\n        return float(self) == other and self._defined_units is not None')], 'C13.R2'),
    Variant('twin-dunder-direct-field', 'twin', [(U, '    def __gt__(self, other):\n        return float(self) > other', '    def __gt__(self, other):\n        return self._value > other')], None),
    Variant('twin-convert-via-helper', 'twin', [(U, '        self._defined_units = units\n        return self\n', '        self._defined_units = units\n        result = self\n        return result\n')], None),
]
