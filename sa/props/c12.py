"""C12 - Wind acts by segment, in order of distance, symmetrically and causally."""
from __future__ import annotations

import ast
from typing import Dict, List, Optional, Set, Tuple

from .. import algebra as A
from ..abseval import (Cond, Const, Ctx, Evaluator, Inst, Leaf, NONE, Raised, Scalar, State, S, SymObj, Tup, Undecided,
                       cond_leaves, leaves)
from ..check import Variant
from ..effects import Effects
from ..loader import AnalysisError, Program, dotted, find_func_for_node, norm, parent
from . import common as C
from .flow import DENSITY_CALL, IntegrateFacts

ID = 'C12'
TECHNIQUE = ('who-may-read inventory of the stored wind list, the sorted view evaluated on three segments in '
             'all six orders (display units chosen so that the displayed numbers order differently from the '
             'magnitudes) + effect check, the velocity update of one symbolic loop iteration read for which '
             'wind it depends on under which guard, abstract evaluation of the wind sock transitions and of '
             'the wind vector to normal forms (parity of sin/cos declared in the algebra)')
DECIDED = [
    'R1 the solver consumes Shot.winds (never the stored list), which - by evaluation on three segments in '
    'all six orders - is a new sequence ordered by the raw magnitude of until_distance whatever display units'
    ' the segments were given in, the stored list left as it was; the stored list is read only inside Shot '
    'and never reordered',
    'R2 the velocity update of one symbolic iteration depends on the wind of the previous iteration only on '
    'paths guarded by x < end of the current segment and otherwise on wind_sock.vector_for_range(x) (a step '
    'that depends on no wind, a refresh at another position or under another guard are refuted); the wind '
    'sock index only advances by one, takes vector and end distance from the segment it points at, and yields'
    ' the literal zero vector beyond the last segment (and for an empty list)',
    'R3 Wind.vector = k v (cos d, 0, sin d) with one positive k: cross-range component odd and down-range '
    'component even in the direction, no vertical component, zero speed gives the zero vector',
    'R3b Wind.vector is computed from the current velocity and direction on every path: a vector kept on the '
    '(mutable, publicly assignable) object is refuted',
]
NOT_DECIDED = [
    'causality and mirror symmetry of the computed rows as numbers; opposite senses of head and tail wind in '
    'drop and time of flight (runtime values)',
]


def run(prog: Program, rep, thorough: bool) -> None:
    A.reset()
    rep.rule('C12.R1', 'segments consumed in order of until-distance, input not reordered', 4)
    rep.rule('C12.R2', 'switching and silence beyond the last segment', 7)
    rep.rule('C12.R3', 'vector convention and parity', 3)
    tc = prog.module(C.M_TC)
    cond = prog.module(C.M_COND)
    shot_c = prog.cls(C.M_COND, 'Shot')

    # ---- R1 ------------------------------------------------------------------------------------
    outside = []
    for mod in prog.modules.values():
        for n in ast.walk(mod.tree):
            if isinstance(n, ast.Attribute) and n.attr == '_winds':
                f = find_func_for_node(prog, mod, n)
                if f is None or f.cls is not shot_c:
                    outside.append((mod, f, n))
    if outside:
        mod, f, n = outside[0]
        rep.fail('C12.R1', mod.path, n.lineno, f.qualname if f else '<module>', f'_winds:{f.qualname if f else "module"}',
                 f'the stored (unsorted) wind list is read outside Shot: `{norm(n)}`; segments would apply in the order given')
    else:
        rep.ok('C12.R1', f'{cond.path}:{shot_c.node.lineno}', 'Shot._winds is read only inside Shot')
    F = IntegrateFacts(prog)
    rep.saw(F.func)
    socks = [c for c in ast.walk(F.func.node) if isinstance(c, ast.Call) and norm(c.func) == '_WindSock']
    shot_p = F.func.positional[1]
    if len(socks) == 1 and [norm(a) for a in socks[0].args] == [f'{shot_p}.winds']:
        rep.ok('C12.R1', tc.where(socks[0]), f'_WindSock({shot_p}.winds)')
    else:
        rep.fail('C12.R1', tc.path, (socks[0].lineno if socks else F.func.node.lineno), F.func.qualname, 'sock-source',
                 f'the wind sock is built from {[norm(c) for c in socks]}, not from the sorted view {shot_p}.winds')
    wp = shot_c.methods.get('winds')
    if wp is None or not wp.is_property:
        raise AnalysisError('Shot.winds property vanished')
    rep.saw(wp)
    verdict = _sorted_view_by_evaluation(prog, shot_c, wp)
    if verdict is None:
        ok, why = _sorted_view_by_form(prog, cond, wp)
        if not ok and not why.startswith('sort'):
            raise AnalysisError(f'Shot.winds: neither evaluable on the finite family nor of a form the rule reads ({why})')
    else:
        ok, why = verdict
    if ok:
        rep.ok('C12.R1', wp.where, 'winds = a new sequence of the stored winds ordered by the raw magnitude of until_distance'
               + (' (all 6 orders of three segments given in three different display units)' if verdict else ''))
    else:
        rep.fail('C12.R1', cond.path, wp.node.lineno, wp.qualname, 'sorted-view', f'Shot.winds: {why}')
    eng = Effects(prog)
    eff = [e for (o, fld), e in eng.summaries[wp.fq].effects.items() if o[0] == 'self' and fld != '_defined_units']
    if eff:
        rep.fail('C12.R1', cond.path, eff[0].line, wp.qualname, f'mutates:{eff[0].field}',
                 f'reading Shot.winds changes the shot: `{eff[0].text}`')
    else:
        rep.ok('C12.R1', wp.where, 'reading Shot.winds has no effect on the shot')

    # ---- R2 ------------------------------------------------------------------------------------
    # the wind used by the step, by evaluation of one loop iteration: the velocity update may depend on the wind of
    # the previous iteration only on paths where x < end of the current segment, otherwise on
    # wind_sock.vector_for_range(x); a velocity update that depends on neither does not see the wind at all
    check_wind_in_step(prog, rep, F, 'C12.R2')
    # wind sock transitions
    wsc = prog.cls(C.M_TC, '_WindSock')
    ev = Evaluator(prog)
    wind_c = prog.cls(C.M_COND, 'Wind')
    maxd = ev.getattr(ClassRefOf(wind_c), 'MAX_DISTANCE_FEET', State(), Ctx(cond, None, None, 0))
    vfr = prog.func(C.M_TC, '_WindSock.vector_for_range')
    rep.saw(vfr)
    st = State()
    roles = _sock_roles(prog.func(C.M_TC, '_WindSock.__init__'))
    # built by its own __init__ (so that attributes the rule does not know get their real initial values), then the
    # five role attributes are replaced by symbols for a generic mid-flight state
    sock = ev.new_inst(st, wsc, {})
    init0 = prog.func(C.M_TC, '_WindSock.__init__')
    try:
        ev.call_func(init0, [SymObj('winds')], {}, st, Ctx(tc, None, None, 0), self_val=sock)
    except Undecided as exc:
        raise AnalysisError(f'_WindSock.__init__: {exc}') from exc
    st.heap[sock.oid].update({roles['winds']: SymObj('winds'), roles['index']: S('k'), roles['next']: S('nr'),
                              roles['cache']: SymObj('cache'), roles['length']: S('n')})
    try:
        tree, st = ev.run_func(vfr, {vfr.positional[0]: sock, vfr.positional[1]: S('r')}, st)
    except Undecided as exc:
        raise AnalysisError(f'vector_for_range: {exc}') from exc
    k, n_, r_, nr = A.sym('k'), A.sym('n'), A.sym('r'), A.sym('nr')
    cases = {'stay': 0, 'switch': 0, 'beyond': 0}
    problems = []
    # which transition a path belongs to is decided by evaluating its guards at one point of every ordering of
    # (requested range r vs end of the segment nr) x (k + 1 vs number of segments n): any spelling of the two tests
    from .c16 import reachable_leaves, value_at
    for t_ in {t for path, _lf in leaves(tree) for t, _pol in path}:
        if t_.rf is not None and not t_.rf.symbols() <= {'r', 'nr', 'k', 'n'}:
            problems.append(f'depends on {t_!r}')
    points = [('stay', {'r': 5.0, 'nr': 9.0, 'k': 1.0, 'n': 4.0}), ('stay', {'r': 5.0, 'nr': 9.0, 'k': 3.0, 'n': 4.0}),
              ('stay', {'r': 5.0, 'nr': 9.0, 'k': 6.0, 'n': 4.0}),
              ('switch', {'r': 9.0, 'nr': 9.0, 'k': 1.0, 'n': 4.0}), ('switch', {'r': 12.0, 'nr': 9.0, 'k': 2.0, 'n': 4.0}),
              ('beyond', {'r': 9.0, 'nr': 9.0, 'k': 3.0, 'n': 4.0}), ('beyond', {'r': 12.0, 'nr': 9.0, 'k': 3.0, 'n': 4.0}),
              ('beyond', {'r': 12.0, 'nr': 9.0, 'k': 7.0, 'n': 4.0})]
    for case, env_ in points:
        for leaf in reachable_leaves(tree, env_):
            if leaf.kind == 'raise':
                continue
            h = leaf.state.heap[sock.oid]
            cur, cache, nxt = (value_at(h.get(roles[r_]), env_) for r_ in ('index', 'cache', 'next'))
            ret = _strip_raise(value_at(leaf.value, env_))
            ret = _strip_raise(value_at(ret, env_))
            cases[case] += 1
            if case == 'stay':
                if not (isinstance(cur, Scalar) and cur.rf.equals(k) and isinstance(ret, SymObj) and ret.path == 'cache'):
                    problems.append('before the end of the segment the index or the vector changes')
            elif case == 'beyond':
                zero = isinstance(ret, Inst) and all(isinstance(leaf.state.heap[ret.oid].get(c), Scalar)
                                                     and leaf.state.heap[ret.oid][c].rf.is_zero() for c in 'xyz')
                if not zero:
                    problems.append(f'beyond the last segment the wind is {ret!r}, not the zero vector')
                if not (isinstance(nxt, Scalar) and isinstance(maxd, Scalar) and nxt.rf.equals(maxd.rf)) and \
                        not (isinstance(nxt, SymObj)):
                    problems.append(f'beyond the last segment next_range becomes {nxt!r}')
            else:
                if not (isinstance(cur, Scalar) and cur.rf.equals(k + 1)):
                    problems.append(f'on a switch the index becomes {cur!r}, expected k + 1')
                if not (isinstance(ret, SymObj) and ret.path == f'winds[{(k + 1)!r}].vector'):
                    problems.append(f'on a switch the wind is {ret!r}, expected the vector of segment k + 1')
                if not (isinstance(nxt, Scalar) and repr(nxt.rf) == f'winds[{(k + 1)!r}].until_distance >> Foot'):
                    problems.append(f'on a switch next_range becomes {nxt!r}, expected until_distance of segment k + 1 in feet')
    if min(cases.values()) == 0:
        problems.append(f'cases seen {cases}: a transition is missing')
    if problems:
        rep.fail('C12.R2', tc.path, vfr.node.lineno, vfr.qualname, 'transitions', '; '.join(sorted(set(problems))[:3]))
    else:
        rep.ok('C12.R2', vfr.where, 'stay: same vector and index')
        rep.ok('C12.R2', vfr.where, 'switch: index k+1, vector and end distance of segment k+1')
        rep.ok('C12.R2', vfr.where, 'beyond the last segment: literal zero vector')
    # construction: first segment or zero vector
    init = prog.func(C.M_TC, '_WindSock.__init__')
    rep.saw(init)
    for label, winds, want in (('empty list', Tup([]), 'zero'), ('None', NONE, 'zero'), ('non-empty', SymObj('winds'), 'first')):
        st = State()
        obj = ev.new_inst(st, wsc, {})
        try:
            tree, st = ev.run_func(init, {init.positional[0]: obj, init.positional[1]: winds}, st)
        except Undecided as exc:
            raise AnalysisError(f'_WindSock.__init__ ({label}): {exc}') from exc
        n_first = n_zero = n_other = 0
        for path, leaf in leaves(tree):
            if leaf.kind == 'raise':
                continue
            h = leaf.state.heap[obj.oid]
            cur = h.get(roles['index'])
            for _cp, cache in cond_leaves(h.get(roles['cache'])):
                is_zero = isinstance(cache, Inst) and all(isinstance(leaf.state.heap[cache.oid].get(c), Scalar)
                                                          and leaf.state.heap[cache.oid][c].rf.is_zero() for c in 'xyz')
                is_first = isinstance(cache, SymObj) and cache.path == 'winds[0].vector' and isinstance(cur, Scalar) \
                    and cur.rf.is_zero()
                if is_zero:
                    n_zero += 1
                elif is_first:
                    n_first += 1
                else:
                    n_other += 1
        good = n_other == 0 and (n_zero > 0 and n_first == 0 if want == 'zero' else n_first > 0)
        if good:
            rep.ok('C12.R2', init.where, f'wind sock built from {label}: ' + ('zero vector' if want == 'zero' else 'segment 0'))
        else:
            rep.fail('C12.R2', tc.path, init.node.lineno, init.qualname, f'init:{label}',
                     f'wind sock built from {label} does not start with ' + ('the zero vector' if want == 'zero' else 'segment 0'))

    # ---- R3 ------------------------------------------------------------------------------------
    wv = wind_c.methods.get('vector')
    if wv is None or not wv.is_property:
        raise AnalysisError('Wind.vector property vanished')
    rep.saw(wv)
    ev3 = Evaluator(prog)
    st = State()
    call = prog.func(C.M_UNIT, 'Unit.__call__')
    vq, _ = ev3.call_value(call, [S('w')], self_val=C.enum_val(prog, 'FPS'), st=st)
    dq = C.mk_quantity(ev3, st, prog, 'Angular', 'd', 'Radian')
    wind = ev3.new_inst(st, wind_c, {'velocity': vq, 'direction_from': dq,
                                     'until_distance': C.mk_quantity(ev3, st, prog, 'Distance', 'u', 'Foot')})
    try:
        v, st = ev3.call_value(wv, [], self_val=wind, st=st)
    except Undecided as exc:
        raise AnalysisError(f'Wind.vector: {exc}') from exc
    stored = [x for _p, x in cond_leaves(v) if not isinstance(x, Inst)]
    fresh = [x for _p, x in cond_leaves(v) if isinstance(x, Inst)]
    if stored and fresh:
        # some path hands back a value kept on the object instead of computing it from the current fields
        guarded = [n for n in ('velocity', 'direction_from') if n in wind_c.setters] or ('__setattr__' in wind_c.methods)
        if guarded:
            rep.undecided('C12.R3', wv.where, 'Wind.vector is kept on the object',
                          f'the fields are written through {guarded}: whether every write resets the kept vector is not decided')
        else:
            rep.fail('C12.R3', cond.path, wv.node.lineno, wv.qualname, 'stored-vector',
                     f'Wind.vector returns a value kept on the object ({stored[0]!r}) on some path: velocity and '
                     f'direction_from are plain public attributes, so after either is reassigned the wind applied is no '
                     f'longer the one described (a wind set to zero speed keeps blowing)')
    if not fresh:
        raise AnalysisError(f'Wind.vector returns {v!r}')
    v = fresh[0]
    comp = st.heap[v.oid]
    w, d = A.sym('w'), A.sym('d')
    kx = A.ratio_const(comp['x'].rf, w * A.fn('cos', d)) if isinstance(comp.get('x'), Scalar) else None
    kz = A.ratio_const(comp['z'].rf, w * A.fn('sin', d)) if isinstance(comp.get('z'), Scalar) else None
    yz = isinstance(comp.get('y'), Scalar) and comp['y'].rf.is_zero()
    if kx is not None and kz is not None and abs(kx - kz) <= 1e-9 * abs(kx) and kx > 0 and abs(kx - 1) < 1e-9:
        rep.ok('C12.R3', wv.where, 'down-range = v cos(d) (even in d), cross-range = v sin(d) (odd in d), in fps')
    else:
        rep.fail('C12.R3', cond.path, wv.node.lineno, wv.qualname, 'components',
                 f'Wind.vector = ({comp.get("x")!r}, {comp.get("y")!r}, {comp.get("z")!r}); expected v (cos d, 0, sin d) in fps: '
                 f'0 degrees is a tail wind, 90 degrees blows from the left towards +z')
    if yz:
        rep.ok('C12.R3', wv.where, 'no vertical wind component')
    else:
        rep.fail('C12.R3', cond.path, wv.node.lineno, wv.qualname, 'vertical', f'vertical component {comp.get("y")!r}')
    # mirror: d -> -d negates z and keeps x (algebra parities)
    if isinstance(comp.get('x'), Scalar) and isinstance(comp.get('z'), Scalar):
        xm = comp['x'].rf.subs({'d': -d})
        zm = comp['z'].rf.subs({'d': -d})
        if xm.equals(comp['x'].rf) and zm.equals(-comp['z'].rf) and comp['x'].rf.subs({'w': A.rf(0)}).is_zero() \
                and comp['z'].rf.subs({'w': A.rf(0)}).is_zero():
            rep.ok('C12.R3', wv.where, 'mirroring the direction negates cross-range only; zero speed is the zero vector')
        else:
            rep.fail('C12.R3', cond.path, wv.node.lineno, wv.qualname, 'parity',
                     'the wind vector is not mirror-symmetric in the direction or does not vanish with the speed')


def _sock_roles(init) -> Dict[str, str]:
    """Attribute names of the wind sock by role, read from what __init__ stores into them."""
    me = init.positional[0]
    wparam = init.positional[1]
    roles: Dict[str, str] = {}
    for s_ in ast.walk(init.node):
        tgt = val = None
        if isinstance(s_, ast.Assign) and len(s_.targets) == 1:
            tgt, val = s_.targets[0], s_.value
        elif isinstance(s_, ast.AnnAssign) and s_.value is not None:
            tgt, val = s_.target, s_.value
        if not (isinstance(tgt, ast.Attribute) and isinstance(tgt.value, ast.Name) and tgt.value.id == me):
            continue
        txt = norm(val)
        if wparam in {n.id for n in ast.walk(val) if isinstance(n, ast.Name)}:
            roles['winds'] = tgt.attr
        elif isinstance(val, ast.Constant) and val.value == 0 and not isinstance(val.value, bool):
            roles['index'] = tgt.attr
        elif isinstance(val, ast.Constant) and val.value is None:
            roles['cache'] = tgt.attr
        elif txt.startswith('len('):
            roles['length'] = tgt.attr
        elif 'MAX_DISTANCE' in txt:
            roles['next'] = tgt.attr
    missing = {'winds', 'index', 'cache', 'length', 'next'} - set(roles)
    if missing:
        raise AnalysisError(f'_WindSock.__init__: cannot identify the attribute(s) holding {sorted(missing)}')
    return roles


def _sorted_view_by_evaluation(prog: Program, shot_c, wp) -> Optional[Tuple[bool, str]]:
    """The getter evaluated on three segments given in every order; the until-distances are in three display units chosen
    so that ordering by the displayed number differs from ordering by magnitude.  None when the evaluator cannot read
    the getter."""
    import itertools
    wind_c = prog.cls(C.M_COND, 'Wind')
    specs = [(600, 'Meter'), (1200, 'Inch'), (2400, 'Yard')]          # raw inches, display unit
    n_ok = 0
    for perm in itertools.permutations(range(3)):
        ev = Evaluator(prog, hooks=C.no_wrap_hooks())
        st = State()
        winds = []
        for k in perm:
            raw, unit = specs[k]
            winds.append(ev.new_inst(st, wind_c, {'until_distance': C.mk_quantity(ev, st, prog, 'Distance', raw, unit),
                                                  'velocity': C.mk_quantity(ev, st, prog, 'Velocity', f'v{k}', 'FPS'),
                                                  'direction_from': C.mk_quantity(ev, st, prog, 'Angular', f'd{k}', 'Radian'),
                                                  '$k': Scalar(k)}))
        stored = ev.new_list(st, list(winds))
        shot = ev.new_inst(st, shot_c, {'_winds': stored})
        try:
            tree, _st = ev.run_func(wp, {wp.positional[0]: shot}, st)
        except Undecided:
            return None
        for _path, leaf in leaves(tree):
            if leaf.kind != 'return' or leaf.value is None or isinstance(leaf.value, Cond):
                return None
            its = ev.items(leaf.state, leaf.value)
            if its is None or not all(isinstance(i_, Inst) for i_ in its):
                return None
            got = [leaf.state.heap[i_.oid].get('$k') for i_ in its]
            if not all(isinstance(g, Scalar) for g in got):
                return None
            got = [int(g.rf.const_value()) for g in got]
            if got != [0, 1, 2]:
                return False, (f'three segments ending at 600, 1200 and 2400 inches given in the order {list(perm)} come back in '
                               f'the order {got}, not by increasing until-distance')
            now = [int(leaf.state.heap[i_.oid]['$k'].rf.const_value()) for i_ in ev.items(leaf.state, stored)]
            if now != list(perm):
                return False, f'reading the view reorders the stored list ({list(perm)} -> {now})'
            n_ok += 1
    return (True, '') if n_ok else None


def _sorted_view_by_form(prog: Program, cond, wp) -> Tuple[bool, str]:
    rets = [r for r in ast.walk(wp.node) if isinstance(r, ast.Return)]
    ok, why = False, ''
    if len(rets) == 1:
        v = rets[0].value
        inner = v.args[0] if isinstance(v, ast.Call) and (dotted(v.func) or '') == 'tuple' and len(v.args) == 1 else v
        if isinstance(inner, ast.Call) and (dotted(inner.func) or '') == 'sorted' and len(inner.args) == 1 \
                and norm(inner.args[0]) == f'{wp.positional[0]}._winds':
            key = next((k.value for k in inner.keywords if k.arg == 'key'), None)
            rev = next((k.value for k in inner.keywords if k.arg == 'reverse'), None)
            if rev is not None and not (isinstance(rev, ast.Constant) and rev.value is False):
                why = 'sorted descending'
            elif isinstance(key, ast.Lambda) and key.args.args:
                p = key.args.args[0].arg
                b = key.body
                txt = norm(b)
                if txt in (f'{p}.until_distance.raw_value', f'{p}.until_distance._value', f'float({p}.until_distance)'):
                    ok = True
                elif isinstance(b, ast.BinOp) and isinstance(b.op, ast.RShift) and norm(b.left) == f'{p}.until_distance' \
                        and C.unit_of_expr(prog, cond, b.right) is not None and C.dimension_of_unit(
                            prog, C.unit_of_expr(prog, cond, b.right)) == 'Distance':
                    ok = True
                elif isinstance(b, ast.Call) and norm(b.func) == f'{p}.until_distance.get_in' and len(b.args) == 1 \
                        and C.unit_of_expr(prog, cond, b.args[0]) is not None:
                    ok = True
                elif txt == f'{p}.until_distance':
                    ok = True      # quantities order by magnitude (C13.R2)
                else:
                    why = f'sort key `{txt}` is not a display-independent magnitude of until_distance'
            else:
                why = 'no key function'
        else:
            why = f'returns `{norm(v)[:60]}`'
    else:
        why = f'{len(rets)} return statements'
    return ok, why


def check_wind_in_step(prog: Program, rep, F: IntegrateFacts, rule: str) -> None:
    from .c01 import loop_iteration, wind_roles
    tc = F.mod
    fn = F.func
    sock, wname = wind_roles(F)
    init_defs = [n for n in ast.walk(fn.node) if isinstance(n, (ast.Assign, ast.AnnAssign)) and n.value is not None
                 and isinstance(n.value, ast.Call) and isinstance(n.value.func, ast.Attribute)
                 and norm(n.value.func.value) == sock and not F._inside(n, F.loop)]
    ev = Evaluator(prog, hooks={'symcall': lambda ev_, fv, args, kwargs, st: (Tup([S('rho'), S('a')])
                                                                             if fv.path.endswith('.' + DENSITY_CALL) else None),
                                'call:_calculate_by_curve_and_mach_list': lambda ev_, func, args, kwargs, st, sv: S('Cd'),
                                **C.no_wrap_hooks()},
                   opaque={'create_trajectory_row', 'spin_drift'})
    ctx = Ctx(tc, fn, None, 0)
    st, selfv, tree, _w = loop_iteration(prog, F, ev, ctx)
    x, nr = A.sym('x'), A.sym('wind_sock.next_range')
    problems = []
    n_paths = old_paths = new_paths = 0
    for path, leaf in leaves(tree):
        if leaf.kind in ('raise', 'break', 'return'):
            continue            # (the loop is left: no step is taken on this path)
        v1 = leaf.state.env.get(F.V)
        if not isinstance(v1, Inst):
            raise AnalysisError(f'velocity after one step is {v1!r}')
        comps = [leaf.state.heap[v1.oid].get(c) for c in 'xyz']
        syms = set()
        for c in comps:
            for _pp, lf in cond_leaves(c):
                if isinstance(lf, Scalar):
                    syms |= lf.rf.symbols()
                    for at in lf.rf.all_atoms():
                        syms.add(repr(at))
        n_paths += 1
        uses_old = bool(syms & {'wx', 'wy', 'wz'})
        refreshed = {s_ for s_ in syms if 'vector_for_range(' in s_}
        if refreshed:
            new_paths += 1
            bad_arg = [s_ for s_ in refreshed if 'vector_for_range(x)' not in s_]
            if bad_arg:
                problems.append(f'the wind is asked for at `{bad_arg[0][:60]}`, not at the current down-range distance x')
        if uses_old:
            old_paths += 1
            short = any((t.kind == 'pos' and t.rf is not None and t.rf.equals(nr - x) and pol)
                        or (t.kind == 'nonneg' and t.rf is not None and t.rf.equals(x - nr) and not pol) for t, pol in path)
            if not short:
                problems.append('the step can run on the wind of the previous iteration although x has reached the end of the '
                                'current segment (the refresh is not guarded by position only)')
        if not uses_old and not refreshed:
            problems.append('the velocity update depends on no wind at all: the drag does not see the wind')
    if n_paths == 0:
        raise AnalysisError('_integrate: no non-raising path through the loop body')
    if old_paths and not any('current_vector()' in norm(d.value) or 'vector_for_range(' in norm(d.value) for d in init_defs):
        raise AnalysisError('_integrate: the wind before the first refresh is not taken from the wind sock in a way the rule reads')
    if problems:
        rep.fail(rule, tc.path, F.loop.lineno, fn.qualname, 'wind-defs', '; '.join(sorted(set(problems))[:3]))
    else:
        rep.ok(rule, tc.where(F.loop), f'{n_paths} paths: the step runs on the previous wind only while x < end of the segment '
               f'({old_paths}), otherwise on wind_sock.vector_for_range(x) ({new_paths})')


def _strip_raise(v):
    """current_vector() raises when the cached vector is falsy; a Vector (3-field NamedTuple) never is."""
    while isinstance(v, Cond) and (isinstance(v.a, Raised) or isinstance(v.b, Raised)):
        v = v.b if isinstance(v.a, Raised) else v.a
    return v


class ClassRefOf:
    """tiny adapter so that Evaluator.getattr can be used on a class"""
    def __new__(cls, ci):
        from ..abseval import ClassRef
        return ClassRef(ci)


TCF = 'py_ballisticcalc/trajectory_calc/_trajectory_calc.py'
CON = 'py_ballisticcalc/conditions.py'
VARIANTS = [
    Variant('sock-from-stored-list', 'break', [(TCF, 'wind_sock = _WindSock(shot_info.winds)', 'wind_sock = _WindSock(tuple(shot_info._winds))')], 'C12.R1', 'segments apply in the order given', 'pass'),
    Variant('sort-key-display-value', 'break', [(CON, 'key=lambda wind: wind.until_distance.raw_value', 'key=lambda wind: wind.until_distance.unit_value')], 'C12.R1', '', 'pass'),
    Variant('last-wind-persists', 'break', [(TCF, '            if self.current >= self._length:\n                self._last_vector_cache = Vector(0.0, 0.0, 0.0)\n                self.next_range = Wind.MAX_DISTANCE_FEET\n            else:\n                self.update_cache()  # This will trigger cache updates.\n', '            if self.current >= self._length:\n                self.next_range = Wind.MAX_DISTANCE_FEET\n            else:\n                self.update_cache()  # This will trigger cache updates.\n')], 'C12.R2', '', 'pass'),
    Variant('wind-never-switches', 'break', [(TCF, '            if range_vector.x >= wind_sock.next_range:  # require check before call to improve performance\n                wind_vector = wind_sock.vector_for_range(range_vector.x)\n', '')], 'C12.R2', '', 'pass'),
    Variant('cos-sin-swapped', 'break', [(CON, 'range_component = wind_velocity_fps * math.cos(wind_direction_rad)', 'range_component = wind_velocity_fps * math.sin(wind_direction_rad)'), (CON, 'cross_component = wind_velocity_fps * math.sin(wind_direction_rad)', 'cross_component = wind_velocity_fps * math.cos(wind_direction_rad)')], 'C12.R3', 'positive control', 'caught'),
    Variant('sorted-descending', 'break', [(CON, 'key=lambda wind: wind.until_distance.raw_value))', 'key=lambda wind: wind.until_distance.raw_value, reverse=True))')], 'C12.R1'),
    Variant('index-skips-a-segment', 'break', [(TCF, '            self.current += 1\n', '            self.current += 2\n')], 'C12.R2'),
    Variant('next-range-from-previous-segment', 'break', [(TCF, '            self.next_range = cur_wind.until_distance >> Distance.Foot\n', '            self.next_range = self.winds[max(self.current - 1, 0)].until_distance >> Distance.Foot\n')], 'C12.R2'),
    Variant('cross-wind-sign', 'break', [(CON, 'return Vector(range_component, 0, cross_component)', 'return Vector(range_component, 0, -cross_component)')], 'C12.R3', 'wind from the left deflects left'),
    Variant('refresh-uses-time', 'break', [(TCF, 'wind_vector = wind_sock.vector_for_range(range_vector.x)', 'wind_vector = wind_sock.vector_for_range(time * 1000)')], 'C12.R2'),
    Variant('wind-vector-cached', 'break', [(CON, '        wind_velocity_fps = self.velocity >> Velocity.FPS\n        wind_direction_rad = self.direction_from >> Angular.Radian\n', '        if getattr(self, "_vector", None) is not None:\n            return self._vector\n        wind_velocity_fps = self.velocity >> Velocity.FPS\n        wind_direction_rad = self.direction_from >> Angular.Radian\n'), (CON, '        return Vector(range_component, 0, cross_component)\n', '        self._vector = Vector(range_component, 0, cross_component)\n        return self._vector\n')], 'C12.R3', 'seeded change C12/5'),
    Variant('twin-sorted-attrgetter-style', 'twin', [(CON, 'key=lambda wind: wind.until_distance.raw_value', 'key=lambda w: w.until_distance >> Distance.Foot')], None),
    Variant('twin-cache-renamed', 'twin', [(TCF, '_last_vector_cache', '_cache', 6)], None),
]
