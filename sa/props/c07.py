"""C07 - Preferred units only choose how bare numbers and output are read."""
from __future__ import annotations

import ast
import tomllib
from typing import Dict, List, Optional, Set, Tuple

from ..cfg import CFG, reaching_definitions
from ..check import Variant
from ..loader import AnalysisError, Func, Module, Program, ancestors, dotted, find_func_for_node, norm, parent
from ..spec.slots import SLOT_DIMENSION
from . import common as C

ID = 'C07'
TECHNIQUE = ('ast + reaching definitions: boolean-context uses of float-or-quantity parameters, '
             'slot/dimension/name agreement at every PreferredUnits coercion site and in all presets (literal'
             ' tables incl. TOML), and an inventory of every place a preferred unit, a display unit or a '
             'display value can reach a number')
DECIDED = [
    'R1 no float-or-quantity parameter is tested for truthiness to decide whether it was given (so a bare 0 '
    'means 0 in the preferred unit, like the explicit quantity)',
    'R2 every coercion PreferredUnits.<slot>(x) uses a slot of the dimension the parameter is annotated with,'
    ' the slot named like the parameter when there is one; class defaults, defaults() and the four TOML '
    'presets give every one of the 15 slots a unit of its own dimension',
    'R3 a preferred unit, a display unit or a display value never feeds a number on the compute path: slots '
    'are only called as coercions or used as the unit operand of >> / << in presentation functions; elsewhere'
    ' the unit operand is a literal unit or a unit parameter; .units/.unit_value do not occur on the compute path (a re-wrap q.units(q.unit_value * k) with k != 1 computes in the display unit and is refuted) '
    'idiom; coercing an existing quantity with a preferred unit hands back that very object (evaluated); no '
    'memoised function reads PreferredUnits',
    'R4 inside the package no plain number extracted in a fixed unit (q >> U, .raw_value, arithmetic on such,'
    ' a non-zero constant) is passed to a parameter that the callee reads through PreferredUnits.<slot>(p): '
    'every such call site (module functions, constructors, self.method) is enumerated',
    'R5 a parameter declared as number-or-quantity is not read as a number while its entry value still '
    'reaches the use (reaching definitions over the statement CFG): only hand-overs (arguments, assignments, '
    'returns), presence tests and sign tests against the literal 0 of a linear dimension occur before the '
    'coercion; R3 also refutes a coercion applied, when it is used, to a stored field that some setter or '
    'constructor stores as it arrives (the bare number would follow the setting in force at the time of use)',
]
NOT_DECIDED = [
    'nothing further: bit-for-bit independence follows from R3 together with C13.R1 (coercing an existing '
    'quantity rewrites only its display unit) and is not separately measured',
]

NUMERIC = {'float', 'int'}

# functions whose job is presentation: they may read preferred / display units (one reason each)
PRESENTATION = {
    'TrajectoryData.formatted': 'formats a row for display',
    'TrajectoryData.formatted._fmt': 'formats a row for display',
    'TrajectoryData.in_def_units': 'row as floats in the preferred units (output)',
    'DangerSpace.__str__': 'text output',
    'AbstractDimension.__str__': 'text output',
    'AbstractDimension.__repr__': 'text output',
    'PreferredUnitsMeta.__repr__': 'text output',
    'get_global_max_calc_step_size': 'returns the global step as a quantity displayed in the preferred unit',
}
# (function, slot) where the library feeds a nonzero bare constant to a preferred slot, with the reason it is harmless
LIBRARY_CONSTANT_EXEMPT = {
    ('Sight.__init__', 'distance'): 'scale_factor or 1: only read for SFP sights, where the parameter is required',
}
PRESENTATION_MODULES = {'py_ballisticcalc.visualize.plot': 'plotting', 'py_ballisticcalc.visualize.dataframe': 'table output',
                        'py_ballisticcalc.example': 'example script', 'py_ballisticcalc.logger': 'logging'}


def quantity_params(prog: Program, f: Func) -> Dict[str, Set[str]]:
    """float-or-quantity parameters of f: name -> set of dimension class names in the annotation."""
    dims = set(C.dimension_classes(prog)) | {'AbstractDimension'}
    out: Dict[str, Set[str]] = {}
    for a in f.arg_nodes():
        if a.annotation is None:
            continue
        names = {n.id for n in ast.walk(a.annotation) if isinstance(n, ast.Name)}
        # string annotations
        for n in ast.walk(a.annotation):
            if isinstance(n, ast.Constant) and isinstance(n.value, str):
                try:
                    names |= {m.id for m in ast.walk(ast.parse(n.value, mode='eval')) if isinstance(m, ast.Name)}
                except SyntaxError:
                    pass
        if names & NUMERIC and names & dims:
            out[a.arg] = names & dims
    return out


def _bool_context(node: ast.AST) -> Optional[Tuple[str, ast.AST]]:
    """If the value of ``node`` is consumed for its truthiness, say how: (kind, consumer)."""
    p = parent(node)
    if isinstance(p, ast.BoolOp):
        if p.values[-1] is not node:
            return ('or' if isinstance(p.op, ast.Or) else 'and', p)
        return _bool_context(p)
    if isinstance(p, ast.UnaryOp) and isinstance(p.op, ast.Not):
        return ('not', p)
    if isinstance(p, (ast.If, ast.While, ast.IfExp, ast.Assert)) and p.test is node:
        return ('test', p)
    if isinstance(p, ast.comprehension) and node in p.ifs:
        return ('test', p)
    if isinstance(p, ast.Call) and isinstance(p.func, ast.Name) and p.func.id == 'bool' and node in p.args:
        return ('bool()', p)
    return None


def _is_zero_literal(n: ast.AST) -> bool:
    return isinstance(n, ast.Constant) and isinstance(n.value, (int, float)) and not isinstance(n.value, bool) \
        and n.value == 0


def check_truthiness(prog: Program, rep, rule: str) -> None:
    for f in prog.all_funcs():
        qp = quantity_params(prog, f)
        if not qp:
            continue
        rep.saw(f)
        cfg = None
        for pname in qp:
            for n in ast.walk(f.node):
                if not (isinstance(n, ast.Name) and n.id == pname and isinstance(n.ctx, ast.Load)):
                    continue
                bc = _bool_context(n)
                if bc is None:
                    continue
                # does the parameter's own value reach this use?
                owner = None
                for a in ancestors(n):
                    if isinstance(a, (ast.FunctionDef, ast.AsyncFunctionDef, ast.Lambda)):
                        owner = a
                        break
                if owner is f.node:
                    if cfg is None:
                        cfg = CFG(f.node)
                        rd = reaching_definitions(cfg, f.params)
                    cn = cfg.node_of(n)
                    if cn is not None and cfg.entry.id not in rd[cn.id].get(pname, set()):
                        continue          # re-bound (already coerced) before this use
                kind, consumer = bc
                where = f'{f.module.path}:{n.lineno}'
                text = norm(consumer)[:80] if not isinstance(consumer, (ast.If, ast.While)) else 'if ' + norm(consumer.test)[:70]
                if kind == 'or' and len(consumer.values) == 2 and consumer.values[0] is n \
                        and _is_zero_literal(consumer.values[1]):
                    rep.ok(rule, where, f'{f.qualname}({pname}): `{text}` - falling back to the bare 0 maps 0 to 0')
                    continue
                if kind == 'test' and isinstance(consumer, ast.If) and len(consumer.body) == 1 and len(consumer.orelse) == 1 \
                        and all(isinstance(s_, ast.Assign) and len(s_.targets) == 1 and isinstance(s_.targets[0], ast.Name)
                                for s_ in (consumer.body[0], consumer.orelse[0])) \
                        and consumer.body[0].targets[0].id == consumer.orelse[0].targets[0].id \
                        and isinstance(consumer.body[0].value, ast.Name) and consumer.body[0].value.id == pname \
                        and _is_zero_literal(consumer.orelse[0].value):
                    rep.ok(rule, where, f'{f.qualname}({pname}): `{text}` picks {pname} or the bare 0 - the same as `{pname} or 0`')
                    continue
                if kind == 'test' and isinstance(consumer, ast.IfExp) and isinstance(consumer.body, ast.Name) \
                        and consumer.body.id == pname and _is_zero_literal(consumer.orelse):
                    rep.ok(rule, where, f'{f.qualname}({pname}): `{text}` - the same as `{pname} or 0`')
                    continue
                if kind == 'not' and isinstance(parent(consumer), ast.IfExp) and parent(consumer).test is consumer \
                        and _is_zero_literal(parent(consumer).body) and isinstance(parent(consumer).orelse, ast.Name) \
                        and parent(consumer).orelse.id == pname:
                    rep.ok(rule, where, f'{f.qualname}({pname}): `{text}` - the same as `{pname} or 0`')
                    continue
                # `if not p: p = 0` (no else): the falsy branch rebinds p to the bare 0 - for a bare 0 that is the value itself
                if kind == 'not' and isinstance(parent(consumer), ast.If) and parent(consumer).test is consumer \
                        and not parent(consumer).orelse and len(parent(consumer).body) == 1 \
                        and isinstance(parent(consumer).body[0], ast.Assign) and len(parent(consumer).body[0].targets) == 1 \
                        and isinstance(parent(consumer).body[0].targets[0], ast.Name) \
                        and parent(consumer).body[0].targets[0].id == pname and _is_zero_literal(parent(consumer).body[0].value):
                    rep.ok(rule, where, f'{f.qualname}({pname}): `if not {pname}: {pname} = 0` - the same as `{pname} or 0`')
                    continue
                default = f.default_of(pname)
                if default is not None and _is_zero_literal(default):
                    rep.ok(rule, where, f'{f.qualname}({pname}): `{text}` - the declared default is the bare 0 itself, '
                           f'so a bare 0 is by declaration "not given"')
                    continue
                rep.fail(rule, f.module.path, n.lineno, f.qualname, pname,
                         f'parameter `{pname}` ({"/".join(sorted(qp[pname]))} or number) is tested for truthiness in '
                         f'`{text}`: a bare 0 takes the "not given" branch while the explicit quantity of magnitude 0 '
                         f'(always truthy) does not')


def _slot_of_call(call: ast.Call) -> Optional[str]:
    d = dotted(call.func)
    if d and d.startswith('PreferredUnits.') and d.count('.') == 1:
        return d.split('.')[1]
    return None


def check_slots(prog: Program, rep, rule: str) -> None:
    slots = C.pref_slots(prog)
    dims_of_slot = {}
    umod = prog.module(C.M_UNIT)
    pu = prog.cls(C.M_UNIT, 'PreferredUnits')
    # --- presets ---------------------------------------------------------------------------
    if set(slots) != set(SLOT_DIMENSION):
        rep.fail(rule, umod.path, pu.node.lineno, 'PreferredUnits', 'slots',
                 f'PreferredUnits slots differ from the documented 15: missing {sorted(set(SLOT_DIMENSION) - set(slots))}, '
                 f'extra {sorted(set(slots) - set(SLOT_DIMENSION))}')
    tables: List[Tuple[str, str, int, Dict[str, str]]] = [('class defaults', umod.path, pu.node.lineno, dict(slots))]
    dfl = prog.find_method(pu, 'defaults')
    if dfl is None:
        raise AnalysisError('PreferredUnits.defaults vanished')
    d2 = {}
    for n in dfl.node.body:
        if isinstance(n, ast.Expr) and isinstance(n.value, ast.Constant):
            continue
        if isinstance(n, ast.Assign) and len(n.targets) == 1 and isinstance(n.targets[0], ast.Attribute) \
                and isinstance(n.targets[0].value, ast.Name) and n.targets[0].value.id in (dfl.positional[0], 'PreferredUnits'):
            u = C.unit_of_expr(prog, umod, n.value)
            d2[n.targets[0].attr] = u or norm(n.value)
            continue
        # anything else (a loop over a table, a helper) sets slots in a way this reader does not follow: the table it
        # would report as incomplete is then an artefact of the reader
        raise AnalysisError(f'PreferredUnits.defaults() is no longer a plain list of slot assignments '
                            f'(`{norm(n)[:60]}` at line {n.lineno}); its table cannot be read')
    tables.append(('PreferredUnits.defaults()', umod.path, dfl.node.lineno, d2))
    members = C.unit_members(prog)
    for path in prog.ss.toml_files():
        try:
            data = tomllib.loads(prog.ss.files[path])
        except tomllib.TOMLDecodeError as exc:
            rep.fail(rule, path, 1, '<toml>', 'parse', f'preset does not parse: {exc}')
            continue
        pu_t = data.get('pybc', {}).get('preferred_units')
        if pu_t is None:
            continue
        tables.append((f'preset {path}', path, 1, {k: str(v) for k, v in pu_t.items()}))
    for label, path, line, table in tables:
        problems = []
        for slot, dim in SLOT_DIMENSION.items():
            if slot not in table:
                problems.append(f'{slot} not assigned')
                continue
            u = table[slot]
            if u not in members:
                problems.append(f'{slot} = {u!r} is not a Unit member')
            elif C.dimension_of_unit(prog, u) != dim:
                problems.append(f'{slot} = {u} is a {C.dimension_of_unit(prog, u)} unit, the slot governs {dim}')
        extra = sorted(set(table) - set(SLOT_DIMENSION))
        if extra:
            problems.append(f'unknown slots {extra}')
        if problems:
            rep.fail(rule, path, line, label, 'preset', f'{label}: ' + '; '.join(problems))
        else:
            rep.ok(rule, f'{path}:{line}', f'{label}: 15 slots, each a unit of its own dimension')
    if dict(slots) != d2 and not (set(d2) - set(slots)):
        diffs = {k: (slots.get(k), d2.get(k)) for k in slots if slots.get(k) != d2.get(k)}
        rep.fail(rule, umod.path, dfl.node.lineno, dfl.qualname, 'defaults-vs-class',
                 f'defaults() does not restore the class defaults: {diffs}')
    # --- coercion sites ------------------------------------------------------------------------
    for mod in prog.modules.values():
        for call in ast.walk(mod.tree):
            if not isinstance(call, ast.Call):
                continue
            slot = _slot_of_call(call)
            if slot is None or slot not in SLOT_DIMENSION or len(call.args) != 1:
                continue
            f = find_func_for_node(prog, mod, call)
            arg = call.args[0]
            sdim = SLOT_DIMENSION[slot]
            where = mod.where(call)
            fq = f.qualname if f else '<module>'
            qp = quantity_params(prog, f) if f else {}
            # enclosing functions (closures) too
            o = f.outer if f else None
            while o is not None:
                for k, v in quantity_params(prog, o).items():
                    qp.setdefault(k, v)
                o = o.outer
            names = [n.id for n in ast.walk(arg) if isinstance(n, ast.Name) and n.id in qp]
            # the parameter whose value is coerced: first operand of `x or d`, body/else of IfExp, or the name itself
            origin = None
            cand = arg
            if isinstance(cand, ast.BoolOp):
                cand = cand.values[0]
            if isinstance(cand, ast.IfExp):
                cand = cand.body if isinstance(cand.body, ast.Name) and cand.body.id in qp else cand.orelse
            if isinstance(cand, ast.NamedExpr):
                cand = cand.value
            if isinstance(cand, ast.Name) and cand.id in qp:
                origin = cand.id
            # alternatives the argument can evaluate to (x or d; a if c else b)
            alts = []
            todo = [arg]
            while todo:
                x = todo.pop()
                if isinstance(x, ast.BoolOp):
                    todo += list(x.values)
                elif isinstance(x, ast.IfExp):
                    todo += [x.body, x.orelse]
                else:
                    alts.append(x)
            for alt in alts:
                num = C.fold_number(prog, mod, alt)
                if num is not None and num != 0 and (fq, slot) not in LIBRARY_CONSTANT_EXEMPT:
                    rep.fail(rule, mod.path, call.lineno, fq, f'library-constant:{slot}:{norm(alt)[:30]}',
                             f'the library\'s own constant `{norm(alt)}` (= {num:g}) is read through the preferred unit `{slot}`: '
                             f'a default that the caller never passed changes with the preferred-unit setting, although all '
                             f'inputs carry explicit units')
                elif num is not None and num != 0:
                    rep.ok(rule, where, f'{fq}: constant {norm(alt)} through `{slot}`: {LIBRARY_CONSTANT_EXEMPT[(fq, slot)]}')
            if origin is None:
                # a literal unit constructor or a number: check the dimension of the constructor if there is one
                udim = None
                for c in ast.walk(arg):
                    if isinstance(c, ast.Call):
                        u = C.unit_of_expr(prog, mod, c.func)
                        if u:
                            udim = C.dimension_of_unit(prog, u)
                            break
                if udim is not None and udim != sdim:
                    rep.fail(rule, mod.path, call.lineno, fq, f'{slot}({norm(arg)[:30]})',
                             f'a {udim} quantity is coerced with the {sdim} slot `{slot}`')
                else:
                    rep.ok(rule, where, f'{fq}: PreferredUnits.{slot}({norm(arg)[:40]}) (no parameter involved)')
                continue
            pdims = qp[origin]
            problems = []
            if sdim not in pdims and 'AbstractDimension' not in pdims:
                problems.append(f'parameter `{origin}` is annotated {"/".join(sorted(pdims))} but is read through the '
                                f'{sdim} slot `{slot}`')
            if origin in SLOT_DIMENSION and origin != slot:
                problems.append(f'parameter `{origin}` has its own preferred-unit slot `{origin}` but is read through '
                                f'`{slot}`: a bare number means {slot} units, not {origin} units')
            if problems:
                rep.fail(rule, mod.path, call.lineno, fq, f'{origin}->{slot}', '; '.join(problems))
            else:
                rep.ok(rule, where, f'{fq}: {origin} -> PreferredUnits.{slot} ({sdim})')
    # every slot that a preset sets must be read somewhere (a slot nobody reads means a parameter uses another one)
    used = set()
    for mod in prog.modules.values():
        for n in ast.walk(mod.tree):
            if isinstance(n, ast.Attribute) and isinstance(n.value, ast.Name) and n.value.id == 'PreferredUnits' \
                    and isinstance(n.ctx, ast.Load):
                used.add(n.attr)
            elif isinstance(n, ast.Call) and isinstance(n.func, ast.Name) and n.func.id == 'getattr' and len(n.args) >= 2 \
                    and norm(n.args[0]) == 'PreferredUnits':
                if isinstance(n.args[1], ast.Constant) and isinstance(n.args[1].value, str):
                    used.add(n.args[1].value)
                else:
                    # a computed name: it comes from a table of the module (a literal in the function, or records built at
                    # module level), so every slot name spelled in the module counts as read - an over-approximation of
                    # the reads, which can only silence this rule
                    for c_ in ast.walk(mod.tree):
                        if isinstance(c_, ast.Constant) and isinstance(c_.value, str) and c_.value in SLOT_DIMENSION:
                            used.add(c_.value)
    for slot in SLOT_DIMENSION:
        if slot not in used:
            rep.fail(rule, umod.path, pu.node.lineno, 'PreferredUnits', f'unused:{slot}',
                     f'slot `{slot}` is set by the presets but read nowhere in the package: the parameter it is meant '
                     f'for is read through another slot')


_DERIVED_PRESENTATION: Dict[int, Dict[str, str]] = {}


def _derived_presentation(prog: Program) -> Dict[str, str]:
    """Functions that are not in the inventory of the pinned tree and are called (by name, anywhere in the package) only from
    presentation code: a helper split out of an output function is output code.  Least fixed point from the listed ones."""
    if id(prog) in _DERIVED_PRESENTATION:
        return _DERIVED_PRESENTATION[id(prog)]
    from ..inline import KNOWN
    out: Dict[str, str] = {}
    _DERIVED_PRESENTATION[id(prog)] = out
    new_funcs = [g for g in prog.all_funcs() if f'{g.module.path}::{g.qualname}' not in KNOWN and not g.name.startswith('__')]
    callers: Dict[str, List[Tuple[Optional[Func], Module]]] = {}
    names = {g.name for g in new_funcs}
    for m_ in prog.modules.values():
        for c in ast.walk(m_.tree):
            nm = None
            if isinstance(c, ast.Name) and isinstance(c.ctx, ast.Load):
                nm = c.id
            elif isinstance(c, ast.Attribute) and isinstance(c.ctx, ast.Load):
                nm = c.attr
            if nm in names:
                callers.setdefault(nm, []).append((find_func_for_node(prog, m_, c), m_))
    changed = True
    while changed:
        changed = False
        for g in new_funcs:
            if g.qualname in out:
                continue
            if sum(1 for h in new_funcs if h.name == g.name) != 1:
                continue
            cs = callers.get(g.name, [])
            if cs and all(_is_presentation(cf, cm, prog) for cf, cm in cs):
                out[g.qualname] = 'helper used only by output code'
                changed = True
    return out


def _is_presentation(f: Optional[Func], mod: Module, prog: Optional[Program] = None) -> Optional[str]:
    if mod.name in PRESENTATION_MODULES:
        return PRESENTATION_MODULES[mod.name]
    derived = _DERIVED_PRESENTATION.get(id(prog), {}) if prog is not None else {}
    g = f
    while g is not None:
        if g.qualname in PRESENTATION:
            return PRESENTATION[g.qualname]
        if g.qualname in derived:
            return derived[g.qualname]
        g = g.outer
    return None


def _deferred_coercion(prog: Program, mod, f, call: ast.Call):
    """A coercion whose operand is a field of `self` that can still hold the bare number the caller gave (some store of
    the field takes a parameter - possibly through `or` / a conditional - without coercing it).  -> (field text, store
    text) or None.  A coercion belongs where the number arrives; applied to a stored value it reads the setting in force
    at the time of use."""
    if f is None or f.cls is None or not f.positional or len(call.args) != 1:
        return None
    me = f.positional[0]
    for x in ast.walk(call.args[0]):
        if not (isinstance(x, ast.Attribute) and isinstance(x.ctx, ast.Load) and isinstance(x.value, ast.Name) and x.value.id == me):
            continue
        if isinstance(parent(x), ast.Call) and parent(x).func is x:
            continue
        if prog.find_method(f.cls, x.attr) is not None:
            continue                    # a property / method: it returns what it coerces itself
        for c_ in prog.mro(f.cls):
            for m_ in list(c_.methods.values()) + list(c_.setters.values()):
                if not m_.positional:
                    continue
                for st_ in ast.walk(m_.node):
                    if not isinstance(st_, (ast.Assign, ast.AnnAssign)) or st_.value is None:
                        continue
                    tgts = st_.targets if isinstance(st_, ast.Assign) else [st_.target]
                    if not any(isinstance(t_, ast.Attribute) and t_.attr == x.attr and isinstance(t_.value, ast.Name)
                               and t_.value.id == m_.positional[0] for t_ in tgts):
                        continue
                    # operands of the stored value that are plain parameters outside any call
                    def bare_params(e) -> List[str]:
                        if isinstance(e, ast.Name):
                            return [e.id] if e.id in m_.params else []
                        if isinstance(e, ast.BoolOp):
                            return [n_ for v_ in e.values for n_ in bare_params(v_)]
                        if isinstance(e, ast.IfExp):
                            return bare_params(e.body) + bare_params(e.orelse)
                        return []
                    if bare_params(st_.value):
                        return f'{me}.{x.attr}', norm(st_)[:70]
    return None


def _defaulting_only(e: ast.AST, pname: str) -> bool:
    """`p or <literal>`, `p if <test> else <literal>`, `<literal> if <test> else p`: the value is p itself or a literal."""
    def lit(x):
        return isinstance(x, ast.Constant) or (isinstance(x, ast.UnaryOp) and isinstance(x.operand, ast.Constant))

    def me(x):
        return isinstance(x, ast.Name) and x.id == pname
    if isinstance(e, ast.BoolOp) and isinstance(e.op, ast.Or):
        return any(me(v) for v in e.values) and all(me(v) or lit(v) for v in e.values)
    if isinstance(e, ast.IfExp):
        return (me(e.body) and lit(e.orelse)) or (lit(e.body) and me(e.orelse))
    return False


def check_raw_numeric_use(prog: Program, rep, rule: str) -> None:
    """A parameter declared as number-or-quantity is a bare number in an unknown (preferred) unit until it has been
    coerced.  Over the statement CFG with reaching definitions: every use that the parameter's entry value still reaches
    must be a hand-over (argument of a call - the coercion among them -, an assignment, a return), a presence test
    (`is None`, truthiness, isinstance) or a sign test against the literal 0 of a linear dimension.  Arithmetic on it,
    float() / int() / abs() / round() of it, or a comparison with anything else reads the bare number in a fixed
    unit."""
    from ..cfg import CFG, reaching_definitions
    dims = set(C.dimension_classes(prog))
    n_params = n_uses = 0
    for m in prog.modules.values():
        if m.name.startswith('py_ballisticcalc.visualize') or m.name.endswith('.example'):
            continue
        for f in m.funcs.values():
            a = f.node.args
            cands = []
            for x in a.posonlyargs + a.args + a.kwonlyargs:
                t = norm(x.annotation) if x.annotation is not None else ''
                ds = [d for d in dims if d in t]
                if ('float' in t or 'int' in t) and ds:
                    cands.append((x.arg, ds[0]))
            if not cands:
                continue
            cfg = CFG(f.node)
            rd = reaching_definitions(cfg, f.params)
            for pname, dim in cands:
                n_params += 1
                # definitions that still hold the value as it arrived: the entry, and rebindings that only supply a
                # default (`p = p or 0`, `p = 0 if p is None else p`, `p = p if p else 0`)
                raw_defs = {cfg.entry.id}
                grew = True
                while grew:
                    grew = False
                    for n in cfg.nodes:
                        if n.id in raw_defs or not isinstance(n.ast, (ast.Assign, ast.AnnAssign)):
                            continue
                        tg = n.ast.targets if isinstance(n.ast, ast.Assign) else [n.ast.target]
                        if not (len(tg) == 1 and isinstance(tg[0], ast.Name) and tg[0].id == pname and n.ast.value is not None):
                            continue
                        if _defaulting_only(n.ast.value, pname) and rd[n.id].get(pname, set()) & raw_defs:
                            raw_defs.add(n.id)
                            grew = True
                for n in cfg.nodes:
                    if n.ast is None or not (rd[n.id].get(pname, set()) & raw_defs):
                        continue
                    root = n.ast.iter if n.kind == 'for' else n.ast
                    for x in ast.walk(root):
                        if not (isinstance(x, ast.Name) and x.id == pname and isinstance(x.ctx, ast.Load)):
                            continue
                        n_uses += 1
                        par = parent(x)
                        bad = None
                        if isinstance(par, ast.Call) and x in par.args and (dotted(par.func) or '').split('.')[-1] in (
                                'float', 'int', 'abs', 'round', 'fabs', 'sqrt'):
                            bad = f'`{norm(par)[:50]}` takes the number out of it'
                        elif isinstance(par, ast.BinOp) and not isinstance(par.op, (ast.RShift, ast.LShift)):
                            bad = f'arithmetic `{norm(par)[:50]}`'
                        elif isinstance(par, ast.UnaryOp) and isinstance(par.op, (ast.USub, ast.UAdd)):
                            bad = f'arithmetic `{norm(par)[:50]}`'
                        elif isinstance(par, ast.Compare) and not all(isinstance(o, (ast.Is, ast.IsNot)) for o in par.ops):
                            others = [c_ for c_ in [par.left] + list(par.comparators) if c_ is not x]
                            zero = all(isinstance(c_, ast.Constant) and not isinstance(c_.value, bool) and c_.value == 0 for c_ in others)
                            if not (zero and dim != 'Temperature'):
                                bad = f'comparison `{norm(par)[:50]}`'
                        if bad:
                            rep.fail(rule, m.path, x.lineno, f.qualname, f'raw:{pname}',
                                     f'{f.qualname}: parameter `{pname}` (a number or a {dim}) is used before it is coerced - {bad}: a '
                                     f'bare number, which is in the preferred unit of the day, is read as if it were in a fixed unit')
    if n_params < 20:
        raise AnalysisError(f'only {n_params} number-or-quantity parameters found: the annotations are not read any more')
    rep.ok(rule, 'py_ballisticcalc', f'{n_params} number-or-quantity parameters, {n_uses} uses before coercion: hand-overs, presence '
           f'tests and sign tests only')


def check_no_leak(prog: Program, rep, rule: str) -> None:
    _derived_presentation(prog)
    relabel_operands: set = set()
    umod = prog.module(C.M_UNIT)
    for mod in prog.modules.values():
        for n in ast.walk(mod.tree):
            f = None
            # (a) every load of PreferredUnits.<slot>
            if isinstance(n, ast.Attribute) and isinstance(n.value, ast.Name) and n.value.id == 'PreferredUnits' \
                    and isinstance(n.ctx, ast.Load) and n.attr in SLOT_DIMENSION:
                f = find_func_for_node(prog, mod, n)
                p = parent(n)
                fq = f.qualname if f else '<module>'
                if isinstance(p, ast.Call) and p.func is n:
                    late = _deferred_coercion(prog, mod, f, p)
                    if late:
                        rep.fail(rule, mod.path, n.lineno, fq, f'deferred:{late[0]}',
                                 f'{fq} coerces the stored value `{late[0]}` with PreferredUnits.{n.attr} when it is used, and '
                                 f'`{late[1]}` stores it as it arrives: a bare number given earlier is read in the unit preferred '
                                 f'at the time of use, so the same input means different things before and after a change of setting')
                    else:
                        rep.ok(rule, mod.where(n), f'{fq}: PreferredUnits.{n.attr}(...) coercion')
                    continue
                why = _is_presentation(f, mod, prog)
                if why:
                    rep.ok(rule, mod.where(n), f'{fq}: PreferredUnits.{n.attr} read for output ({why})')
                    continue
                if f is not None and isinstance(p, (ast.Assign, ast.AnnAssign)) and p.value is n:
                    # kept in a local that is only ever called: the same coercion under another name
                    tg = p.targets[0] if isinstance(p, ast.Assign) and len(p.targets) == 1 else getattr(p, 'target', None)
                    if isinstance(tg, ast.Name):
                        loads = [x for x in ast.walk(f.node) if isinstance(x, ast.Name) and x.id == tg.id and isinstance(x.ctx, ast.Load)]
                        stores = [x for x in ast.walk(f.node) if isinstance(x, ast.Name) and x.id == tg.id and isinstance(x.ctx, ast.Store)]
                        if loads and len(stores) == 1 and all(isinstance(parent(x), ast.Call) and parent(x).func is x for x in loads):
                            rep.ok(rule, mod.where(n), f'{fq}: PreferredUnits.{n.attr} kept in `{tg.id}`, which is only called (coercion)')
                            continue
                rep.fail(rule, mod.path, n.lineno, fq, f'PreferredUnits.{n.attr}',
                         f'the preferred unit `{n.attr}` is read outside a coercion and outside the presentation '
                         f'functions: `{norm(enclosing(n))[:90]}` - a number on the compute path would depend on the '
                         f'setting in force')
            # (b) unit operand of >> / << / get_in / convert
            operand = None
            if isinstance(n, ast.BinOp) and isinstance(n.op, (ast.RShift, ast.LShift)):
                operand = n.right
            elif isinstance(n, ast.Call) and isinstance(n.func, ast.Attribute) and n.func.attr in ('get_in', 'convert') \
                    and len(n.args) == 1:
                operand = n.args[0]
            if operand is not None:
                f = find_func_for_node(prog, mod, n)
                fq = f.qualname if f else '<module>'
                if C.unit_of_expr(prog, mod, operand) is not None:
                    rep.ok(rule, mod.where(n), f'{fq}: literal unit {norm(operand)}')
                    continue
                if _is_presentation(f, mod, prog):
                    continue
                if mod is umod and f is not None and f.cls is not None:
                    continue          # the unit classes' own plumbing (self.units, parameters)
                relabel = (isinstance(n, ast.BinOp) and isinstance(n.op, ast.LShift)) or \
                    (isinstance(n, ast.Call) and n.func.attr == 'convert')
                if relabel and isinstance(operand, ast.Attribute) and operand.attr == 'units':
                    # q << other.units: no number is read - the result only displays like the other quantity; its magnitude is
                    # q's (C13.R1).  A later read of the result's display value on the compute path is judged where it stands.
                    rep.ok(rule, mod.where(n), f'{fq}: `{norm(n)[-40:]}` relabels the display unit only')
                    relabel_operands.add(id(operand))
                    continue
                params = set()
                g = f
                while g is not None:
                    params |= set(g.params)
                    g = g.outer
                lam = [a for a in ancestors(n) if isinstance(a, ast.Lambda)]
                if isinstance(operand, ast.Name) and f is not None and operand.id not in params:
                    # a local (or module constant) that only ever names a literal unit
                    vals = [a_.value for a_ in ast.walk(f.node) if isinstance(a_, (ast.Assign, ast.AnnAssign)) and a_.value is not None
                            and any(isinstance(t_, ast.Name) and t_.id == operand.id
                                    for t_ in (a_.targets if isinstance(a_, ast.Assign) else [a_.target]))]
                    for a_ in ast.walk(f.node):        # a, b = U1, U2
                        if isinstance(a_, ast.Assign) and len(a_.targets) == 1 and isinstance(a_.targets[0], ast.Tuple) \
                                and isinstance(a_.value, ast.Tuple) and len(a_.targets[0].elts) == len(a_.value.elts):
                            for t_, v_ in zip(a_.targets[0].elts, a_.value.elts):
                                if isinstance(t_, ast.Name) and t_.id == operand.id:
                                    vals.append(v_)
                    if not vals:
                        cv = prog.const_value(mod, operand.id)
                        vals = [cv] if cv is not None else []
                    if vals and all(C.unit_of_expr(prog, mod, v_) is not None for v_ in vals):
                        rep.ok(rule, mod.where(n), f'{fq}: `{operand.id}` names the literal unit {norm(vals[0])}')
                        continue
                if isinstance(operand, ast.Name) and operand.id in params:
                    rep.ok(rule, mod.where(n), f'{fq}: unit parameter {operand.id}')
                    continue
                if isinstance(operand, ast.Name) and operand.id == 'self' and f is not None and f.cls is not None \
                        and f.cls.name == 'Unit':
                    rep.ok(rule, mod.where(n), f'{fq}: Unit.__call__ converts the display unit of an existing quantity')
                    continue
                rep.fail(rule, mod.path, n.lineno, fq, f'unit-operand:{norm(operand)[:40]}',
                         f'a number is read in a unit that is neither a literal unit nor a parameter: '
                         f'`{norm(n)[:80]}`')
            # (c) display unit / display value
            if isinstance(n, ast.Attribute) and n.attr in ('unit_value', 'units', '_defined_units') \
                    and isinstance(n.ctx, ast.Load) and mod is not umod:
                f = find_func_for_node(prog, mod, n)
                fq = f.qualname if f else '<module>'
                if _is_presentation(f, mod, prog):
                    continue
                if n.attr == 'unit_value':
                    # the re-wrap  q.units(q.unit_value * k)  is NOT exempt: for k != 1 it computes to_raw(from_raw(raw) * k) in
                    # the display unit, which a coercion with a preferred unit has chosen - equal to raw * k only up to
                    # rounding for a linear unit, and atan(k tan(raw)) for the tangent-based ones.  Only the bare re-wrap
                    # q.units(q.unit_value) (k = 1) leaves the magnitude alone.
                    call = next((a for a in ancestors(n) if isinstance(a, ast.Call) and isinstance(a.func, ast.Attribute)
                                 and a.func.attr == 'units' and norm(a.func.value) == norm(n.value)), None)
                    if call is not None and len(call.args) == 1 and call.args[0] is n:
                        rep.ok(rule, mod.where(n), f'{fq}: {norm(n.value)}.units({norm(n.value)}.unit_value) rebuilds the same magnitude')
                        continue
                if n.attr == 'units' and (id(n) in relabel_operands or (
                        isinstance(parent(n), ast.BinOp) and isinstance(parent(n).op, ast.LShift) and parent(n).right is n)):
                    continue        # right operand of <<: a display relabel, judged under (b)
                if n.attr == 'units':
                    p = parent(n)
                    if isinstance(p, ast.Call) and p.func is n:
                        # the unit operand of a re-wrap; the number handed to it is judged where it is read
                        continue
                rep.fail(rule, mod.path, n.lineno, fq, f'{norm(n)[:50]}',
                         f'`{norm(n)}` reads a quantity in its display unit on the compute path: '
                         f'`{norm(enclosing(n))[:90]}` - the display unit is rewritten by coercions and by <<')


def enclosing(n: ast.AST) -> ast.AST:
    cur = n
    while cur is not None and not isinstance(cur, ast.stmt):
        cur = parent(cur)
    return cur if cur is not None else n


def check_coercion_identity(prog: Program, rep, rule: str) -> None:
    """PreferredUnits.<slot>(q) for an existing quantity q: the analysed Unit.__call__ must hand back q itself with its
    magnitude untouched (bit-for-bit independence of explicit inputs rests on this; a rebuilt quantity has been round-
    tripped through the preferred unit)."""
    from .. import algebra as A
    from ..abseval import Ctx, Evaluator, Inst, Scalar, State, SymObj, Undecided, cond_leaves
    hooks = C.pref_hooks(prog)
    ev = Evaluator(prog, hooks=hooks)
    umod = prog.module(C.M_UNIT)
    call = prog.func(C.M_UNIT, 'Unit.__call__')
    st = State()
    q = C.mk_quantity(ev, st, prog, 'Distance', 'raw', 'Meter')
    slot = hooks['classattr:PreferredUnits.distance'](ev, None, 'distance')     # some unit of length (finite domain)
    try:
        r = ev.call_func(call, [q], {}, st, Ctx(umod, None, None, 0), self_val=slot)
    except Undecided as exc:
        raise AnalysisError(f'Unit.__call__ on a quantity: {exc}') from exc
    outs = [x for _p, x in cond_leaves(r)]
    same = all(isinstance(x, Inst) and x.oid == q.oid for x in outs)
    mag = st.heap[q.oid].get('_value')
    kept = isinstance(mag, Scalar) and mag.rf.equals(A.sym('raw'))
    if same and kept:
        rep.ok(rule, call.where, 'PreferredUnits.<slot>(quantity) returns the very quantity, magnitude untouched')
    else:
        rep.fail(rule, umod.path, call.node.lineno, call.qualname, 'coercion-rebuilds',
                 'coercing an existing quantity with a preferred unit does not return that very object with its magnitude '
                 'untouched (it is rebuilt through the preferred unit): results for explicit inputs then depend on the '
                 'preferred-unit setting in the last bits')


def check_number_handoff(prog: Program, rep, rule: str) -> None:
    """Inside the package, a parameter that the callee reads through ``PreferredUnits.<slot>(p)`` must not be handed a
    plain number that the caller extracted in a fixed unit (``q >> Weight.Grain``, ``.raw_value``, arithmetic on such):
    the callee re-reads it in whatever unit is preferred.  Call sites are resolved by name (module functions,
    constructors, self.method); arguments that are the caller's own parameters or quantities are fine."""
    slots = set(C.pref_slots(prog))
    coerce: Dict[Tuple[str, str], str] = {}
    for f in prog.all_funcs():
        if f.module.name in PRESENTATION_MODULES:
            continue
        params = set(f.params)
        for n in ast.walk(f.node):
            if isinstance(n, ast.Call) and isinstance(n.func, ast.Attribute) and isinstance(n.func.value, ast.Name) \
                    and n.func.value.id == 'PreferredUnits' and n.func.attr in slots and len(n.args) == 1:
                for nm in ast.walk(n.args[0]):
                    if isinstance(nm, ast.Name) and nm.id in params:
                        coerce.setdefault((f.fq, nm.id), n.func.attr)

    def assigned_values(f: Func, name: str) -> List[ast.AST]:
        out = []
        for n in ast.walk(f.node):
            if isinstance(n, ast.Assign) and any(isinstance(t, ast.Name) and t.id == name for t in n.targets):
                out.append(n.value)
            elif isinstance(n, ast.AnnAssign) and isinstance(n.target, ast.Name) and n.target.id == name and n.value is not None:
                out.append(n.value)
            elif isinstance(n, ast.NamedExpr) and n.target.id == name:
                out.append(n.value)
            elif isinstance(n, ast.AugAssign) and isinstance(n.target, ast.Name) and n.target.id == name:
                out.append(None)
        return out

    def number_in_fixed_unit(e: ast.AST, f: Func, depth: int = 0) -> Optional[str]:
        if isinstance(e, ast.BinOp) and isinstance(e.op, ast.RShift):
            return f'`{norm(e)[:50]}`'
        if isinstance(e, ast.Call) and isinstance(e.func, ast.Attribute) and e.func.attr == 'get_in':
            return f'`{norm(e)[:50]}`'
        if isinstance(e, ast.Attribute) and e.attr in ('raw_value', 'unit_value'):
            return f'`{norm(e)[:50]}`'
        if isinstance(e, ast.Call) and isinstance(e.func, ast.Name) and e.func.id in ('float', 'abs', 'round', 'int') and e.args:
            return number_in_fixed_unit(e.args[0], f, depth)
        if isinstance(e, ast.BinOp) and isinstance(e.op, (ast.Add, ast.Sub, ast.Mult, ast.Div)):
            return number_in_fixed_unit(e.left, f, depth) or number_in_fixed_unit(e.right, f, depth)
        if isinstance(e, ast.UnaryOp):
            return number_in_fixed_unit(e.operand, f, depth)
        if isinstance(e, ast.Constant) and isinstance(e.value, (int, float)) and not isinstance(e.value, bool) and e.value != 0:
            return f'the constant {e.value!r}'
        if isinstance(e, ast.Name) and depth < 3:
            vals = assigned_values(f, e.id)
            if e.id in f.params:
                # a parameter rebound by a plain statement of the function body (not under a branch) before use
                top = [s_ for s_ in f.node.body if isinstance(s_, (ast.Assign, ast.AnnAssign))
                       and any(isinstance(t_, ast.Name) and t_.id == e.id
                               for t_ in (s_.targets if isinstance(s_, ast.Assign) else [s_.target]))
                       and s_.lineno < getattr(e, 'lineno', 10 ** 9)]
                if not top:
                    return None
            if vals and all(v is not None for v in vals):
                why = [number_in_fixed_unit(v, f, depth + 1) if not (isinstance(v, ast.Name) and v.id == e.id) else None
                       for v in vals]
                if all(why):
                    return f'`{e.id}` = {why[0]}'
        return None

    n_sites = 0
    for f in prog.all_funcs():
        if f.module.name in PRESENTATION_MODULES:
            continue
        for n in ast.walk(f.node):
            if not isinstance(n, ast.Call):
                continue
            callee = None
            if isinstance(n.func, ast.Name):
                r = prog.resolve(f.module, n.func.id)
                if r and r[0] == 'func':
                    callee = r[1]
                elif r and r[0] == 'class':
                    callee = prog.find_method(r[1], '__init__')
            elif isinstance(n.func, ast.Attribute) and isinstance(n.func.value, ast.Name) and n.func.value.id in ('self', 'cls') \
                    and f.cls is not None:
                callee = prog.find_method(f.cls, n.func.attr)
            if callee is None:
                continue
            pos = [p_ for p_ in callee.positional]
            if callee.cls is not None and pos and not getattr(callee, 'is_staticmethod', False):
                pos = pos[1:]
            bound = dict(zip(pos, n.args))
            bound.update({k.arg: k.value for k in n.keywords if k.arg})
            for pname, arg in bound.items():
                slot = coerce.get((callee.fq, pname))
                if slot is None or isinstance(arg, ast.Starred):
                    continue
                n_sites += 1
                why = number_in_fixed_unit(arg, f)
                if why:
                    rep.fail(rule, f.module.path, n.lineno, f.qualname, f'handoff:{callee.qualname}.{pname}',
                             f'{f.qualname} passes {why} - a plain number in a fixed unit - to `{pname}` of {callee.qualname}, '
                             f'which reads bare numbers in PreferredUnits.{slot}: the value changes with the preference '
                             f'although the caller\'s input carried explicit units')
                else:
                    rep.ok(rule, f.module.where(n), f'{f.qualname} -> {callee.qualname}({pname}=...): not a number in a fixed unit')
    rep.extra['internal_handoffs_to_coercing_parameters'] = n_sites
    rep.extra['coercing_parameters'] = len(coerce)


def run(prog: Program, rep, thorough: bool) -> None:
    rep.rule('C07.R1', 'no truthiness test on a float-or-quantity parameter', 12)
    rep.rule('C07.R2', 'slot of the right dimension and name at every coercion and in every preset', 30 + 6)
    rep.rule('C07.R3', 'preferred / display units never feed a number on the compute path', 60)
    # AbstractDimension must not define truthiness (otherwise `x or d` could be sound)
    base = prog.cls(C.M_UNIT, 'AbstractDimension')
    for c in [base] + list(C.dimension_classes(prog).values()):
        for dunder in ('__bool__', '__len__'):
            if dunder in c.methods:
                rep.note(f'{c.name} defines {dunder}: R1 assumes quantities are always truthy')
                raise AnalysisError(f'{c.name} defines {dunder}; rule C07.R1 needs to be re-derived')
    check_truthiness(prog, rep, 'C07.R1')
    check_slots(prog, rep, 'C07.R2')
    check_no_leak(prog, rep, 'C07.R3')
    rep.rule('C07.R5', 'a number-or-quantity parameter is not read as a number before it is coerced', 1)
    check_raw_numeric_use(prog, rep, 'C07.R5')
    check_coercion_identity(prog, rep, 'C07.R3')
    rep.rule('C07.R4', 'no plain number in a fixed unit is handed to a parameter that reads bare numbers in a preferred unit', 3)
    check_number_handoff(prog, rep, 'C07.R4')
    # a memoised function must not read the preference: its answers are frozen at the preference of the first call
    n_memo = 0
    for f in prog.all_funcs():
        d = C.memo_decorator(f)
        if d is None or f.module.name in PRESENTATION_MODULES:
            continue
        n_memo += 1
        hit = C.reads_preferred_units(prog, f)
        if hit:
            rep.fail('C07.R3', f.module.path, f.node.lineno, f.qualname, f'memo:{f.qualname}',
                     f'{f.qualname} is memoised with @{d} and {hit}: a bare number is read in the unit preferred at the first '
                     f'call with that number and the answer is served from the cache after the preference has changed')
        else:
            rep.ok('C07.R3', f.where, f'memoised {f.qualname} does not read the preferred units')
    rep.extra['memoised_functions'] = n_memo


CON = 'py_ballisticcalc/conditions.py'
MUN = 'py_ballisticcalc/munition.py'
TCF = 'py_ballisticcalc/trajectory_calc/_trajectory_calc.py'
TD = 'py_ballisticcalc/trajectory_data/_trajectory_data.py'
VARIANTS = [
    Variant('sfp-step-scaled-in-the-display-unit', 'break', [(MUN, '            return Angular.Radian(\n                click_size.raw_value\n                * self.scale_factor.raw_value\n                / _td.raw_value\n                * magnification\n            ) << click_size.units\n', '            return click_size.units(\n                click_size.unit_value\n                * self.scale_factor.raw_value\n                / _td.raw_value\n                * magnification\n            )\n')], 'C07.R3', 'the defect repaired by 1dc3f43: the SFP step scales the number shown in the click\'s display unit, which follows PreferredUnits.adjustment'),
    Variant('wind-sort-key-display-value', 'break', [(CON, 'key=lambda wind: wind.until_distance.raw_value', 'key=lambda wind: wind.until_distance.unit_value')], 'C07.R3', '', 'pass'),
    Variant('solver-reads-preferred-unit', 'break', [(TCF, 'self.alt0 = shot_info.atmo.altitude >> Distance.Foot', 'self.alt0 = (shot_info.atmo.altitude >> PreferredUnits.distance) * 3'), (TCF, 'import Distance, Angular, Velocity, Weight, Energy, Pressure, Temperature, Unit', 'import Distance, Angular, Velocity, Weight, Energy, Pressure, Temperature, Unit, PreferredUnits')], 'C07.R3', '', 'pass'),
    Variant('preset-ogw-meter', 'break', [('py_ballisticcalc/assets/.pybc-metrics.toml', "ogw = 'Kilogram'", "ogw = 'Meter'")], 'C07.R2'),
    Variant('sight-height-through-distance-slot', 'break', [(MUN, 'PreferredUnits.sight_height(sight_height or 0)', 'PreferredUnits.distance(sight_height or 0)')], 'C07.R2', 'positive control', 'caught'),
    Variant('look-angle-or-default-nonzero', 'break', [(CON, 'PreferredUnits.angular(look_angle or 0)', 'PreferredUnits.angular(look_angle or Angular.Degree(0))')], 'C07.R1', 'fallback is a quantity: fine for 0 only by accident; the idiom is refuted'),
    Variant('twist-through-temperature-slot', 'break', [(MUN, 'PreferredUnits.twist(twist or 0)', 'PreferredUnits.temperature(twist or 0)')], 'C07.R2'),
    Variant('defaults-resets-wrong-dimension', 'break', [(  'py_ballisticcalc/unit.py', '        cls.drop = Unit.Inch\n', '        cls.drop = Unit.Grain\n')], 'C07.R2'),
    Variant('atmo-temperature-or-default', 'break', [(CON, 'Atmo.standard_temperature(self.altitude) if temperature is None else temperature', 'temperature or Atmo.standard_temperature(self.altitude)')], 'C07.R1', 'the defect repaired by 56b1bee', 'pass'),
    Variant('wind-until-or-default', 'break', [(CON, 'Distance.Foot(self.MAX_DISTANCE_FEET) if until_distance is None else until_distance', 'until_distance or Distance.Foot(self.MAX_DISTANCE_FEET)')], 'C07.R1', 'the defect repaired by e2838cb', 'pass'),
    Variant('danger-space-distance-slot', 'break', [(TD, 'PreferredUnits.target_height(target_height)', 'PreferredUnits.distance(target_height)')], 'C07.R2', 'the defect repaired by cd2aa9f', 'pass'),
    Variant('ammo-default-powder-temp-bare', 'break', [(MUN, 'PreferredUnits.temperature(Temperature.Celsius(15) if powder_temp is None else powder_temp)', 'PreferredUnits.temperature(59.0 if powder_temp is None else powder_temp)')], 'C07.R2', 'the default follows the temperature preference (59 C, 59 K)'),
    Variant('multibc-rebinds-parameters-to-floats', 'break', [('py_ballisticcalc/drag_model.py', '    weight = PreferredUnits.weight(weight)\n    diameter = PreferredUnits.diameter(diameter)\n    if weight > 0 and diameter > 0:\n        bc = sectional_density(weight >> Weight.Grain, diameter >> Distance.Inch)', '    weight = PreferredUnits.weight(weight) >> Weight.Grain\n    diameter = PreferredUnits.diameter(diameter) >> Distance.Inch\n    if weight > 0 and diameter > 0:\n        bc = sectional_density(weight, diameter)')], 'C07.R4', 'seeded change C05/7'),
    Variant('multibc-hands-floats-to-dragmodel', 'break', [('py_ballisticcalc/drag_model.py', '    return DragModel(bc, drag_table, weight, diameter, length)', '    return DragModel(bc, drag_table, weight >> Weight.Grain, diameter >> Distance.Inch, length)')], 'C07.R4', 'seeded change C07/5'),
    Variant('icao-conditions-memoised-on-bare-altitude', 'break', [(CON, '    @staticmethod\n    def icao(altitude: Union[float, Distance] = 0,', '    @staticmethod\n    @lru_cache(maxsize=64)\n    def icao(altitude: Union[float, Distance] = 0,'), (CON, 'import math\nimport warnings\n', 'import math\nimport warnings\nfrom functools import lru_cache\n')], 'C07.R3', 'seeded change C07/4 in spirit'),
    Variant('twin-or-zero-float', 'twin', [(CON, 'PreferredUnits.angular(look_angle or 0)', 'PreferredUnits.angular(look_angle or 0.0)')], None),
    Variant('twin-is-none-form', 'twin', [(CON, 'PreferredUnits.angular(relative_angle or 0)', 'PreferredUnits.angular(0 if relative_angle is None else relative_angle)')], None),
]
