"""C08 - Atmosphere reproduces the ISA and is self-consistent across altitude."""
from __future__ import annotations

import ast
import math
from fractions import Fraction
from typing import Dict, List, Optional, Tuple

from .. import algebra as A
from ..abseval import (Cond, Const, Ctx, Evaluator, Inst, Leaf, NONE, Raised, Scalar, State, S, SymObj, Tup, Undecided,
                       cond_leaves, leaves)
from ..check import Variant
from ..loader import AnalysisError, Program, dotted, norm, parent
from ..spec import isa
from . import common as C

ID = 'C08'
TECHNIQUE = ('constant folding of constants.py against an ISA-1976 oracle and against its own metric/imperial twins; '
             'abstract evaluation of the standard and station formulas to normal forms (pressure exponent kept '
             'symbolic) and of their composition; guarded-case analysis of the humidity setter; evaluation of the '
             'Vacuum subclass')
DECIDED = [
    'R1 the 16 physical constants agree with ISA-1976 (1e-5, rounded twins 1e-4), metric and imperial twins agree '
    'with each other, and P0 M_a / (R T0) gives the standard density (the moist-air routine\'s own M_a and R)',
    'R2 standard temperature and pressure are T0 + L h and P0 (1 + L h / T0)^k; the station formulas are '
    't0 + L (h - a0) and p0 (1 + L (h - a0)/(t0 + 273.15))^k; density factor = station ratio x (T0/T)(p/p0); '
    'Mach reference = sqrt(T) x the metric coefficient in fps; a standard station extrapolated to h has the '
    'temperature and pressure base of the standard station at h; at the station altitude the long formula gives '
    'exactly the station density and the cached Mach up to the twin tolerance; the shortcut returns the cached '
    'values within the stated 30 ft',
    'R3 humidity is stored only by its setter, which raises exactly outside [0, 100] leaving the stored value untouched, stores value/100 above 1 and '
    'the value itself otherwise; the density routine receives the stored fraction',
    'R4 in a Vacuum the density ratio is the literal 0 after construction, stays 0 through every operation that '
    'recomputes it, and both branches of the altitude query return it times a factor',
    'R5 no memoised (lru_cache / cache / cached_property) method of Atmo or a subclass reads a field that is written after construction (the humidity setter rewrites the density ratio)',
]
NOT_DECIDED = ['the 1e-4 agreement of computed numbers with ISA tables at arbitrary altitude and the monotonicity in '
               'pressure, temperature and humidity (numerical behaviour of the moist-air expression); conformance of '
               'calculate_air_density to CIPM-2007 is deliberately not an obligation (the property does not state it)']


def _consts(prog: Program) -> Dict[str, float]:
    mod = prog.module(C.M_CONST)
    out = {}
    for name in mod.assigns:
        v = C.const_number(prog, mod, name)
        if v is not None:
            out[name] = v
    return out


def run(prog: Program, rep, thorough: bool) -> None:
    A.reset()

    # memoised methods of Atmo must not read a field that can change after construction (the humidity setter rewrites
    # the density ratio): the cache would keep serving the old atmosphere
    atmo_ci = prog.cls(C.M_COND, 'Atmo')
    later = C.fields_written_after_init(prog, atmo_ci)
    rep.rule('C08.R5', 'no memoised Atmo method reads state that changes after construction', 1)
    memo_bad = False
    for cm in [atmo_ci] + prog.subclasses(atmo_ci):
        for nm, m in cm.methods.items():
            d = C.memo_decorator(m)
            if d is None:
                continue
            stale = sorted(C.self_field_reads(prog, cm, m) & set(later))
            if stale:
                memo_bad = True
                rep.fail('C08.R5', m.module.path, m.node.lineno, m.qualname, f'memo:{nm}',
                         f'{m.qualname} is memoised with @{d} and reads {stale[:4]}, which {later[stale[0]]} rewrites after '
                         f'construction: the same object keeps answering with the atmosphere it had at the first query '
                         f'(density no longer falls with humidity; a station set back to standard disagrees with icao)')
    if not memo_bad:
        rep.ok('C08.R5', f'{prog.module(C.M_COND).path}:{atmo_ci.node.lineno}', 'no memoised Atmo method reads a field that is written after construction')
    rep.rule('C08.R1', 'constants vs ISA and vs their twins', 16 + 7 + 1)
    rep.rule('C08.R2', 'formula conformance and composition', 8)
    rep.rule('C08.R3', 'humidity contract', 3)
    rep.rule('C08.R4', 'vacuum stays zero', 3)
    cm = prog.module(C.M_CONST)
    cond = prog.module(C.M_COND)
    consts = _consts(prog)

    # ---- R1 ------------------------------------------------------------------------------------
    for name, (want, tol) in isa.CONSTANTS.items():
        line = cm.assigns[name][-1][2].lineno if name in cm.assigns else 1
        if name not in consts:
            rep.fail('C08.R1', cm.path, line, '<module>', f'const:{name}', f'{name} vanished or is not a literal')
            continue
        got = consts[name]
        ok = got == want if tol == 0 else abs(got - want) <= tol * abs(want)
        if ok:
            rep.ok('C08.R1', f'{cm.path}:{line}', f'{name} = {got} (ISA {want:.8g})')
        else:
            rep.fail('C08.R1', cm.path, line, '<module>', f'const:{name}',
                     f'{name} = {got}, ISA-1976 gives {want:.8g} (relative difference {abs(got / want - 1) if want else abs(got):.2e}, tolerance {tol:g})')
    for name, expr, tol in isa.TWINS:
        line = cm.assigns[name][-1][2].lineno if name in cm.assigns else 1
        try:
            want = eval(expr, {'__builtins__': {}}, dict(consts))     # arithmetic over the folded literals only
        except (NameError, ZeroDivisionError) as exc:
            raise AnalysisError(f'twin relation {expr}: {exc}') from exc
        got = consts.get(name)
        if got is not None and abs(got - want) <= tol * abs(want):
            rep.ok('C08.R1', f'{cm.path}:{line}', f'{name} = {expr} within {tol:g}')
        else:
            rep.fail('C08.R1', cm.path, line, '<module>', f'twin:{name}',
                     f'{name} = {got} disagrees with its twin: {expr} = {want:.8g} (tolerance {tol:g}); the imperial and '
                     f'metric halves of the model would describe different atmospheres')
    cad = prog.func(C.M_COND, 'Atmo.calculate_air_density')
    rep.saw(cad)
    # the density routine evaluated at the standard sea-level state (15 C, 1013.25 hPa, dry): exact rational arithmetic
    # on the literals, whatever they are called and wherever they are kept
    ev0 = Evaluator(prog)
    try:
        r0, _st0 = ev0.call_value(cad, [Scalar(Fraction(repr(consts['cStandardTemperatureC']))),
                                       Scalar(Fraction(repr(consts['cStandardPressureMetric']))), Scalar(0)])
    except Undecided as exc:
        raise AnalysisError(f'calculate_air_density at the standard state: {exc}') from exc
    vals0 = [A.numeric(x.rf) if isinstance(x, Scalar) else None for _cp, x in cond_leaves(r0)]
    if len(vals0) != 1 or vals0[0] is None:
        raise AnalysisError(f'calculate_air_density at the standard state does not fold to a number: {r0!r}'[:200])
    rho = vals0[0]
    if abs(rho / consts['cStandardDensityMetric'] - 1) <= 1e-4:
        rep.ok('C08.R1', cad.where, f'dry-air density at (T0, P0) = {rho:.6f} kg/m^3 = standard density within 1e-4')
    else:
        rep.fail('C08.R1', cond.path, cad.node.lineno, cad.qualname, 'ideal-gas',
                 f'the density routine gives {rho:.6f} kg/m^3 at the standard sea-level state but cStandardDensityMetric = '
                 f'{consts["cStandardDensityMetric"]}: the standard atmosphere would not have density ratio 1')

    # dry air is the limit of humid air: the routine evaluated at humidity 0 and at 1e-9 (exact arithmetic on the
    # literals, three temperatures) must agree to 1e-7 - a special case for `humidity == 0` that drops a term makes the
    # density jump there, and "falls with humidity" fails at the boundary
    jumps = []
    for tc_ in (-45, 15, 35):
        vals_ = []
        for hum_ in (Fraction(0), Fraction(1, 10 ** 9)):
            try:
                rj, _sj = Evaluator(prog).call_value(cad, [Scalar(Fraction(tc_)), Scalar(Fraction(repr(consts['cStandardPressureMetric']))),
                                                           Scalar(hum_)])
            except Undecided as exc:
                raise AnalysisError(f'calculate_air_density at {tc_} C: {exc}') from exc
            nums = [A.numeric(x.rf) if isinstance(x, Scalar) else None for _cp, x in cond_leaves(rj)]
            if len(nums) != 1 or nums[0] is None:
                raise AnalysisError(f'calculate_air_density at {tc_} C does not fold to a number')
            vals_.append(nums[0])
        if abs(vals_[1] / vals_[0] - 1) > 1e-7:
            jumps.append(f'at {tc_} C the density is {vals_[0]:.8f} kg/m^3 for humidity 0 and {vals_[1]:.8f} for humidity 1e-9 '
                         f'(relative jump {abs(vals_[1] / vals_[0] - 1):.1e})')
    if jumps:
        rep.fail('C08.R1', cond.path, cad.node.lineno, cad.qualname, 'dry-limit',
                 'dry air is not the limit of humid air: ' + jumps[0] + '; density does not fall with humidity across the boundary')
    else:
        rep.ok('C08.R1', cad.where, 'the density at humidity 0 is the limit of the density at humidity -> 0 (three temperatures, 1e-7)')

    # ---- R2 ------------------------------------------------------------------------------------
    def sym_exponent(ev_, module, name):
        return S('kexp')
    ev = Evaluator(prog, hooks={'global:cPressureExponent': sym_exponent, **C.pref_hooks(prog)},
                   opaque={'calculate_air_density'})
    atmo_c = prog.cls(C.M_COND, 'Atmo')
    ctx = Ctx(cond, None, None, 0)
    T0, L, P0 = isa.T0_K, isa.LAPSE_K_PER_M, isa.P0_PA / 100.0
    hft = A.sym('hft')
    hm = hft * Fraction('0.3048')
    st = State()
    alt_q = C.mk_quantity(ev, st, prog, 'Distance', hft * 12, 'Foot')

    def in_unit(q, unit, st_):
        raw_ = st_.heap[q.oid].get('_value') if isinstance(q, Inst) else None
        if raw_ is None:
            raise AnalysisError(f'not a quantity: {q!r}')
        return ev.lift(lambda r_: Scalar(C.read_raw_in(ev, prog, q.cls.name, r_, unit)) if isinstance(r_, Scalar) else r_, raw_)
    # standard temperature
    stf = prog.func(C.M_COND, 'Atmo.standard_temperature')
    rep.saw(stf)
    try:
        tq, st = ev.call_value(stf, [alt_q], st=st)
        tk = in_unit(tq, 'Kelvin', st)
    except Undecided as exc:
        raise AnalysisError(f'standard_temperature: {exc}') from exc
    want_t = A.rf(Fraction(repr(T0))) + A.rf(Fraction(repr(L))) * hm
    if isinstance(tk, Scalar) and A.approx_equal(tk.rf, want_t, 1e-4):
        rep.ok('C08.R2', stf.where, f'standard temperature = T0 + L h  ({tk.rf!r} K)')
    else:
        rep.fail('C08.R2', cond.path, stf.node.lineno, stf.qualname, 'std-temperature',
                 f'standard temperature at h ft is {tk!r} K, ISA gives {want_t!r}')
    # standard pressure
    spf = prog.func(C.M_COND, 'Atmo.standard_pressure')
    rep.saw(spf)
    try:
        pq, st = ev.call_value(spf, [alt_q], st=st)
        ph = in_unit(pq, 'hPa', st)
    except Undecided as exc:
        raise AnalysisError(f'standard_pressure: {exc}') from exc
    want_base = 1 + A.rf(Fraction(repr(L))) * hm / A.rf(Fraction(repr(T0)))
    std_base = None
    ok = False
    if isinstance(ph, Scalar):
        pows = [A.ATOMS[a] for a in ph.rf.all_atoms() if A.ATOMS[a].kind == 'fn' and A.ATOMS[a].name == 'pow']
        if len(pows) == 1 and pows[0].args[1].equals(A.sym('kexp')):
            std_base = pows[0].args[0]
            pref = A.ratio_const(ph.rf, A.RF(A.Poly.atom(pows[0])))
            ok = pref is not None and abs(pref / P0 - 1) <= 1e-4 and A.approx_equal(std_base, want_base, 1e-4)
    if ok:
        rep.ok('C08.R2', spf.where, f'standard pressure = P0 (1 + L h / T0)^k, base {std_base!r}')
    else:
        rep.fail('C08.R2', cond.path, spf.node.lineno, spf.qualname, 'std-pressure',
                 f'standard pressure at h ft is {ph!r} hPa; ISA gives {P0} * ({want_base!r}) ^ k')
    # station formulas
    st = State()
    station = ev.new_inst(st, atmo_c, {'_a0': S('a0'), '_t0': S('t0'), '_p0': S('p0'), '_mach': S('mach0'),
                                       '_density_ratio': S('dr0'), '_humidity': S('hum')})
    taf = prog.func(C.M_COND, 'Atmo.temperature_at_altitude')
    paf = prog.func(C.M_COND, 'Atmo.pressure_at_altitude')
    gdf = prog.func(C.M_COND, 'Atmo.get_density_factor_and_mach_for_altitude')
    for f in (taf, paf, gdf):
        rep.saw(f)
    a0, t0, p0, h = A.sym('a0'), A.sym('t0'), A.sym('p0'), A.sym('h')
    Lft = A.rf(Fraction(repr(consts['cLapseRateKperFoot'])))
    K = A.rf(Fraction(repr(consts['cDegreesCtoK'])))
    try:
        tv, st = ev.call_value(taf, [S('h')], self_val=station, st=st)
    except Undecided as exc:
        raise AnalysisError(f'temperature_at_altitude: {exc}') from exc
    t_main = [x for p_, x in cond_leaves(tv) if isinstance(x, Scalar) and x.rf.depends_on('h')]
    want_ta = (h - a0) * A.rf(Fraction(repr(L * isa.FT))) + t0
    if len(t_main) == 1 and A.approx_equal(t_main[0].rf, want_ta, 1e-4):
        rep.ok('C08.R2', taf.where, 'station temperature = t0 + L (h - a0)')
    else:
        rep.fail('C08.R2', cond.path, taf.node.lineno, taf.qualname, 'station-temperature',
                 f'temperature at altitude is {t_main!r}, expected {want_ta!r}')
    try:
        pv, st = ev.call_value(paf, [S('h')], self_val=station, st=st)
    except Undecided as exc:
        raise AnalysisError(f'pressure_at_altitude: {exc}') from exc
    sta_base = None
    ok = False
    if isinstance(pv, Scalar):
        pows = [A.ATOMS[a] for a in pv.rf.all_atoms() if A.ATOMS[a].kind == 'fn' and A.ATOMS[a].name == 'pow']
        if len(pows) == 1 and pows[0].args[1].equals(A.sym('kexp')):
            sta_base = pows[0].args[0]
            want_sb = 1 + A.rf(Fraction(repr(L * isa.FT))) * (h - a0) / (t0 + A.rf(Fraction(repr(isa.C_TO_K))))
            ok = pv.rf.equals(p0 * A.RF(A.Poly.atom(pows[0]))) and A.approx_equal(sta_base, want_sb, 1e-4)
    if ok:
        rep.ok('C08.R2', paf.where, 'station pressure = p0 (1 + L (h - a0)/(t0 + 273.15))^k')
    else:
        rep.fail('C08.R2', cond.path, paf.node.lineno, paf.qualname, 'station-pressure',
                 f'pressure at altitude is {pv!r}')
    # composition: standard station at a0 -> h   vs   standard station at h
    if std_base is not None and sta_base is not None and t_main:
        # standard temperature in Celsius and standard base as functions of an altitude in feet
        t_std_c = (tk.rf - K) if isinstance(tk, Scalar) else None
        comp_ok = False
        if t_std_c is not None:
            t_at_a0 = t_std_c.subs({'hft': a0})
            base_a0 = std_base.subs({'hft': a0})
            base_h = std_base.subs({'hft': h})
            sta = sta_base.subs({'t0': t_at_a0})
            temp_comp = t_main[0].rf.subs({'t0': t_at_a0})
            temp_h = t_std_c.subs({'hft': h})
            comp_ok = A.approx_equal(sta * base_a0, base_h, 2e-4) and A.approx_equal(temp_comp, temp_h, 2e-4)
        if comp_ok:
            rep.ok('C08.R2', gdf.where, 'a standard station extrapolated to h has the temperature and the pressure base '
                   'of the standard station created at h')
        else:
            rep.fail('C08.R2', cond.path, gdf.node.lineno, gdf.qualname, 'composition',
                     'a standard station extrapolated to another altitude does not reproduce the standard atmosphere '
                     'there (station and standard formulas use inconsistent lapse rate / reference temperature)')
    # what the shortcut hands out: the station's cached speed of sound, as construction leaves it and as it stands after
    # the humidity has been set again, must be the dry-air value sqrt(T) x coefficient of the station temperature - the
    # same law the long branch uses - or the two branches disagree at the 30-ft boundary
    evc = Evaluator(prog, hooks=C.pref_hooks(prog), opaque={'calculate_air_density'})
    stc = State()
    qc = lambda d_, s_, u_: C.mk_quantity(evc, stc, prog, d_, s_, u_)
    try:
        built = evc.construct(atmo_c, [qc('Distance', 'a_raw', 'Foot'), qc('Pressure', 'p_raw', 'hPa'), qc('Temperature', 'tC', 'Celsius'),
                                       Scalar(Fraction(1, 2))], {}, stc, ctx)
    except Undecided as exc:
        raise AnalysisError(f'Atmo.__init__: {exc}') from exc
    if not isinstance(built, Inst):
        raise AnalysisError(f'Atmo(...) evaluates to {built!r}')
    tC = A.sym('tC')          # the raw magnitude of a temperature is in Fahrenheit
    want_mach = ((tC + A.rf(Fraction(repr(consts['cDegreesFtoR'])))) ** Fraction(1, 2)) * \
        A.rf(Fraction(repr(consts['cSpeedOfSoundImperial'])))

    def cached_mach_ok(tag: str) -> Optional[str]:
        mv_ = stc.heap[built.oid].get('_mach')
        mains = [x for p_, x in cond_leaves(mv_) if isinstance(x, Scalar) and x.rf.depends_on('tC')] if mv_ is not None else []
        if not mains:
            return f'{tag} the cached speed of sound is {mv_!r}'[:200]
        for x in mains:
            r_ = A.ratio_const(x.rf, want_mach)
            if r_ is None or abs(r_ - 1) > 1e-4:
                return (f'{tag} the cached speed of sound is {x.rf!r}'[:220] + ', not sqrt(T) x the coefficient of the station '
                        'temperature: the shortcut and the long branch disagree at the 30-ft boundary')
        return None
    bad_cached = cached_mach_ok('after construction')
    if bad_cached is None and 'humidity' in atmo_c.setters:
        try:
            evc.call_func(atmo_c.setters['humidity'], [Scalar(Fraction(1, 4))], {}, stc, ctx, self_val=built)
        except Undecided as exc:
            raise AnalysisError(f'humidity setter on a built station: {exc}') from exc
        bad_cached = cached_mach_ok('after the humidity has been set again')
    if bad_cached:
        rep.fail('C08.R2', cond.path, atmo_c.node.lineno, 'Atmo', 'cached-mach', bad_cached)
    else:
        rep.ok('C08.R2', f'{cond.path}:{atmo_c.node.lineno}', 'the cached speed of sound is sqrt(T) x coefficient of the station temperature '
               'after construction and after the humidity setter')
    # density factor and Mach reference of the long branch; shortcut
    try:
        rv, st = ev.call_value(gdf, [S('h')], self_val=station, st=st)
    except Undecided as exc:
        raise AnalysisError(f'get_density_factor_and_mach_for_altitude: {exc}') from exc
    short, long_ = [], []

    def is_cached(tl) -> bool:
        return isinstance(tl, Tup) and len(tl.items) == 2 and isinstance(tl.items[0], Scalar) and tl.items[0].rf.equals(A.sym('dr0')) \
            and isinstance(tl.items[1], Scalar) and tl.items[1].rf.equals(A.sym('mach0'))
    for path, leaf in cond_leaves(rv):
        if not isinstance(leaf, Tup) or len(leaf.items) != 2:
            continue
        # the temperature clamp leaves guarded values inside the tuple: distribute them
        flat = ev.lift(lambda *xs: Tup(list(xs)), *leaf.items)
        for _p2, tl in cond_leaves(flat):
            if isinstance(tl, Tup):
                (short if is_cached(tl) else long_).append(tl)
    # the band by sampling the guards (however the test is spelled: fabs(d) < 30, -30 < d < 30, two comparisons):
    # strictly inside 30 ft of the station the cached values come back, at 30 ft and beyond they do not
    from .c16 import value_at
    band_problems = []
    n_band = 0
    for a0_ in (0.0, 1000.0, -200.0):
        for d_, inside in ((0.0, True), (1.0, True), (-1.0, True), (29.5, True), (-29.5, True), (29.999, True), (-29.999, True),
                           (30.0, False), (-30.0, False), (30.5, False), (-30.5, False), (31.0, False), (-31.0, False),
                           (500.0, False), (-500.0, False)):
            got = value_at(rv, {'a0': a0_, 'h': a0_ + d_})
            if isinstance(got, Tup) and len(got.items) == 2:
                got = ev.lift(lambda *xs: Tup(list(xs)), *got.items)
            cached = is_cached(got)
            if isinstance(got, Cond) and any(is_cached(x_) for _p, x_ in cond_leaves(got)):
                raise AnalysisError('the near-station test of get_density_factor_and_mach_for_altitude depends on more than the '
                                    'distance from the station: not readable by sampling')
            n_band += 1
            if cached != inside:
                band_problems.append(f'{d_:+g} ft from the station the {"long formula" if inside else "cached station values"} '
                                     f'{"is" if inside else "are"} used')
    if short and not band_problems:
        rep.ok('C08.R2', gdf.where, f'strictly within 30 ft of the station the cached station values are returned, at 30 ft and '
               f'beyond the long formula ({n_band} sample distances)')
    else:
        rep.fail('C08.R2', cond.path, gdf.node.lineno, gdf.qualname, 'shortcut',
                 f'the near-station shortcut is not the stated 30-ft band returning the cached station values: '
                 f'{"; ".join(band_problems[:3]) or "no path returns the cached values"}')
    ok_long = False
    detail = ''
    for l in long_:
        d, m = l.items
        if not (isinstance(d, Scalar) and isinstance(m, Scalar)):
            continue
        # at h = a0 (take the un-clamped temperature case)
        if not d.rf.depends_on('h'):
            continue
        d0 = d.rf.subs({'h': a0})
        m0 = m.rf.subs({'h': a0})
        cached = (((t0 * 9 / 5 + 32) + A.rf(Fraction(repr(consts['cDegreesFtoR'])))) ** Fraction(1, 2)) * \
            A.rf(Fraction(repr(consts['cSpeedOfSoundImperial'])))
        r = A.ratio_const(m0, cached)
        temp_k = t_main[0].rf + K if t_main else None
        want_d = A.sym('dr0') * ((t0 + K) * pv.rf) / (p0 * temp_k) if temp_k is not None and isinstance(pv, Scalar) else None
        form_ok = want_d is not None and d.rf.equals(want_d)
        detail = f'density at the station altitude {d0!r}; Mach ratio to cached {r}'
        if d0.equals(A.sym('dr0')) and r is not None and abs(r - 1) <= 1e-4 and form_ok:
            ok_long = True
    # every way out of the long branch, by sampling: whichever alternative the guards select at a sample (station
    # altitude, query altitude), the density returned there must be the value of ratio x (T0/T)(p/p0) at that point
    if ok_long and want_d is not None:
        import math as _m
        off = None
        n_pts = 0
        for a0_ in (0.0, 4500.0):
            for d_ in (35.0, -35.0, 120.0, -250.0, 600.0, -900.0, 999.0, 1500.0, 5000.0, 12000.0):
                env = {'a0': a0_, 'h': a0_ + d_, 'dr0': 0.93, 'mach0': 1104.0, 't0': 11.0, 'p0': 985.0, 'kexp': 5.255876,
                       'pi': _m.pi}
                got = value_at(rv, env)
                if isinstance(got, Tup) and len(got.items) == 2:
                    got = value_at(ev.lift(lambda *xs: Tup(list(xs)), *got.items), env)
                if not (isinstance(got, Tup) and len(got.items) == 2 and isinstance(got.items[0], Scalar)):
                    continue
                try:
                    a_, b_ = got.items[0].rf.evalf(env), want_d.evalf(env)
                except (KeyError, ZeroDivisionError, ValueError, OverflowError):
                    continue
                n_pts += 1
                if abs(a_ - b_) > 1e-9 * abs(b_) and off is None:
                    off = (a0_, d_, a_, b_, got.items[0].rf)
        if off is not None:
            ok_long = False
            detail = (f'station at {off[0]:g} ft, query {off[1]:+g} ft from it: the density ratio returned is {off[4]!r} = {off[2]:.9f}, '
                      f'the extrapolation ratio x (T0/T)(p/p0) gives {off[3]:.9f} (relative difference {abs(off[2] / off[3] - 1):.2e}) - '
                      f'another model is used on that stretch')
        elif n_pts < 10:
            raise AnalysisError('long branch of get_density_factor_and_mach_for_altitude: fewer than 10 sample points readable')
    if ok_long:
        rep.ok('C08.R2', gdf.where, 'long formula: ratio x (T0/T)(p/p0); at the station altitude it returns the station '
               'density exactly and the cached Mach within 1e-4')
    else:
        rep.fail('C08.R2', cond.path, gdf.node.lineno, gdf.qualname, 'long-branch',
                 f'the altitude extrapolation is not station ratio x (T0/T)(p/p0) or does not meet the station values at '
                 f'the station altitude: {detail}')
    # Mach reference: sqrt(T[K]) * metric coefficient in fps
    mk = prog.func(C.M_COND, 'Atmo.machK')
    mkv, _ = ev.call_value(mk, [S('TK')])
    coef = A.ratio_const(mkv.rf, A.sym('TK') ** Fraction(1, 2)) if isinstance(mkv, Scalar) else None
    if coef is not None and abs(coef / consts['cSpeedOfSoundMetric'] - 1) < 1e-12:
        rep.ok('C08.R2', mk.where, 'Mach 1 = sqrt(T) x cSpeedOfSoundMetric m/s')
    else:
        rep.fail('C08.R2', cond.path, mk.node.lineno, mk.qualname, 'machK', f'machK(T) = {mkv!r}')

    # ---- R3 ------------------------------------------------------------------------------------
    hs = atmo_c.setters.get('humidity')
    if hs is None:
        raise AnalysisError('Atmo.humidity setter vanished')
    rep.saw(hs)
    # who stores the field: the setter, the constructor (judged below on the same cases, by evaluation), and helpers that only
    # those two call (evaluated through); a store anywhere else bypasses the contract
    init_f = prog.find_method(atmo_c, '__init__')
    covered = {id(hs), id(init_f)}
    storers = {id(s.func): s for s in C.iter_attr_stores(prog) if s.attr == '_humidity'}
    grew = True
    while grew:
        grew = False
        for fid, s_ in storers.items():
            g = s_.func
            if fid in covered or g is None or g.cls is None or g.cls.name != atmo_c.name:
                continue
            uses = []
            for m_ in prog.modules.values():
                for x in ast.walk(m_.tree):
                    if isinstance(x, ast.Attribute) and x.attr == g.name and isinstance(x.ctx, ast.Load):
                        uses.append(find_func_for_node(prog, m_, x))
                    elif isinstance(x, ast.Name) and x.id == g.name and isinstance(x.ctx, ast.Load):
                        uses.append(find_func_for_node(prog, m_, x))
            if uses and all(u is not None and id(u) in covered for u in uses):
                covered.add(fid)
                grew = True
    others = [s_ for fid, s_ in storers.items() if fid not in covered]
    init_stores = id(init_f) in storers or any(fid in covered and fid not in (id(hs),) for fid in storers)
    if others:
        s0 = others[0]
        rep.fail('C08.R3', s0.module.path, s0.node.lineno, s0.func.qualname if s0.func else '<module>', 'humidity-store',
                 f'_humidity is stored outside the range-checking setter and the constructor: `{norm(parent(s0.node))[:60]}`')
    else:
        rep.ok('C08.R3', hs.where, '_humidity is stored only by the setter' + (', the constructor and their helpers' if init_stores else ''))
    st = State()
    obj = ev.new_inst(st, atmo_c, {'_initializing': Const(True), '_humidity': S('old')})
    try:
        tree, st = ev.run_func(hs, {hs.positional[0]: obj, hs.positional[1]: S('hv')}, st)
    except Undecided as exc:
        raise AnalysisError(f'humidity setter: {exc}') from exc
    problems = []
    hv = A.sym('hv')
    samples = {-0.5: 'raise', 0.0: 0.0, 0.5: 0.5, 1.0: 1.0, 50.0: 0.5, 100.0: 1.0, 100.5: 'raise'}
    from .c16 import reachable_leaves, value_at
    for x, want in samples.items():
        ls = reachable_leaves(tree, {'hv': x})
        for l in ls:
            if want == 'raise':
                if l.kind != 'raise':
                    problems.append(f'humidity {x} is accepted')
                else:
                    kept = value_at(l.state.heap[obj.oid].get('_humidity'), {'hv': x})
                    if not (isinstance(kept, Scalar) and kept.rf.equals(A.sym('old'))):
                        problems.append(f'humidity {x} is rejected only after it has been stored: the object keeps {kept!r} '
                                        f'when the error is caught')
            else:
                if l.kind == 'raise':
                    problems.append(f'humidity {x} is rejected')
                    continue
                v = value_at(l.state.heap[obj.oid].get('_humidity'), {'hv': x})
                try:
                    got = v.rf.evalf({'hv': x}) if isinstance(v, Scalar) else None
                except KeyError:
                    got = None
                if got is None or abs(got - want) > 1e-12:
                    problems.append(f'humidity {x} is stored as {got}, expected the fraction {want}')
    # the same cases through the constructor, which sets the field on its own or through the setter
    for x, want in samples.items():
        evh = Evaluator(prog, hooks=C.pref_hooks(prog), opaque={'calculate_air_density'})
        sth = State()
        qh = lambda d_, s_, u_: C.mk_quantity(evh, sth, prog, d_, s_, u_)
        try:
            b_ = evh.construct(atmo_c, [qh('Distance', 'a_raw', 'Foot'), qh('Pressure', 'p_raw', 'hPa'), qh('Temperature', 'tC', 'Celsius'),
                                        Scalar(Fraction(repr(x)))], {}, sth, ctx)
        except Undecided as exc:
            raise AnalysisError(f'Atmo(humidity={x}): {exc}') from exc
        outs = [o for _p, o in cond_leaves(b_)]
        for o in outs:
            if isinstance(o, Raised):
                if want != 'raise':
                    problems.append(f'Atmo(humidity={x}) is rejected')
                continue
            if not isinstance(o, Inst):
                raise AnalysisError(f'Atmo(humidity={x}) evaluates to {o!r}')
            if want == 'raise':
                problems.append(f'Atmo(humidity={x}) is accepted')
                continue
            v = sth.heap[o.oid].get('_humidity')
            got = float(v.rf.const_value()) if isinstance(v, Scalar) and v.rf.is_const() else None
            if got is None or abs(got - want) > 1e-12:
                problems.append(f'Atmo(humidity={x}) stores {got if got is not None else v!r}, expected the fraction {want}')
    if problems:
        rep.fail('C08.R3', cond.path, hs.node.lineno, hs.qualname, 'humidity-cases', '; '.join(sorted(set(problems))[:3]))
    else:
        rep.ok('C08.R3', hs.where, 'raises outside [0, 100]; percent above 1 stored as fraction; fraction stored as is')
    udr = prog.func(C.M_COND, 'Atmo.update_density_ratio')
    calls = [c for c in ast.walk(udr.node) if isinstance(c, ast.Call) and (dotted(c.func) or '').endswith('calculate_air_density')]
    if len(calls) == 1 and [norm(a) for a in calls[0].args] == ['self._t0', 'self._p0', 'self.humidity'] or \
            (len(calls) == 1 and [norm(a) for a in calls[0].args] == ['self._t0', 'self._p0', 'self._humidity']):
        rep.ok('C08.R3', udr.where, 'density routine receives (station temperature, station pressure, stored humidity fraction)')
    else:
        rep.fail('C08.R3', cond.path, udr.node.lineno, udr.qualname, 'density-args',
                 f'update_density_ratio calls {[norm(c)[:70] for c in calls]}')

    # ---- R4 ------------------------------------------------------------------------------------
    vac = prog.cls(C.M_COND, 'Vacuum')
    ev4 = Evaluator(prog, hooks=C.pref_hooks(prog), opaque={'calculate_air_density', 'standard_pressure',
                                                             'standard_temperature', 'machF'})
    st = State()
    try:
        v = ev4.construct(vac, [], {'altitude': C.mk_quantity(ev4, st, prog, 'Distance', 'alt', 'Foot'),
                                    'temperature': C.mk_quantity(ev4, st, prog, 'Temperature', 'tF', 'Fahrenheit')}, st, ctx)
    except Undecided as exc:
        raise AnalysisError(f'Vacuum.__init__: {exc}') from exc
    insts = [x for _p, x in cond_leaves(v) if isinstance(x, Inst)]
    if not insts:
        raise AnalysisError('Vacuum() cannot be constructed in the abstract evaluator')
    vobj = insts[0]
    dr = st.heap[vobj.oid].get('_density_ratio')
    zero = all(isinstance(x, Scalar) and x.rf.is_zero() for _p, x in cond_leaves(dr))
    if zero:
        rep.ok('C08.R4', f'{cond.path}:{vac.node.lineno}', 'Vacuum(): density ratio is 0 after construction')
    else:
        rep.fail('C08.R4', cond.path, vac.node.lineno, 'Vacuum.__init__', 'ratio-after-init',
                 f'a Vacuum has density ratio {dr!r} after construction')
    # every operation that recomputes the ratio on an Atmo leaves a Vacuum at 0
    stay = True
    ops = []
    for name, m in atmo_c.methods.items():
        if any(isinstance(n, ast.Attribute) and n.attr == '_density_ratio' and isinstance(n.ctx, ast.Store)
               for n in ast.walk(m.node)) and name != '__init__':
            ops.append(name)
    for name in ops + ['humidity.setter']:
        st2 = st.copy()
        try:
            if name == 'humidity.setter':
                st2.heap[vobj.oid]['_initializing'] = Const(False)
                ev4.call_func(hs, [Scalar(Fraction(1, 2))], {}, st2, ctx, self_val=vobj)
            else:
                m = prog.find_method(vac, name)
                ev4.call_func(m, [], {}, st2, ctx, self_val=vobj)
        except Undecided as exc:
            raise AnalysisError(f'Vacuum.{name}: {exc}') from exc
        d2 = st2.heap[vobj.oid].get('_density_ratio')
        if not all(isinstance(x, Scalar) and x.rf.is_zero() for _p, x in cond_leaves(d2)):
            stay = False
            rep.fail('C08.R4', cond.path, vac.node.lineno, f'Vacuum.{name}', f'recompute:{name}',
                     f'after {name} a Vacuum has density ratio {d2!r}: the drag comes back')
    if stay:
        rep.ok('C08.R4', f'{cond.path}:{vac.node.lineno}', f'density ratio stays 0 through {ops + ["humidity setter"]}')
    try:
        rv, st3 = ev4.call_value(prog.find_method(vac, 'get_density_factor_and_mach_for_altitude'), [S('h')], self_val=vobj, st=st.copy())
    except Undecided as exc:
        raise AnalysisError(f'Vacuum altitude query: {exc}') from exc
    dens = [l.items[0] for _p, l in cond_leaves(rv) if isinstance(l, Tup)]
    if dens and all(isinstance(d, Scalar) and d.rf.is_zero() for d in dens):
        rep.ok('C08.R4', gdf.where, f'altitude query in a Vacuum returns density 0 on all {len(dens)} paths')
    else:
        rep.fail('C08.R4', cond.path, gdf.node.lineno, gdf.qualname, 'vacuum-query',
                 f'the altitude query returns density {dens!r} in a Vacuum')


CON = 'py_ballisticcalc/conditions.py'
CST = 'py_ballisticcalc/constants.py'
VARIANTS = [
    Variant('altitude-query-memoised', 'break', [('py_ballisticcalc/conditions.py', '    def get_density_factor_and_mach_for_altitude(self, altitude: float) -> Tuple[float, float]:', '    @lru_cache(maxsize=512)\n    def get_density_factor_and_mach_for_altitude(self, altitude: float) -> Tuple[float, float]:'), ('py_ballisticcalc/conditions.py', 'import math\nimport warnings\n', 'import math\nimport warnings\nfrom functools import lru_cache\n')], 'C08.R5', 'seeded change C08/5 in spirit: not invalidated by the humidity setter'),
    Variant('vacuum-override-removed', 'break', [(CON, '    def update_density_ratio(self):\n        pass\n', '')], 'C08.R4', 'setting humidity on a Vacuum brings the air back', 'pass'),
    Variant('humidity-range-check-dropped', 'break', [(CON, '        if value < 0 or value > 100:\n            raise ValueError("Humidity must be between 0% and 100%.")\n', '')], 'C08.R3', '', 'pass'),
    Variant('percent-normalisation-dropped', 'break', [(CON, '        if value > 1:\n            value = value / 100.0  # Convert to percentage terms\n', '')], 'C08.R3', '', 'pass'),
    Variant('sound-imperial-perturbed', 'break', [(CST, 'cSpeedOfSoundImperial: Final[float] = 49.0223', 'cSpeedOfSoundImperial: Final[float] = 49.1223')], 'C08.R1', 'imperial twin alone'),
    Variant('molar-mass-perturbed', 'break', [(CON, 'M_a = 28.96546e-3', 'M_a = 28.86546e-3')], 'C08.R1'),
    Variant('shortcut-300ft', 'break', [(CON, 'if math.fabs(self._a0 - altitude) < 30:', 'if math.fabs(self._a0 - altitude) < 300:')], 'C08.R2', 'positive control', 'caught'),
    Variant('pressure-exponent', 'break', [(CST, 'cPressureExponent: Final[float] = 5.255876', 'cPressureExponent: Final[float] = 5.355876')], 'C08.R1', 'positive control', 'caught'),
    Variant('station-lapse-metric-per-foot', 'break', [(CON, 't = (altitude - self._a0) * cLapseRateKperFoot + self._t0', 't = (altitude - self._a0) * cLapseRateMetric + self._t0')], 'C08.R2', 'lapse per metre applied to feet'),
    Variant('density-delta-inverted-temperature', 'break', [(CON, 'density_delta = ((self._t0 + cDegreesCtoK) * p) / (self._p0 * t)', 'density_delta = (t * p) / (self._p0 * (self._t0 + cDegreesCtoK))')], 'C08.R2'),
    Variant('vacuum-density-epsilon', 'break', [(CON, '        self._density_ratio = 0\n', '        self._density_ratio = 1e-9\n')], 'C08.R4'),
    Variant('humidity-upper-bound-strict', 'break', [(CON, 'if value < 0 or value > 100:', 'if value < 0 or value >= 100:')], 'C08.R3', '100 % rejected'),
    Variant('standard-pressure-in-feet', 'break', [(CON, '* math.pow(1 + cLapseRateMetric * (altitude >> Distance.Meter) / (cStandardTemperatureC + cDegreesCtoK),', '* math.pow(1 + cLapseRateMetric * (altitude >> Distance.Foot) / (cStandardTemperatureC + cDegreesCtoK),')], 'C08.R2'),
    Variant('twin-constant-as-product', 'twin', [(CST, 'cLapseRateKperFoot: Final[float] = -0.0019812', 'cLapseRateKperFoot: Final[float] = -6.5e-03 * 0.3048')], None),
    Variant('twin-cipm-gamma', 'twin', [(CON, 'gamma = 5.6e-7', 'gamma = 5.7e-7')], None, 'C08 states no CIPM conformance', 'pass'),
]
