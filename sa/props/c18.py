"""C18 - Configuration is honoured, local to its calculator, and parsed faithfully."""
from __future__ import annotations

import ast
import re
from fractions import Fraction
from typing import Dict, List, Optional, Set, Tuple

from .. import algebra as A
from ..abseval import (Cond, Const, Ctx, EnumVal, Evaluator, Inst, Raised, Scalar, State, S, Undecided, cond_leaves,
                       leaves)
from ..cfg import CFG, Deps, reaching_definitions, uses_of
from ..check import Variant
from ..loader import AnalysisError, Func, Module, Program, ancestors, dotted, find_func_for_node, norm, parent
from ..spec.aliases import REFERENCE_ALIASES
from ..spec.slots import SLOT_DIMENSION
from . import common as C
from .c07 import _bool_context
from .flow import IntegrateFacts

ID = 'C18'
TECHNIQUE = ("def-use / reaching-definition flow of each Config field from the calculator's own tuple to its "
             'sink, who-may-read/write inventory of the global default step with a dominance check of the '
             'setter guard, abstract evaluation of the step size, and set/function checks over the unit-name '
             'and alias tables read from source against a reference alias list')
DECIDED = [
    "R1 each of the 7 settings is read through the calculator's own Config tuple and reaches its sink (step "
    '-> time step numerator, accuracy and iteration cap -> zero-finder loop, three limits -> termination '
    'guard, gravity -> y of the gravity vector); the solver module references no module-level default or '
    "global; the tuple is stored once, is immutable, is built fresh per calculator with the caller's "
    'overrides on top; documented defaults',
    'R2 the global default step is read only at calculator creation (and by its getter), written only by '
    'reset and by the setter, whose store is reached only when the value is > 0',
    'R3 the air path per step is kappa * max_step * s / max(1, s) with kappa <= 1',
    'R4 every enumeration name and every alias of the reference list, in any letter case, resolves to its own'
    ' unit through the resolver as read from source; the folded alias relation is a function; aliases survive'
    ' blank deletion and do not start like a number',
    'R5 an optional unit (Unit.Radian == 0) is never tested for truthiness',
    'R6 a unit-name string reaches getattr(PreferredUnits, s) only under a membership test in the slot table '
    'and becomes a Unit only through the resolver',
    'R1b create_interface_config evaluated on a symbolic caller dict: each of the 8 settings arrives in the '
    'Config exactly as given; it stores nothing into the dict it is given (effect analysis); R4 follows '
    'compiled module-level patterns',
    'R7 PreferredUnits.set evaluated (entries unrolled) on calls that mix a valid entry with a unit name the '
    'resolver rejects, a value of the wrong type or an unknown slot, before and after it: the valid entry is '
    'applied in every case',
]
NOT_DECIDED = [
    'that an override changes the computed numbers as intended (runtime); the air-path inequality as numbers '
    '(second-order growth of the air speed within one step is covered by the factor 1/kappa)',
]

SINKS = {
    'max_calc_step_size_feet': 'time step',
    'cZeroFindingAccuracy': 'zero finder accuracy test',
    'cMaxIterations': 'zero finder iteration cap',
    'cMinimumVelocity': 'termination guard',
    'cMaximumDrop': 'termination guard',
    'cMinimumAltitude': 'termination guard',
    'cGravityConstant': 'gravity vector',
}
UNUSED_BY_DESIGN = {'chart_resolution': 'documented as unused by the pure-Python solver'}
DEFAULTS = {'_globalMaxCalcStepSizeFeet': (0.5, 1e-12), 'cGravityConstant': (-9.80665 / 0.3048, 1e-7)}


def _config_loads(f: Func) -> Dict[str, List[ast.Attribute]]:
    """field -> loads of self._config.<field> in f."""
    out: Dict[str, List[ast.Attribute]] = {}
    for n in ast.walk(f.node):
        if isinstance(n, ast.Attribute) and isinstance(n.ctx, ast.Load) and norm(n.value) == 'self._config':
            out.setdefault(n.attr, []).append(n)
    return out


def _locals_from_config(f: Func) -> Dict[str, str]:
    """local name -> config field, for locals whose every assignment is `x = self._config.<field>`."""
    cand: Dict[str, Set[str]] = {}
    for n in ast.walk(f.node):
        if isinstance(n, ast.Assign) and len(n.targets) == 1 and isinstance(n.targets[0], ast.Name):
            v = n.value
            name = n.targets[0].id
            if isinstance(v, ast.Attribute) and norm(v.value) == 'self._config':
                cand.setdefault(name, set()).add(v.attr)
            elif isinstance(v, ast.Attribute) and isinstance(v.value, ast.Name) and v.value.id in config_aliases(f):
                cand.setdefault(name, set()).add(v.attr)
            else:
                cand.setdefault(name, set()).add('<other>')
        elif isinstance(n, (ast.AugAssign, ast.AnnAssign, ast.NamedExpr)) and isinstance(n.target, ast.Name):
            cand.setdefault(n.target.id, set()).add('<other>')
        elif isinstance(n, ast.For):
            for x in ast.walk(n.target):
                if isinstance(x, ast.Name):
                    cand.setdefault(x.id, set()).add('<other>')
    return {k: next(iter(v)) for k, v in cand.items() if len(v) == 1 and '<other>' not in v}


def config_aliases(f: Func) -> Set[str]:
    """locals whose every assignment is `x = self._config` (the whole settings tuple under another name)."""
    cand: Dict[str, Set[str]] = {}
    for n in ast.walk(f.node):
        tgt, val = None, None
        if isinstance(n, ast.Assign) and len(n.targets) == 1 and isinstance(n.targets[0], ast.Name):
            tgt, val = n.targets[0].id, n.value
        elif isinstance(n, ast.AnnAssign) and isinstance(n.target, ast.Name) and n.value is not None:
            tgt, val = n.target.id, n.value
        elif isinstance(n, (ast.AugAssign, ast.NamedExpr)) and isinstance(n.target, ast.Name):
            tgt, val = n.target.id, None
        if tgt is not None:
            cand.setdefault(tgt, set()).add('cfg' if val is not None and norm(val) == 'self._config' else '<other>')
    return {k for k, v in cand.items() if v == {'cfg'}}


def _fields_in(expr: ast.AST, f: Func, local_map: Dict[str, str]) -> Set[str]:
    out = set()
    aliases = config_aliases(f)
    for n in ast.walk(expr):
        if isinstance(n, ast.Attribute) and (norm(n.value) == 'self._config' or
                                             (isinstance(n.value, ast.Name) and n.value.id in aliases)):
            out.add(n.attr)
        elif isinstance(n, ast.Name) and n.id in local_map:
            out.add(local_map[n.id])
    return out


def check_settings(prog: Program, rep, rule: str) -> None:
    tc = prog.module(C.M_TC)
    tcc = prog.cls(C.M_TC, 'TrajectoryCalc')
    cfgc = prog.cls(C.M_TC, 'Config')
    if not prog.is_namedtuple(cfgc):
        rep.fail(rule, tc.path, cfgc.node.lineno, 'Config', 'immutable', 'Config is no longer a NamedTuple (immutable)')
    fields = prog.namedtuple_fields(cfgc)
    integ = prog.func(C.M_TC, 'TrajectoryCalc._integrate')
    zero = prog.func(C.M_TC, 'TrajectoryCalc.zero_angle')
    init = prog.func(C.M_TC, 'TrajectoryCalc.__init__')
    gcs = prog.func(C.M_TC, 'TrajectoryCalc.get_calc_step')
    it = prog.func(C.M_TC, 'TrajectoryCalc._init_trajectory')
    for f in (integ, zero, init, gcs, it):
        rep.saw(f)
    reached: Dict[str, str] = {}

    # limits -> termination guard of _integrate
    F = IntegrateFacts(prog)
    lm = _locals_from_config(integ)
    from .flow import LimitBlock
    LB = LimitBlock(F)
    # hoisted predicates: a name tested in the block stands for what its single definition in the block reads
    block_defs = {}
    for st_ in LB.stmts:
        if isinstance(st_, ast.Assign) and len(st_.targets) == 1 and isinstance(st_.targets[0], ast.Name):
            block_defs[st_.targets[0].id] = st_.value
    for t_ in LB.tests:
        ta = F.cfg.nodes[t_].ast
        exprs = [ta] + [block_defs[n.id] for n in ast.walk(ta) if isinstance(n, ast.Name) and n.id in block_defs]
        for e_ in exprs:
            for fld in _fields_in(e_, integ, lm):
                reached[fld] = f'termination test at line {F.cfg.nodes[t_].line}'
    # the same by evaluation: the settings whose value decides whether the block raises (any spelling: a helper that
    # returns the reason, an alias of the settings tuple, a table of limits)
    from .flow import eval_limit_block
    from ..abseval import leaves as _leaves
    lb_read = False
    try:
        tree_lb, _ev_lb, _st_lb = eval_limit_block(prog, F, LB)
        lb_read = not any(t__.kind == 'opaque' and 'debug' not in (t__.key or '') for pth, lf in _leaves(tree_lb)
                          if lf.kind == 'raise' for t__, _pol in pth)
        for pth, lf in _leaves(tree_lb):
            if lf.kind != 'raise':
                continue
            for t__, _pol in pth:
                if t__.rf is not None:
                    for sym_ in t__.rf.symbols():
                        if sym_.startswith('cfg.'):
                            reached.setdefault(sym_[4:], f'decides the termination (evaluated, line {F.cfg.nodes[next(iter(LB.tests))].line if LB.tests else F.loop.lineno})')
    except AnalysisError:
        pass
    # accuracy and iteration cap -> zero finder loop
    zl = _locals_from_config(zero)
    zloops = [n for n in ast.walk(zero.node) if isinstance(n, ast.While)]
    if len(zloops) != 1:
        raise AnalysisError('zero_angle: expected exactly one loop')
    for fld in _fields_in(zloops[0].test, zero, zl):
        reached[fld] = f'zero finder loop test at line {zloops[0].lineno}'
    # a test inside or after the loop does as well (counted loop with an early return on convergence)
    for n_ in ast.walk(zero.node):
        if isinstance(n_, ast.If) and n_.lineno >= zloops[0].lineno:
            for fld in _fields_in(n_.test, zero, zl):
                reached.setdefault(fld, f'zero finder test at line {n_.lineno}')
    # gravity -> y of gravity vector
    ev = Evaluator(prog)
    st = State()
    cfg_inst = ev.new_inst(st, cfgc, {f: S(f'cfg.{f}') for f in fields})
    try:
        obj = ev.construct(tcc, [cfg_inst], {}, st, Ctx(tc, None, None, 0))
    except Undecided as exc:
        raise AnalysisError(f'TrajectoryCalc.__init__: {exc}') from exc
    gv = st.heap[obj.oid].get('gravity_vector') if isinstance(obj, Inst) else None
    if isinstance(gv, Inst):
        comp = st.heap[gv.oid]
        gx, gy, gz = comp.get('x'), comp.get('y'), comp.get('z')
        if isinstance(gy, Scalar) and gy.rf.equals(A.sym('cfg.cGravityConstant')) and isinstance(gx, Scalar) \
                and gx.rf.is_zero() and isinstance(gz, Scalar) and gz.rf.is_zero():
            reached['cGravityConstant'] = 'gravity_vector = (0, g, 0)'
        else:
            rep.fail(rule, tc.path, init.node.lineno, init.qualname, 'gravity_vector',
                     f'gravity vector is ({gx!r}, {gy!r}, {gz!r}), expected (0, cfg.cGravityConstant, 0)')
    stored_cfg = st.heap[obj.oid].get('_config') if isinstance(obj, Inst) else None
    if stored_cfg is not cfg_inst:
        rep.fail(rule, tc.path, init.node.lineno, init.qualname, '_config', 'the calculator does not keep the tuple it was given')
    # gravity_vector / calc_step stores
    for attr, allowed in (('gravity_vector', {init.qualname}), ('_config', {init.qualname}),
                          ('calc_step', {it.qualname})):
        for s in C.iter_attr_stores(prog):
            if s.attr == attr and s.module is tc and s.func is not None and s.func.cls is tcc \
                    and s.func.qualname not in allowed:
                rep.fail(rule, tc.path, s.node.lineno, s.func.qualname, f'store:{attr}',
                         f'self.{attr} is also written in {s.func.qualname}: the setting fixed at creation can drift')
    # step -> calc_step -> tau
    st = State()
    selfv = ev.new_inst(st, tcc, {'_config': ev.new_inst(st, cfgc, {f: S(f'cfg.{f}') for f in fields})})
    try:
        step, _ = ev.call_value(gcs, [], self_val=selfv, st=st)
    except Undecided as exc:
        raise AnalysisError(f'get_calc_step: {exc}') from exc
    kappa = None
    if isinstance(step, Scalar):
        kappa = A.ratio_const(step.rf, A.sym('cfg.max_calc_step_size_feet'))
    cs_stores = [s for s in C.iter_attr_stores(prog) if s.attr == 'calc_step' and s.func is it]
    cs_ok = cs_stores and all(isinstance(parent(s.node), ast.Assign)
                              and norm(parent(s.node).value).startswith('self.get_calc_step(')
                              and not parent(s.node).value.args and not parent(s.node).value.keywords
                              for s in cs_stores)
    # the time step in the loop
    tau_def = F.time_step_def()
    if tau_def is None:
        raise AnalysisError('_integrate: the time step (variable added to the time) has no single definition')
    def reads_calc_step(e: ast.AST, at: ast.AST, depth: int = 0) -> bool:
        for x in ast.walk(e):
            if isinstance(x, ast.Attribute) and norm(x) == 'self.calc_step':
                return True
            if isinstance(x, ast.Name) and depth < 3:
                ds = F.defs_reaching(at, x.id)
                if len(ds) == 1 and isinstance(ds[0].ast, (ast.Assign, ast.AnnAssign)) and ds[0].ast.value is not None \
                        and ds[0].ast is not at and reads_calc_step(ds[0].ast.value, ds[0].ast, depth + 1):
                    return True
        return False
    uses_step = reads_calc_step(tau_def.value, tau_def)
    if kappa is not None and kappa > 0 and cs_ok and uses_step:
        reached['max_calc_step_size_feet'] = f'calc_step = {kappa:g} * max step -> `{norm(tau_def)[:60]}`'
    else:
        rep.fail(rule, tc.path, tau_def.lineno, integ.qualname, 'step-flow',
                 f'the configured step does not reach the time step: get_calc_step() = {step!r}, '
                 f'calc_step stored from get_calc_step(): {bool(cs_ok)}, time step reads self.calc_step: {uses_step}')
    # verdict per field
    for fld in fields:
        if fld in UNUSED_BY_DESIGN:
            rep.ok(rule, f'{tc.path}:{cfgc.node.lineno}', f'{fld}: {UNUSED_BY_DESIGN[fld]} (named exemption)')
            continue
        if fld not in SINKS:
            rep.undecided(rule, f'{tc.path}:{cfgc.node.lineno}', f'setting {fld}', 'not named by the statement')
            continue
        if fld in reached:
            rep.ok(rule, f'{tc.path}:{cfgc.node.lineno}', f'{fld} -> {reached[fld]}')
        elif fld in ('cMinimumVelocity', 'cMaximumDrop', 'cMinimumAltitude') and not lb_read:
            raise AnalysisError(f'setting {fld}: the termination block cannot be read, so whether the setting decides it is unknown')
        else:
            rep.fail(rule, tc.path, cfgc.node.lineno, 'TrajectoryCalc', f'setting:{fld}',
                     f'setting {fld} given to the calculator does not reach its role ({SINKS[fld]}): the solver uses '
                     f'something else there')
    # no module-level default / global referenced in the solver module
    tci = prog.module(C.M_TCI)
    forbidden = {n for n in tci.assigns if n.startswith('c') or n.startswith('_global')}
    hits = []
    for n in ast.walk(tc.tree):
        if isinstance(n, ast.Name) and n.id in forbidden:
            hits.append(n)
        elif isinstance(n, ast.Attribute) and n.attr in forbidden and isinstance(n.value, ast.Name):
            # only a module object can hand out a module-level default: locals, parameters and classes cannot
            r_ = tc.imports.get(n.value.id)
            if r_ is not None and r_[1] is None:
                hits.append(n)
            elif r_ is not None and (f'{r_[0]}.{r_[1]}' in prog.modules):
                hits.append(n)
        elif isinstance(n, ast.ImportFrom) and n.module and n.module.endswith('trajectory_calc') \
                and any(a.name in forbidden for a in n.names):
            hits.append(n)
    # fields of Config declared in the class body are annotations, not references
    hits = [h for h in hits if not isinstance(parent(h), ast.AnnAssign) or parent(h).target is not h]
    if hits:
        h = hits[0]
        f = find_func_for_node(prog, tc, h)
        rep.fail(rule, tc.path, h.lineno, f.qualname if f else '<module>', f'global:{norm(h)}',
                 f'the solver references the module-level default `{norm(h)}` instead of its own Config')
    else:
        rep.ok(rule, f'{tc.path}:1', 'the solver module references no module-level default or global setting')
    # create_interface_config
    ifc = prog.module(C.M_IFC)
    cic = prog.func(C.M_IFC, 'create_interface_config')
    rep.saw(cic)
    problems = []
    call0 = None
    for n in ast.walk(cic.node):
        if isinstance(n, ast.Assign) and isinstance(n.value, ast.Call) and isinstance(n.value.func, ast.Name) \
                and n.value.func.id in ('InterfaceConfigDict', 'dict') and n.value.keywords:
            call0 = n
    if call0 is None:
        problems.append('the defaults mapping is no longer built by a fresh call inside the function')
    else:
        given = {k.arg: norm(k.value) for k in call0.value.keywords}
        for fld in fields:
            if fld not in given:
                problems.append(f'default for {fld} missing')
        want_src = {'max_calc_step_size_feet': '_globalMaxCalcStepSizeFeet', 'cGravityConstant': 'cGravityConstant',
                    'cZeroFindingAccuracy': 'cZeroFindingAccuracy', 'cMinimumVelocity': 'cMinimumVelocity',
                    'cMaximumDrop': 'cMaximumDrop', 'cMaxIterations': 'cMaxIterations',
                    'cMinimumAltitude': 'cMinimumAltitude'}
        for fld, src in want_src.items():
            if fld in given and not given[fld].endswith('.' + src) and given[fld] != src:
                problems.append(f'default of {fld} is taken from `{given[fld]}`, expected the module default `{src}`')
    muts = [d for d in cic.node.args.defaults + cic.node.args.kw_defaults
            if isinstance(d, (ast.Dict, ast.List, ast.Set, ast.Call))]
    if muts:
        problems.append('mutable default argument')
    upd = [n for n in ast.walk(cic.node) if isinstance(n, ast.Call) and isinstance(n.func, ast.Attribute)
           and n.func.attr == 'update']
    if not upd or not all(isinstance(u.func.value, ast.Name) and call0 is not None
                          and u.func.value.id == call0.targets[0].id and len(u.args) == 1
                          and isinstance(u.args[0], ast.Name) and u.args[0].id == cic.params[0] for u in upd):
        problems.append('the caller\'s overrides are not laid over the fresh defaults (config.update(interface_config))')
    rets = [n for n in ast.walk(cic.node) if isinstance(n, ast.Return)]
    if not rets or not all(isinstance(r.value, ast.Call) and norm(r.value.func) == 'Config' for r in rets):
        problems.append('does not return a Config(...)')
    for n in ast.walk(cic.node):
        if isinstance(n, ast.Global):
            problems.append('writes a global')
    # anti-patterns that couple calculators, whatever the shape: a store into module-level state
    from ..effects import Effects
    eng_ = Effects(prog)
    shared = [e for (o, fld), e in eng_.summaries[cic.fq].effects.items() if o[0] == 'global' and fld != '_defined_units']
    hard = [p_ for p_ in problems if 'mutable default' in p_ or 'writes a global' in p_ or 'is taken from' in p_]
    if shared:
        hard.append(f'stores into module-level `{shared[0].origin[2]}` ({shared[0].text[:50]}): the settings of one '
                    f'calculator leak into the next')
    into_arg = [e for (o, fld), e in eng_.summaries[cic.fq].effects.items() if o[0] == 'param' and fld != '_defined_units']
    if into_arg:
        hard.append(f'writes into the caller\'s dict (`{into_arg[0].text[:50]}`): the defaults current at that moment - the '
                    f'global step among them - are frozen into a dict the caller may reuse for a later calculator')
    # whatever the shape: every setting the caller gives arrives in the Config as given (evaluated, not matched)
    from ..abseval import DictVal, Evaluator as _Ev, Inst as _Inst, Scalar as _Sc, S as _S, State as _St, Undecided as _Und, cond_leaves as _cl
    try:
        ev_ = _Ev(prog, hooks=C.pref_hooks(prog))
        st_ = _St()
        user = DictVal({('c', f): _S(f'user.{f}') for f in fields})
        r_, st_ = ev_.call_value(cic, [user], st=st_)
        for _pth, leaf_ in _cl(r_):
            if not isinstance(leaf_, _Inst):
                raise _Und(f'returns {leaf_!r}')
            got_ = st_.heap[leaf_.oid]
            for f in fields:
                v_ = got_.get(f)
                if not (isinstance(v_, _Sc) and v_.rf.equals(A.sym(f'user.{f}'))):
                    hard.append(f'the setting {f} given by the caller reaches the solver as {v_!r}, not as given: plain numbers '
                                f'in this dict are feet / feet per second by definition')
                    break
        if not any('reaches the solver' in h_ for h_ in hard):
            rep.ok(rule, cic.where, f'all {len(fields)} settings given by the caller arrive in the Config unchanged (evaluated)')
    except _Und as exc_:
        rep.undecided(rule, cic.where, 'settings honoured', f'create_interface_config not readable by engine D: {exc_}')
    if hard:
        rep.fail(rule, ifc.path, cic.node.lineno, cic.qualname, 'create_interface_config', '; '.join(hard))
    elif problems:
        rep.undecided(rule, cic.where, 'create_interface_config', 'shape not recognised: ' + '; '.join(problems)[:200])
    else:
        rep.ok(rule, cic.where, 'fresh defaults per call, caller overrides on top, returns Config(**config)')
    calc_cls0 = prog.cls(C.M_IF, 'Calculator')
    ctor_names = [n for n in ('__post_init__', '__init__') if n in calc_cls0.methods]
    late = []
    for mname, m in list(calc_cls0.methods.items()) + list(calc_cls0.setters.items()):
        if mname in ('__post_init__', '__init__'):
            continue
        for c in ast.walk(m.node):
            if isinstance(c, ast.Call) and norm(c.func) in ('create_interface_config', 'TrajectoryCalc'):
                late.append((m, c))
    if late:
        m, c = late[0]
        rep.fail(rule, prog.module(C.M_IF).path, c.lineno, m.qualname, 'config-not-at-creation',
                 f'{m.qualname} builds the settings / the solver (`{norm(c)[:50]}`) after the Calculator was created: the '
                 f'global default step and the caller\'s dict are read at first use, not at creation')
    if not ctor_names:
        if not late:
            raise AnalysisError('Calculator has neither __post_init__ nor __init__ and builds its solver nowhere')
        return
    calc_pi = prog.func(C.M_IF, f'Calculator.{ctor_names[0]}')
    rep.saw(calc_pi)
    txt = [norm(n) for n in ast.walk(calc_pi.node) if isinstance(n, ast.Assign)]
    cic_calls = [c for c in ast.walk(calc_pi.node) if isinstance(c, ast.Call) and norm(c.func) == 'create_interface_config']
    tcalls = [c for c in ast.walk(calc_pi.node) if isinstance(c, ast.Call) and norm(c.func) == 'TrajectoryCalc']
    own = False
    if len(cic_calls) == 1 and len(tcalls) == 1 and [norm(a) for a in cic_calls[0].args] == ['self._config']:
        arg = tcalls[0].args[0] if tcalls[0].args else (tcalls[0].keywords[0].value if tcalls[0].keywords else None)
        direct = arg is cic_calls[0]
        via_local = isinstance(arg, ast.Name) and any(
            isinstance(n, ast.Assign) and isinstance(n.targets[0], ast.Name) and n.targets[0].id == arg.id
            and n.value is cic_calls[0] for n in ast.walk(calc_pi.node))
        p_ = parent(tcalls[0])
        stored = isinstance(p_, ast.Assign) and norm(p_.targets[0]) == 'self._calc'
        own = (direct or via_local) and stored
    if not own:
        # the same by evaluation: any spelling (annotated local, helper) of "my settings -> my Config -> my solver"
        from ..abseval import Evaluator as _Ev2, State as _St2, SymObj as _Sy2, Undecided as _Un2, Inst as _In2
        seen_ = {'cfg_arg': None, 'solver_arg': None}

        def h_cic(ev_, func, args, kwargs, st_, self_val):
            seen_['cfg_arg'] = args[0] if args else None
            return _Sy2('config_of_this_calculator')

        def h_tc(ev_, ci, args, kwargs, st_):
            seen_['solver_arg'] = args[0] if args else next(iter(kwargs.values()), None)
            return ev_.new_inst(st_, ci, {'$built_here': _Sy2('yes')})
        try:
            ev2 = _Ev2(prog, hooks={'call:create_interface_config': h_cic, 'construct:TrajectoryCalc': h_tc})
            st2 = _St2()
            me_ = ev2.new_inst(st2, calc_cls0, {'_config': _Sy2('settings_given')})
            ev2.call_value(calc_pi, [], self_val=me_, st=st2)
            built = st2.heap[me_.oid].get('_calc')
            own = isinstance(seen_['cfg_arg'], _Sy2) and seen_['cfg_arg'].path == 'settings_given' \
                and isinstance(seen_['solver_arg'], _Sy2) and seen_['solver_arg'].path == 'config_of_this_calculator' \
                and isinstance(built, _In2) and '$built_here' in st2.heap[built.oid]
        except _Un2 as exc_:
            raise AnalysisError(f'{calc_pi.qualname}: {exc_}') from exc_
    if own:
        rep.ok(rule, calc_pi.where, 'each Calculator builds its own TrajectoryCalc from its own settings')
    else:
        rep.fail(rule, prog.module(C.M_IF).path, calc_pi.node.lineno, calc_pi.qualname, 'own-calc',
                 f'Calculator.__post_init__ no longer builds its own solver from its own settings: {txt}')
    # a shared solver or config at class level would couple calculators
    calc_cls = prog.cls(C.M_IF, 'Calculator')
    for name, (ann, val) in calc_cls.attrs.items():
        if val is not None and isinstance(val, ast.Call) and norm(val.func) in ('TrajectoryCalc', 'create_interface_config'):
            rep.fail(rule, prog.module(C.M_IF).path, calc_cls.node.lineno, 'Calculator', f'class-level:{name}',
                     f'class-level `{name} = {norm(val)[:50]}` is shared by all calculators')
    # documented defaults
    for name, (want, tol) in DEFAULTS.items():
        v = C.const_number(prog, tci, name)
        if v is None:
            raise AnalysisError(f'default {name} is not a literal')
        if abs(v - want) <= tol * max(1.0, abs(want)):
            rep.ok(rule, f'{tci.path}:1', f'default {name} = {v}')
        else:
            rep.fail(rule, tci.path, tci.assigns[name][-1][2].lineno, '<module>', f'default:{name}',
                     f'default {name} = {v}, documented {want:.7g}')


def check_global_step(prog: Program, rep, rule: str) -> None:
    tci = prog.module(C.M_TCI)
    G = '_globalMaxCalcStepSizeFeet'
    readers, writers = [], []
    for mod in prog.modules.values():
        for n in ast.walk(mod.tree):
            hit = (isinstance(n, ast.Name) and n.id == G) or (isinstance(n, ast.Attribute) and n.attr == G)
            if not hit:
                continue
            f = find_func_for_node(prog, mod, n)
            if isinstance(n.ctx, ast.Store):
                writers.append((mod, f, n))
            elif isinstance(n.ctx, ast.Load):
                readers.append((mod, f, n))
        for n in ast.walk(mod.tree):
            if isinstance(n, ast.Call) and (dotted(n.func) or '') in ('setattr', 'globals', 'vars') \
                    and any(isinstance(a, ast.Constant) and a.value == G for a in ast.walk(n)):
                writers.append((mod, find_func_for_node(prog, mod, n), n))
    # a read through getattr(module, name) with the name taken from a literal table of the package
    for mod in prog.modules.values():
        for cname, entries in mod.assigns.items():
            for e_ in entries:
                if e_[1] is None or not any(isinstance(x, ast.Constant) and x.value == G for x in ast.walk(e_[1])):
                    continue
                for f in mod.funcs.values():
                    uses_table = any(isinstance(x, ast.Name) and x.id == cname and isinstance(x.ctx, ast.Load) for x in ast.walk(f.node))
                    ga = [c for c in ast.walk(f.node) if isinstance(c, ast.Call) and (dotted(c.func) or '') == 'getattr']
                    if uses_table and ga:
                        readers.append((mod, f, ga[0]))
    ok_readers = {'get_global_max_calc_step_size', 'create_interface_config'}
    for mod, f, n in readers:
        fq = f.qualname if f else '<module>'
        if mod is not tci and isinstance(n, ast.Name) and n.id == G:
            rep.fail(rule, mod.path, n.lineno, fq, f'frozen:{fq}',
                     f'{fq} reads `{G}` through a name imported with `from ... import`: that is a copy made when the module '
                     f'was imported, so the global default-step setter never reaches calculators created afterwards')
            continue
        if fq in ok_readers:
            rep.ok(rule, mod.where(n), f'{fq} reads the global default step (creation time / getter)')
        else:
            rep.fail(rule, mod.path, n.lineno, fq, f'read:{fq}',
                     f'{fq} reads the global default step: a calculator created earlier would follow later changes')
    setter = prog.func(C.M_TCI, 'set_global_max_calc_step_size')
    rep.saw(setter)
    for mod, f, n in writers:
        fq = f.qualname if f else '<module>'
        if f is not None and isinstance(n, ast.Name):
            declared = {nm for g_ in ast.walk(f.node) if isinstance(g_, ast.Global) for nm in g_.names}
            if G not in declared:
                rep.fail(rule, mod.path, n.lineno, fq, f'local-binding:{fq}',
                         f'{fq} assigns `{G}` without declaring it `global`: the assignment binds a local and the module-level '
                         f'default step keeps its old value (a calculator created after {fq}() still takes the earlier step)')
                continue
        if f is None and mod is tci and isinstance(parent(n), (ast.Assign, ast.AnnAssign)):
            rep.ok(rule, mod.where(n), 'module-level initialisation of the global default step')
        elif fq == 'reset_globals':
            p = parent(n)
            v = p.value if isinstance(p, ast.Assign) else None
            init_v = C.const_number(prog, tci, G)
            if v is not None and not isinstance(v, ast.Constant):
                folded = C.fold_number(prog, tci, v) if hasattr(C, 'fold_number') else None
                if folded is not None:
                    v = ast.Constant(value=float(folded))
            if isinstance(v, ast.Constant) and init_v is not None and float(v.value) == init_v:
                rep.ok(rule, mod.where(n), f'reset_globals restores the documented default {init_v}')
            else:
                rep.fail(rule, mod.path, n.lineno, fq, 'reset', f'reset_globals sets `{norm(p)[:50]}`, not the default')
        elif f is setter:
            pass
        else:
            rep.fail(rule, mod.path, n.lineno, fq, f'write:{fq}', f'{fq} writes the global default step')
    # setter: evaluate; every path that stores has value > 0, every path with value <= 0 raises
    ev = Evaluator(prog, hooks=C.pref_hooks(prog))
    st = State()
    q = C.mk_quantity(ev, st, prog, 'Distance', 'x', 'Foot')
    try:
        tree, st = ev.run_func(setter, {setter.params[0]: q}, st)
    except Undecided as exc:
        raise AnalysisError(f'set_global_max_calc_step_size: {exc}') from exc
    problems = []
    stored_any = False
    x = A.sym('x')
    for path, leaf in leaves(tree):
        stores = G in leaf.state.env
        nonpos = None
        for t, pol in path:
            if t.kind == 'nonneg' and t.rf.equals(-x):
                nonpos = pol
            elif t.kind == 'pos' and t.rf.equals(x):
                nonpos = not pol
        if leaf.kind == 'raise':
            continue
        if stores:
            stored_any = True
            if nonpos is not False:
                problems.append('the global is stored on a path where the value is not known to be > 0')
            else:
                val = leaf.state.env[G]
                if not (isinstance(val, Scalar) and A.ratio_const(val.rf, x) is not None):
                    problems.append(f'stores {val!r}, not the value in feet')
        if nonpos is True and leaf.kind != 'raise':
            problems.append('a non-positive value does not raise')
    if not stored_any:
        problems.append('no path stores the global')
    if problems:
        rep.fail(rule, tci.path, setter.node.lineno, setter.qualname, 'setter-guard',
                 'global step setter: ' + '; '.join(sorted(set(problems))))
    else:
        rep.ok(rule, setter.where, 'setter stores only when value > 0 and raises otherwise')


def check_step_bound(prog: Program, rep, rule: str) -> None:
    F = IntegrateFacts(prog)
    tcc = prog.cls(C.M_TC, 'TrajectoryCalc')
    tc = F.mod
    # tau definition
    tau_def = F.time_step_def()
    if tau_def is None:
        raise AnalysisError('time step definition not found')
    # names used in tau: the air-relative speed is whatever name it reads besides self.calc_step
    ev = Evaluator(prog)
    st = State()
    selfv = ev.new_inst(st, tcc, {'calc_step': S('calc_step')})
    env = {'self': selfv}
    speed_names = [x.id for x in ast.walk(tau_def.value) if isinstance(x, ast.Name) and x.id not in ('self', 'max', 'min',
                                                                                                      'math', 'abs')]
    for nme in speed_names:
        env[nme] = S('s')
    # the speed read must be the air-relative speed |V - W| of this step: the loop body is evaluated up to the statement
    # that defines the time step, and what the speed name holds there is compared with the magnitude of V - W
    from .c01 import loop_iteration
    from .flow import DENSITY_CALL
    from ..abseval import Tup, leaves as _leaves
    air_ok = True
    ev_s = Evaluator(prog, hooks={'symcall': lambda ev_, fv, args, kwargs, st_: (Tup([S('rho'), S('a')])
                                                                              if fv.path.endswith('.' + DENSITY_CALL) else None),
                                  'call:_calculate_by_curve_and_mach_list': lambda ev_, func, args, kwargs, st_, sv: S('Cd'),
                                  **C.no_wrap_hooks()},
                      opaque={'create_trajectory_row', 'spin_drift'})
    ctx_s = Ctx(tc, F.func, None, 0)
    _st_s, _self_s, tree_s, wname = loop_iteration(prog, F, ev_s, ctx_s, stop_before=tau_def)
    n_speed = 0
    for _path, lf in _leaves(tree_s):
        if lf.kind != 'fall':
            continue
        for nme in set(speed_names):
            got_s = lf.state.env.get(nme)
            try:
                want_s = ev_s.eval_text(f'({F.V} - {wname}).magnitude()', dict(lf.state.env), tc, lf.state)
            except Undecided as exc:
                raise AnalysisError(f'air-relative speed: {exc}') from exc
            n_speed += 1
            if not (isinstance(got_s, Scalar) and isinstance(want_s, Scalar) and got_s.rf.equals(want_s.rf)):
                air_ok = False
    if n_speed == 0:
        raise AnalysisError('time step: no path reaches its definition in the abstract evaluation')
    try:
        tau = ev.eval(tau_def.value, State(env, st.heap), Ctx(tc, F.func, None, 0))
    except Undecided as exc:
        raise AnalysisError(f'time step: {exc}') from exc
    gcs = prog.func(C.M_TC, 'TrajectoryCalc.get_calc_step')
    st2 = State()
    cfgc = prog.cls(C.M_TC, 'Config')
    self2 = ev.new_inst(st2, tcc, {'_config': ev.new_inst(st2, cfgc, {f: S(f'cfg.{f}') for f in prog.namedtuple_fields(cfgc)})})
    step, _ = ev.call_value(gcs, [], self_val=self2, st=st2)
    kappa = A.ratio_const(step.rf, A.sym('cfg.max_calc_step_size_feet')) if isinstance(step, Scalar) else None
    if not isinstance(tau, Scalar) or kappa is None:
        rep.undecided(rule, tc.where(tau_def), 'air path per step', f'time step {tau!r} / calc step {step!r} not in the '
                      f'decidable form')
        return
    s = A.sym('s')
    mx = A.fn('max', 1, s)
    path = tau.rf * s
    # monomial c * calc_step * s^p * max(1,s)^q ?
    verdict = None
    if path.den == A.ONE and path.num.single_term() is not None:
        mono, c = path.num.single_term()
        exps = {A.ATOMS[aid].id: e for aid, e in mono}
        names = {repr(A.ATOMS[aid]): e for aid, e in mono}
        p = names.pop('s', Fraction(0))
        q = names.pop(repr(mx.as_atom()), Fraction(0)) if mx.as_atom() is not None else Fraction(0)
        cs = names.pop('calc_step', Fraction(0))
        if not names and cs == 1:
            bound = float(c) * kappa
            if p >= 0 and p + q <= 0 and bound <= 1.0 + 1e-12:
                verdict = (True, f'air path per step = {float(c):g} * {kappa:g} * max_step * s^{p} * max(1,s)^{q} <= max_step')
            else:
                verdict = (False, f'air path per step = {float(c) * kappa:g} * max_step * s^{p} * max(1,s)^{q}: '
                                  f'not bounded by the configured maximum step')
    if verdict is None:
        rep.undecided(rule, tc.where(tau_def), 'air path per step', f'tau * s = {path!r}: form not decidable')
    elif verdict[0] and air_ok:
        rep.ok(rule, tc.where(tau_def), verdict[1])
    elif verdict[0]:
        rep.fail(rule, tc.path, tau_def.lineno, F.func.qualname, 'step-bound-speed',
                 'the time step is normalised by a speed that is not the air-relative speed |V - W| of this step')
    else:
        rep.fail(rule, tc.path, tau_def.lineno, F.func.qualname, 'step-bound', verdict[1])
    rep.assume('second-order growth of the air speed within one step is covered by the factor 1/kappa = 2')


# ---- R4: names and aliases ----------------------------------------------------------------------

def _read_alias_table(prog: Program) -> List[Tuple[Tuple[str, ...], str, int]]:
    umod = prog.module(C.M_UNIT)
    ent = umod.assigns.get('UnitAliases')
    if not ent or not isinstance(ent[-1][1], ast.Dict):
        raise AnalysisError('UnitAliases is not a literal dict any more')
    out = []
    for k, v in zip(ent[-1][1].keys, ent[-1][1].values):
        u = C.unit_of_expr(prog, umod, v)
        if u is None:
            raise AnalysisError(f'UnitAliases value {norm(v)} is not a unit')
        if isinstance(k, ast.Tuple):
            names = []
            for e in k.elts:
                if not (isinstance(e, ast.Constant) and isinstance(e.value, str)):
                    raise AnalysisError('UnitAliases key element is not a string literal')
                names.append(e.value)
        elif isinstance(k, ast.Constant) and isinstance(k.value, str):
            names = [k.value]
        else:
            raise AnalysisError('UnitAliases key is not a tuple of strings')
        out.append((tuple(names), u, k.lineno))
    return out


def _resolver_shape(prog: Program, rep) -> Dict[str, bool]:
    """Read from the code how a string is normalised before look-up."""
    pu = prog.func(C.M_UNIT, '_parse_unit')
    fa = prog.func(C.M_UNIT, '_find_unit_by_alias')
    pv = prog.func(C.M_UNIT, '_parse_value')
    for f in (pu, fa, pv):
        rep.saw(f)
    txt = norm(pu.node)
    shape = {
        'strip': '.strip()' in txt,
        'lower': '.lower()' in txt,
        'alias_lower': any(isinstance(n, ast.Call) and isinstance(n.func, ast.Attribute) and n.func.attr == 'lower'
                           for n in ast.walk(fa.node)),
        'enum_by_name': any(isinstance(n, ast.Subscript) and norm(n.value) == 'Unit' for n in ast.walk(pu.node)),
        'alias_fallback': any(isinstance(n, ast.Call) and norm(n.func) == '_find_unit_by_alias' for n in ast.walk(pu.node)),
        'blank_delete': any(isinstance(n, ast.Call) and isinstance(n.func, ast.Attribute) and n.func.attr == 'replace'
                            and len(n.args) == 2 and isinstance(n.args[0], ast.Constant) and n.args[0].value == ' '
                            and isinstance(n.args[1], ast.Constant) and n.args[1].value == '' for n in ast.walk(pv.node)),
        'first_match': any(isinstance(n, ast.For) for n in ast.walk(fa.node)),
    }
    return shape


def _str_pipeline(f: Func, start: str, result: Optional[str] = None):
    """The chain of string operations the function applies to parameter ``start`` before look-up, as a Python
    callable.  Recognised: strip/lstrip/rstrip/lower/upper/casefold/title/replace with literal arguments,
    unicodedata.normalize(form, x), str(x).  Anything else applied to the string is an AnalysisError (the resolver
    cannot be emulated)."""
    import unicodedata
    steps = []

    def compile_expr(e, names):
        if isinstance(e, ast.Name) and e.id in names:
            return lambda env: env[e.id]
        if isinstance(e, ast.Call) and isinstance(e.func, ast.Attribute) and e.func.attr in (
                'strip', 'lstrip', 'rstrip', 'lower', 'upper', 'casefold', 'title', 'replace') \
                and all(isinstance(a, ast.Constant) for a in e.args) and not e.keywords:
            inner = compile_expr(e.func.value, names)
            if inner is None:
                return None
            meth, args = e.func.attr, [a.value for a in e.args]
            return lambda env: getattr(inner(env), meth)(*args)
        if isinstance(e, ast.Call) and (dotted(e.func) or '') == 'unicodedata.normalize' and len(e.args) == 2 \
                and isinstance(e.args[0], ast.Constant):
            inner = compile_expr(e.args[1], names)
            form = e.args[0].value
            return None if inner is None else (lambda env: unicodedata.normalize(form, inner(env)))
        if isinstance(e, ast.Call) and isinstance(e.func, ast.Name) and e.func.id == 'str' and len(e.args) == 1:
            return compile_expr(e.args[0], names)
        return None
    names = {start}
    for st_ in ast.walk(f.node):
        if isinstance(st_, ast.Assign) and len(st_.targets) == 1 and isinstance(st_.targets[0], ast.Name):
            tgt = st_.targets[0].id
            uses = {n.id for n in ast.walk(st_.value) if isinstance(n, ast.Name)}
            if uses & names and (tgt in names or tgt == result):
                fn_ = compile_expr(st_.value, names)
                if fn_ is None:
                    raise AnalysisError(f'{f.qualname}: the string transformation `{norm(st_.value)[:70]}` is outside what the '
                                        f'resolver emulation understands')
                steps.append((st_.lineno, tgt, fn_))
                names.add(tgt)
    steps.sort(key=lambda x: x[0])

    def run(text: str) -> str:
        env = {start: text}
        for _ln, tgt, fn_ in steps:
            env[tgt] = fn_(env)
        return env[result or start]
    return run, len(steps)


def check_aliases(prog: Program, rep, rule: str) -> None:
    umod = prog.module(C.M_UNIT)
    table = _read_alias_table(prog)
    members = C.unit_members(prog)
    shape = _resolver_shape(prog, rep)
    need = ('strip', 'lower', 'alias_lower', 'alias_fallback', 'first_match')
    if not all(shape[k] for k in need):
        raise AnalysisError(f'the unit-name resolver changed shape, cannot emulate it: {shape}')
    slots = set(C.pref_slots(prog))
    # numeric-prefix regex of _parse_value: first characters a number can start with
    pv = prog.func(C.M_UNIT, '_parse_value')
    # the patterns _parse_value matches against: literals given to re.match / re.fullmatch, and module-level
    # re.compile(...) constants whose .match / .fullmatch it calls.  A pattern is data; applying it to the reference
    # strings below executes nothing of the repository.
    pats: List[Tuple[str, str]] = []
    for n in ast.walk(pv.node):
        if not isinstance(n, ast.Call):
            continue
        fn_ = norm(n.func)
        if fn_ in ('re.match', 're.fullmatch') and n.args and isinstance(n.args[0], ast.Constant) \
                and isinstance(n.args[0].value, str):
            pats.append((n.args[0].value, fn_.split('.')[1]))
        elif isinstance(n.func, ast.Attribute) and n.func.attr in ('match', 'fullmatch') and isinstance(n.func.value, ast.Name) \
                and n.func.value.id in umod.assigns:
            for _ann, val, _st in umod.assigns[n.func.value.id]:
                if isinstance(val, ast.Call) and norm(val.func) == 're.compile' and val.args \
                        and isinstance(val.args[0], ast.Constant) and isinstance(val.args[0].value, str) and len(val.args) == 1:
                    pats.append((val.args[0].value, n.func.attr))
    if not pats:
        raise AnalysisError('_parse_value: numeric prefix regex not found')
    split = None
    for p_, how in pats:
        try:
            c_ = re.compile(p_)
        except re.error as exc:
            raise AnalysisError(f'_parse_value: pattern {p_!r} does not compile: {exc}') from exc
        if c_.groups == 2:
            split = (c_, how)
    if split is None:
        raise AnalysisError('_parse_value: no regex with a number group and a unit group')
    rx = split[0]
    rx_match = rx.match if split[1] == 'match' else rx.fullmatch

    pu_f = prog.func(C.M_UNIT, '_parse_unit')
    norm_unit, n_steps = _str_pipeline(pu_f, pu_f.positional[0])
    if n_steps == 0:
        raise AnalysisError('_parse_unit: no normalisation of the input string found')
    res_names = [n.targets[0].id for n in ast.walk(pv.node) if isinstance(n, ast.Assign) and isinstance(n.targets[0], ast.Name)
                 and any(isinstance(c, ast.Call) and isinstance(c.func, ast.Attribute) and c.func.attr == 'replace'
                         for c in ast.walk(n.value))]
    norm_value, _n2 = _str_pipeline(pv, pv.positional[0], res_names[0]) if res_names else ((lambda t: t.replace(' ', '')), 0)

    def resolve(text: str) -> Optional[str]:
        s = norm_unit(text)
        if s in slots:
            return f'<preferred:{s}>'
        if shape['enum_by_name'] and s in members:
            return s
        for names, u, _ln in table:
            if s in (n.lower() for n in names):
                return u
        return None

    # (1) folded alias relation is a function
    seen: Dict[str, Tuple[str, int]] = {}
    dup = []
    for names, u, ln in table:
        for a in names:
            k = a.lower()
            if k in seen and seen[k][0] != u:
                dup.append((k, seen[k][0], u, ln))
            seen.setdefault(k, (u, ln))
    if dup:
        k, u1, u2, ln = dup[0]
        rep.fail(rule, umod.path, ln, '<module>', f'ambiguous:{k}',
                 f'alias {k!r} (case folded) belongs to both {u1} and {u2}: the second is shadowed')
    else:
        rep.ok(rule, f'{umod.path}:{table[0][2]}', f'{len(seen)} folded aliases map to one unit each')
    # (2) every member's own name resolves to it; (5) every reference alias resolves to its unit
    for uname in members:
        tried = [uname, uname.lower(), uname.upper(), f'  {uname} ']
        bad = [t for t in tried if resolve(t) != uname]
        ln = next((l for names, u, l in table if u == uname), umod.assigns['UnitAliases'][-1][2].lineno)
        if bad:
            rep.fail(rule, umod.path, ln, '<module>', f'name:{uname}',
                     f'the enumeration name {uname!r} does not resolve to Unit.{uname} '
                     f'(e.g. {bad[0]!r} -> {resolve(bad[0])})')
        else:
            rep.ok(rule, f'{umod.path}:{ln}', f'name {uname} resolves to itself in any case')
        refs = REFERENCE_ALIASES.get(uname, [])
        bad = [(a, v) for a in refs for v in (a, a.upper(), a.lower(), ' ' + a + ' ') if resolve(v) != uname]
        if bad:
            a, v = bad[0]
            rep.fail(rule, umod.path, ln, '<module>', f'alias:{uname}:{a}',
                     f'documented alias {a!r} of Unit.{uname} no longer resolves to it ({v!r} -> {resolve(v)})')
        else:
            rep.ok(rule, f'{umod.path}:{ln}', f'{len(refs)} documented aliases of {uname} resolve to it in any case')
    # (3)/(4) aliases survive blank deletion and the numeric split
    bad_blank, bad_num = [], []
    for names, u, ln in table:
        for a in names:
            if shape['blank_delete'] and ' ' in a:
                bad_blank.append((a, u, ln))
            m = rx_match(norm_value('1 ' + a))
            if not m or m.groups()[0] != '1' or resolve(m.groups()[1]) != u:
                bad_num.append((a, u, ln))
    bad_num = [x for x in bad_num if x not in bad_blank]
    for a, u, ln in bad_blank:
        rep.fail(rule, umod.path, ln, '<module>', f'blank:{a}',
                 f'alias {a!r} of Unit.{u} contains a blank: value strings have blanks deleted before look-up, so it '
                 f'can never match (it looks like two aliases in one string)')
    for a, u, ln in bad_num:
        rep.fail(rule, umod.path, ln, '<module>', f'prefix:{a}',
                 f'alias {a!r} of Unit.{u} cannot follow a number: "1{a}" does not split into 1 and the alias')
    if not bad_blank and not bad_num:
        rep.ok(rule, f'{umod.path}:{table[0][2]}', 'every alias survives blank deletion and the numeric-prefix split')
    # slot names do not collide with unit names or aliases
    clash = sorted(slots & (set(seen) | {m.lower() for m in members}))
    if clash:
        rep.fail(rule, umod.path, table[0][2], '<module>', f'slot-clash:{clash[0]}',
                 f'{clash} is both a preferred-unit slot name and a unit name/alias: the string selects the slot')
    rep.extra['aliases_in_table'] = sum(len(n) for n, _u, _l in table)
    rep.extra['reference_aliases'] = sum(len(v) for v in REFERENCE_ALIASES.values())


def check_optional_unit_truthiness(prog: Program, rep, rule: str) -> None:
    members = C.unit_members(prog)
    zero = [k for k, v in members.items() if v == 0]
    if not zero:
        rep.note('no Unit member has value 0: truthiness of an optional unit would be harmless')
        return
    sources = {'_parse_unit', '_find_unit_by_alias'}
    n_sites = 0
    for mod in prog.modules.values():
        for call in ast.walk(mod.tree):
            if not (isinstance(call, ast.Call) and (dotted(call.func) or '').split('.')[-1] in sources):
                continue
            f = find_func_for_node(prog, mod, call)
            fq = f.qualname if f else '<module>'
            p = parent(call)
            node = call
            bound = None
            if isinstance(p, ast.NamedExpr):
                node, bound = p, p.target.id
            elif isinstance(p, ast.Assign) and len(p.targets) == 1 and isinstance(p.targets[0], ast.Name):
                bound = p.targets[0].id
            elif isinstance(p, ast.Return):
                rep.ok(rule, mod.where(call), f'{fq}: optional unit returned as is')
                n_sites += 1
                continue
            n_sites += 1
            bad = None
            bc = _bool_context(node)
            if bc is not None:
                bad = (node, bc)
            elif bound is not None and f is not None:
                for u in ast.walk(f.node):
                    if isinstance(u, ast.Name) and u.id == bound and isinstance(u.ctx, ast.Load):
                        b2 = _bool_context(u)
                        if b2 is not None:
                            bad = (u, b2)
                            break
            if bad:
                rep.fail(rule, mod.path, bad[0].lineno, fq, f'{norm(call)[:40]}',
                         f'the optional unit returned by `{norm(call)[:50]}` is tested for truthiness; '
                         f'Unit.{zero[0]} has value 0 and is treated as "not found"')
            else:
                rep.ok(rule, mod.where(call), f'{fq}: result of {norm(call.func)} compared with None')
    if n_sites == 0:
        raise AnalysisError('no consumer of _parse_unit/_find_unit_by_alias found')


def _constant_driven(prog: Program, mod, f, key: ast.AST) -> bool:
    """The attribute name is not a string from outside: it is a loop variable over a literal table of the package, or a
    parameter of a function every call of which (in the package) passes a literal."""
    if f is None:
        return False
    if isinstance(key, ast.Attribute) and isinstance(key.value, ast.Name) and f.cls is not None and f.positional \
            and key.value.id == f.positional[0]:
        # a field of a record of the package: every construction in the package gives it a literal (or leaves the literal
        # default), and nothing stores it afterwards
        cname, attr = f.cls.name, key.attr
        fields = [s_.target.id for s_ in f.cls.node.body if isinstance(s_, ast.AnnAssign) and isinstance(s_.target, ast.Name)]
        if attr not in fields:
            return False
        dflt = next((s_.value for s_ in f.cls.node.body if isinstance(s_, ast.AnnAssign) and isinstance(s_.target, ast.Name)
                     and s_.target.id == attr), None)
        sites = 0
        for m_ in prog.modules.values():
            for c in ast.walk(m_.tree):
                if isinstance(c, ast.Attribute) and c.attr == attr and isinstance(c.ctx, (ast.Store, ast.Del)):
                    return False
                if isinstance(c, ast.Call) and (dotted(c.func) or '').split('.')[-1] in (cname, '_make', '_replace') :
                    if (dotted(c.func) or '').split('.')[-1] != cname:
                        if (dotted(c.func) or '').split('.')[0] == cname or m_ is f.module:
                            return False
                        continue
                    if any(isinstance(a, ast.Starred) for a in c.args) or any(k.arg is None for k in c.keywords):
                        return False
                    bound = dict(zip(fields, c.args))
                    bound.update({k.arg: k.value for k in c.keywords})
                    a = bound.get(attr, dflt)
                    if not (isinstance(a, ast.Constant) and (a.value is None or isinstance(a.value, str))):
                        return False
                    sites += 1
        return sites > 0
    if not isinstance(key, ast.Name):
        return False

    def literal_rows(seq: ast.AST) -> bool:
        if isinstance(seq, ast.Name):
            val = prog.const_value(mod, seq.id)
            return val is not None and literal_rows(val)
        return isinstance(seq, (ast.Tuple, ast.List)) and all(
            isinstance(e, ast.Constant) or (isinstance(e, (ast.Tuple, ast.List)) and all(isinstance(x, (ast.Constant, ast.Name, ast.Attribute))
                                                                                         for x in e.elts))
            for e in seq.elts)
    for n in ast.walk(f.node):
        if isinstance(n, (ast.For, ast.comprehension)) and any(isinstance(x, ast.Name) and x.id == key.id for x in ast.walk(n.target)):
            seq = n.iter
            if isinstance(seq, ast.Name):
                local_defs = [a_.value for a_ in ast.walk(f.node) if isinstance(a_, ast.Assign) and len(a_.targets) == 1
                              and isinstance(a_.targets[0], ast.Name) and a_.targets[0].id == seq.id]
                seq = (local_defs[0] if len(local_defs) == 1 else None) or prog.const_value(mod, seq.id) or seq
            if isinstance(n.target, ast.Tuple) and isinstance(seq, (ast.Tuple, ast.List)):
                pos = next((i for i, x in enumerate(n.target.elts) if isinstance(x, ast.Name) and x.id == key.id), None)
                if pos is not None and all(isinstance(r_, (ast.Tuple, ast.List)) and len(r_.elts) > pos
                                           and isinstance(r_.elts[pos], ast.Constant) and isinstance(r_.elts[pos].value, str)
                                           for r_ in seq.elts):
                    return True
            return literal_rows(n.iter)
    if key.id in f.params:
        sites = []
        for g in prog.all_funcs():
            for c in ast.walk(g.node):
                if isinstance(c, ast.Call) and ((isinstance(c.func, ast.Name) and c.func.id == f.name)
                                                or (isinstance(c.func, ast.Attribute) and c.func.attr == f.name)):
                    pos = f.positional[1:] if f.cls is not None and f.positional and f.positional[0] in ('self', 'cls') else f.positional
                    bound = dict(zip(pos, c.args))
                    bound.update({k.arg: k.value for k in c.keywords if k.arg})
                    sites.append(bound.get(key.id))
        return bool(sites) and all(isinstance(a, ast.Constant) and isinstance(a.value, str) for a in sites)
    return False


def check_dynamic_names(prog: Program, rep, rule: str) -> None:
    umod = prog.module(C.M_UNIT)
    for mod in prog.modules.values():
        for n in ast.walk(mod.tree):
            f = find_func_for_node(prog, mod, n)
            fq = f.qualname if f else '<module>'
            if isinstance(n, ast.Call) and isinstance(n.func, ast.Name) and n.func.id == 'getattr' and len(n.args) >= 2 \
                    and norm(n.args[0]) in ('PreferredUnits', 'cls') and not isinstance(n.args[1], ast.Constant):
                if f is not None and f.cls is not None and f.cls.name == 'PreferredUnitsMeta':
                    continue
                if norm(n.args[0]) == 'cls' and not (f and f.cls and f.cls.name == 'PreferredUnits'):
                    continue
                key = norm(n.args[1])
                if _constant_driven(prog, mod, f, n.args[1]):
                    rep.ok(rule, mod.where(n), f'{fq}: getattr(PreferredUnits, {key}) with names that are literals of the package')
                    continue
                # the guard: innermost enclosing `if` whose test mentions the key
                guard = None
                for a in ancestors(n):
                    if isinstance(a, ast.If) and key in {norm(x) for x in ast.walk(a.test)}:
                        guard = a
                        break
                ok = False
                if guard is not None:
                    for c in ast.walk(guard.test):
                        if isinstance(c, ast.Compare) and len(c.ops) == 1 and isinstance(c.ops[0], ast.In) \
                                and norm(c.left) == key:
                            rhs = norm(c.comparators[0])
                            if '__dataclass_fields__' in rhs or '__annotations__' in rhs or 'fields(' in rhs \
                                    or isinstance(c.comparators[0], (ast.Tuple, ast.Set, ast.List)):
                                ok = True
                # a string from outside: the key is (computed from) a parameter of the function, or the key of its **kwargs
                outside = False
                if f is not None:
                    roots = {x.id for x in ast.walk(n.args[1]) if isinstance(x, ast.Name)}
                    pnames = set(f.params) - set(f.positional[:1] if f.cls is not None else [])
                    kw = f.node.args.kwarg.arg if f.node.args.kwarg else None
                    for a_ in ast.walk(f.node):
                        if isinstance(a_, (ast.For, ast.comprehension)) and kw and kw in {x.id for x in ast.walk(a_.iter) if isinstance(x, ast.Name)}:
                            pnames |= {x.id for x in ast.walk(a_.target) if isinstance(x, ast.Name)}
                    outside = bool(roots & pnames)
                if ok:
                    rep.ok(rule, mod.where(n), f'{fq}: getattr(PreferredUnits, {key}) under a slot-table membership test')
                elif not outside:
                    rep.undecided(rule, mod.where(n), f'{fq}: getattr(PreferredUnits, {key})',
                                  'where the name comes from is not visible here (not a parameter, not a literal table)')
                else:
                    gtxt = norm(guard.test)[:60] if guard is not None else 'no guard'
                    rep.fail(rule, mod.path, n.lineno, fq, f'getattr:{key}',
                             f'a unit-name string selects `getattr(PreferredUnits, {key})` guarded by `{gtxt}`: '
                             f'hasattr also accepts methods and dunders (set, defaults, __doc__), so an unknown name '
                             f'can return something that is not a unit')
            if isinstance(n, ast.Subscript) and norm(n.value) == 'Unit' and isinstance(n.ctx, ast.Load) \
                    and not isinstance(n.slice, ast.Constant):
                if fq == '_parse_unit':
                    rep.ok(rule, mod.where(n), '_parse_unit: Unit[name] inside the resolver')
                else:
                    rep.fail(rule, mod.path, n.lineno, fq, f'Unit[{norm(n.slice)[:30]}]',
                             f'`{norm(n)[:60]}` turns a string into a unit without the resolver: only the exact-case '
                             f'enumeration name works, no alias and no other letter case')


def run(prog: Program, rep, thorough: bool) -> None:
    A.reset()
    rep.rule('C18.R1', 'settings flow from the calculator\'s own tuple to their sinks', 8 + 5)
    rep.rule('C18.R2', 'global default step: who reads, who writes, guarded setter', 5)
    rep.rule('C18.R3', 'air path per step bounded by the configured step', 1)
    rep.rule('C18.R4', 'names and aliases resolve', 41 * 2 + 2)
    rep.rule('C18.R5', 'optional unit never tested for truthiness', 3)
    rep.rule('C18.R6', 'dynamic names guarded', 2)
    check_settings(prog, rep, 'C18.R1')
    check_global_step(prog, rep, 'C18.R2')
    check_step_bound(prog, rep, 'C18.R3')
    check_aliases(prog, rep, 'C18.R4')
    check_optional_unit_truthiness(prog, rep, 'C18.R5')
    check_dynamic_names(prog, rep, 'C18.R6')
    rep.rule('C18.R7', 'every valid entry of one PreferredUnits.set call is applied', 1)
    check_set_entries(prog, rep, 'C18.R7')


def check_set_entries(prog: Program, rep, rule: str) -> None:
    """PreferredUnits.set evaluated (the loop over the entries unrolled) on calls that mix a valid entry with an entry the
    resolver rejects, an entry of the wrong type and an unknown slot - before and after the valid one: the valid entry
    must be applied whatever else the call carries (one bad line of a configuration table must not silence the rest)."""
    from ..abseval import DictVal, Evaluator, State, Const, NONE, TRUE, FALSE, Undecided, leaves
    um = prog.module(C.M_UNIT)
    if not prog.has_func(C.M_UNIT, 'PreferredUnits.set'):
        raise AnalysisError('anchor vanished: PreferredUnits.set')
    setf = prog.func(C.M_UNIT, 'PreferredUnits.set')
    rep.saw(setf)
    kwname = setf.node.args.kwarg.arg if setf.node.args.kwarg else None
    if kwname is None:
        raise AnalysisError('PreferredUnits.set no longer takes **kwargs')
    meter = C.enum_val(prog, 'Meter')
    bad_entries = [('pressure', Const('kPa'), 'a unit name the resolver rejects'), ('velocity', Const(3.5), 'a value of the wrong type'),
                   ('no_such_slot', Const('meter'), 'an unknown slot')]
    problems = []
    n_calls = 0
    for bname, bval, blabel in bad_entries:
        for order in ('before', 'after'):
            pairs = [(bname, bval), ('distance', Const('meter'))]
            if order == 'after':
                pairs.reverse()

            def h_setattr(ev_, fv, args, kwargs, st_):
                st_.env['$sets'] = list(st_.env.get('$sets', [])) + [(args[1], args[2])]
                return NONE

            def h_parse(ev_, func, args, kwargs, st_, sv):
                return meter if isinstance(args[0], Const) and args[0].value == 'meter' else NONE

            def h_hasattr(ev_, fv, args, kwargs, st_):
                return FALSE if isinstance(args[1], Const) and args[1].value == 'no_such_slot' else TRUE
            ev = Evaluator(prog, hooks={'ext:builtins.setattr': h_setattr, 'call:_parse_unit': h_parse, 'ext:builtins.hasattr': h_hasattr})
            ev.unroll = True
            st = State()
            kw = DictVal({('c', k_): v_ for k_, v_ in pairs})
            try:
                tree, st = ev.run_func(setf, {kwname: kw}, st)
            except Undecided as exc:
                raise AnalysisError(f'PreferredUnits.set: {exc}') from exc
            n_calls += 1
            for path_, lf in leaves(tree):
                if path_:
                    raise AnalysisError('PreferredUnits.set: the outcome on a concrete call is not decided')
                sets = lf.state.env.get('$sets', [])
                applied = any(isinstance(a_, Const) and a_.value == 'distance' and getattr(v_, 'name', None) == 'Meter' for a_, v_ in sets)
                if lf.kind == 'raise' or not applied:
                    problems.append(f"set({', '.join(k_ + '=...' for k_, _v in pairs)}): the valid entry distance='meter' is not applied "
                                    f'when {blabel} comes {order} it')
    if problems:
        rep.fail(rule, um.path, setf.node.lineno, setf.qualname, 'entries', problems[0] + (f' (and {len(problems) - 1} more)' if len(problems) > 1 else ''))
    else:
        rep.ok(rule, setf.where, f'a valid entry is applied whatever rejected entry precedes or follows it ({n_calls} calls)')


TCF = 'py_ballisticcalc/trajectory_calc/_trajectory_calc.py'
TCI = 'py_ballisticcalc/trajectory_calc/__init__.py'
U = 'py_ballisticcalc/unit.py'
IFC = 'py_ballisticcalc/interface_config.py'
VARIANTS = [
    Variant('calc-step-reads-global', 'break', [(TCF, '        preferred_step = self._config.max_calc_step_size_feet\n', '        from py_ballisticcalc import trajectory_calc as _tc\n        preferred_step = _tc._globalMaxCalcStepSizeFeet\n')], 'C18', 'step read from the global at call time', 'pass'),
    Variant('setter-guard-removed', 'break', [(TCI, '    if (_value := PreferredUnits.distance(value)).raw_value <= 0:\n        raise ValueError("_globalMaxCalcStepSize have to be > 0")\n', '    _value = PreferredUnits.distance(value)\n')], 'C18.R2', '', 'pass'),
    Variant('min-velocity-constant', 'break', [(TCF, '_cMinimumVelocity = self._config.cMinimumVelocity', '_cMinimumVelocity = 50.0')], 'C18.R1', '', 'pass'),
    Variant('gravity-constant', 'break', [(TCF, 'Vector(.0, self._config.cGravityConstant, .0)', 'Vector(.0, -32.17405, .0)')], 'C18.R1', '', 'pass'),
    Variant('iteration-cap-constant', 'break', [(TCF, '_cMaxIterations = self._config.cMaxIterations', '_cMaxIterations = 20')], 'C18.R1', '', 'pass'),
    Variant('alias-kn-removed', 'break', [(U, "('knot', 'kn', 'kt')", "('knot', 'kt')")], 'C18.R4', '', 'pass'),
    Variant('alias-m-shadows-meter', 'break', [(U, "('mile', 'mi', 'mi.')", "('mile', 'mi', 'mi.', 'm')")], 'C18.R4', '', 'pass'),
    Variant('shared-default-dict', 'break', [(IFC, 'def create_interface_config(interface_config: Optional[InterfaceConfigDict] = None) -> Config:\n    config = InterfaceConfigDict(', '_shared = {}\n\n\ndef create_interface_config(interface_config: Optional[InterfaceConfigDict] = None) -> Config:\n    config = _shared\n    config.update(')], 'C18.R1', 'settings leak between calculators'),
    Variant('defaults-filled-into-callers-dict', 'break', [(IFC, '    if interface_config is not None and isinstance(interface_config, dict):\n        config.update(interface_config)\n    return Config(**config)', '    if interface_config is not None and isinstance(interface_config, dict):\n        for k, v in config.items():\n            interface_config.setdefault(k, v)\n        config = interface_config\n    return Config(**config)')], 'C18.R1', 'seeded change C18/6'),
    Variant('step-not-normalised', 'break', [(TCF, 'delta_time = self.calc_step / max(1.0, velocity)', 'delta_time = self.calc_step / 1000.0')], 'C18.R3', 'air path per step unbounded in speed'),
    Variant('full-step', 'break', [(TCF, '            return preferred_step / 2.0\n', '            return preferred_step * 2.0\n')], 'C18.R3'),
    Variant('limit-guard-uses-default-drop', 'break', [(TCF, 'or range_vector.y < _cMaximumDrop\n', 'or range_vector.y < -15000\n'), (TCF, 'elif range_vector.y < _cMaximumDrop:', 'elif range_vector.y < -15000:')], 'C18.R1'),
    Variant('reset-wrong-default', 'break', [(TCI, '    _globalMaxCalcStepSizeFeet = 0.5\n\n\ndef set_global', '    _globalMaxCalcStepSizeFeet = 1.0\n\n\ndef set_global')], 'C18.R2'),
    Variant('radian-truthiness', 'break', [(U, 'if (_unit := _parse_unit(value)) is not None:', 'if _unit := _parse_unit(value):')], 'C18.R5', 'the defect repaired by d3587f5', 'pass'),
    Variant('oclock-alias-dropped', 'break', [(U, "('hour', 'h', 'oclock')", "('hour', 'h')")], 'C18.R4', 'the defect repaired by 0486b2a', 'pass'),
    Variant('hasattr-guard', 'break', [(U, 'if input_ in PreferredUnits.__dataclass_fields__:', 'if hasattr(PreferredUnits, input_):')], 'C18.R6', 'the defect repaired by 4e7e7a7', 'pass'),
    Variant('twin-config-local-renamed', 'twin', [(TCF, '_cMinimumVelocity', '_min_v', 3)], None),
    Variant('twin-alias-tuple-reordered', 'twin', [(U, "('knot', 'kn', 'kt')", "('kt', 'knot', 'kn')")], None),
    Variant('twin-accuracy-read-directly', 'twin', [(TCF, 'while zero_finding_error > _cZeroFindingAccuracy and iterations_count < _cMaxIterations:', 'while zero_finding_error > self._config.cZeroFindingAccuracy and iterations_count < _cMaxIterations:')], None),
]
