"""C06 - Unit conversions agree with the SI definitions and invert exactly.

Exhaustive over the finite space (7 dimensions x 41 units).  Every branch of every
``to_raw`` / ``from_raw`` is folded to a normal form by the abstract evaluator (engine D) with the
unit operand concrete, and compared with the SI oracle in sa/spec/units_si.py.
"""
from __future__ import annotations

import ast
import math
from fractions import Fraction
from typing import Dict, Optional

from .. import algebra as A
from ..abseval import Cond, Ctx, EnumVal, Evaluator, Inst, Raised, Scalar, State, S, Undecided, cond_leaves
from ..check import Variant
from ..loader import AnalysisError, Program, dotted
from ..spec import units_si
from . import common as C
from .c16 import value_at

ID = 'C06'
DECIDED = [
    'T1 dispatch is exhaustive and agreeing: for each dimension the units handled by to_raw, by from_raw, '
    'declared as class constants and routed to the class by Unit.__call__ are the same set; the 41 members '
    'are covered; UnitPropsDict has exactly the members',
    'T2 each to_raw branch is the SI map (linear / affine / tangent) within 1e-6 relative',
    'T3 from_raw(to_raw(v)) normalises to v exactly and every A->B conversion factors through the base unit '
    '(__init__ stores to_raw, get_in returns from_raw of the stored magnitude)',
    'T4 the public path, exhaustively: Dim(v, u) stores to_raw(v, u) for every one of the 41 units and every v (a '
    'stored magnitude that depends on a test of the value is refuted); get_in / >> / convert + unit_value / << + '
    'unit_value read from_raw of that magnitude in every unit of the dimension, and convert / << leave the '
    'magnitude as given; no method on that path is memoised',
]
NOT_DECIDED = ['"within a few ulps": floating-point rounding of the factor chains is a runtime quantity']

TECHNIQUE = ('abstract evaluation of every to_raw/from_raw branch to an exact rational normal form (unit operand '
             'concrete, 7x41 exhaustive), set comparison of the dispatch tables, comparison with an SI oracle table')
BASE_HIT = 'falls through to AbstractDimension'


def _evaluator(prog: Program, template: bool = False) -> Evaluator:
    def base_hook(ev, func, args, kwargs, st, self_val):
        return Raised(BASE_HIT)
    if template:
        # the dimensions do not override to_raw / from_raw: the base methods dispatch to them (template method) and a
        # unit no dimension claims ends in the base class's validator
        return Evaluator(prog, hooks={'call:AbstractDimension._validate_unit_type': base_hook})
    return Evaluator(prog, hooks={'call:AbstractDimension.to_raw': base_hook,
                                  'call:AbstractDimension.from_raw': base_hook})


def _principal(ev: Evaluator, v, rep, where: str):
    """Select the 'angle within one turn' case of the 2*pi wrap (the quantifier of C06 excludes the
    other one).  Any other guard is kept."""
    if isinstance(v, Cond) and v.test.kind == 'pos' and isinstance(v.b, Scalar) and isinstance(v.a, Scalar):
        two_pi = A.sym('pi') * 2
        if v.test.rf.equals(v.b.rf - two_pi) and v.a.rf.equals(A.fn('mod', v.b.rf, two_pi)):
            rep.assume('angles are within one turn: the `result % 2*pi` wrap of Angular.to_raw is not taken '
                       '(quantifier of C06)')
            return v.b
    return v


def _expected(dim: str, kind: str, par, base_par, base_kind) -> Optional[A.RF]:
    """Expected to_raw_u(v) from the SI table, given the base unit's own SI entry."""
    v = A.sym('v')
    pi = A.sym('pi')
    if kind in ('linear', 'linear_pi'):
        k = A.rf(par) * (pi if kind == 'linear_pi' else 1)
        kb = A.rf(base_par) * (pi if base_kind == 'linear_pi' else 1)
        return v * k / kb
    if kind == 'affine':
        a, b = par
        ab, bb = base_par
        return (v * A.rf(a) + A.rf(b) - A.rf(bb)) / A.rf(ab)
    if kind == 'tangent':
        kb = A.rf(base_par) * (pi if base_kind == 'linear_pi' else 1)
        return A.fn('atan', v / A.rf(par)) / kb
    return None


def run(prog: Program, rep, thorough: bool) -> None:
    A.reset()
    rep.rule('C06.T1', 'dispatch sets agree per dimension and cover the enum', 7 * 4 + 2)
    rep.rule('C06.T2', 'each unit branch equals its SI definition within 1e-6', 41)
    rep.rule('C06.T3', 'from_raw o to_raw = id; conversions factor through the stored base magnitude', 41 + 2)
    rep.rule('C06.T4', 'the public path: construction stores to_raw for every unit; every accessor reads from_raw of it', 41 * 3)
    members = C.unit_members(prog)
    dims = C.dimension_classes(prog)
    umod = prog.module(C.M_UNIT)
    ucls = C.unit_class(prog)
    # a unit no dimension claims ends in the base class's validator, whichever class defines to_raw / from_raw
    ev = _evaluator(prog, template=True)
    ctx = Ctx(umod, None, None, 0)
    v = S('v')
    call = prog.func(C.M_UNIT, 'Unit.__call__')
    rep.saw(call)

    # ---- facts ---------------------------------------------------------------------------
    to_forms: Dict[str, Dict[str, object]] = {}
    from_forms: Dict[str, Dict[str, object]] = {}
    declared: Dict[str, set] = {}
    for dname, ci in sorted(dims.items()):
        f_to = prog.find_method(ci, 'to_raw')
        f_from = prog.find_method(ci, 'from_raw')
        if f_to is None or f_from is None:
            raise AnalysisError(f'{dname} has no to_raw/from_raw')
        rep.saw(f_to)
        rep.saw(f_from)
        declared[dname] = set(C.declared_units(prog, ci).values())
        to_forms[dname], from_forms[dname] = {}, {}
        for uname, uval in members.items():
            u = EnumVal(ucls, uname, uval)
            for forms, f in ((to_forms[dname], f_to), (from_forms[dname], f_from)):
                st = State()
                selfv = ev.new_inst(st, ci, {})
                try:
                    r, st = ev.call_value(f, [v, u], self_val=selfv, st=st)
                except Undecided as exc:
                    raise AnalysisError(f'{dname}.{f.name} with Unit.{uname}: shape not readable: {exc}') from exc
                forms[uname] = r

    def handled(forms: Dict[str, object]) -> set:
        out = set()
        for uname, r in forms.items():
            lv = [x for _p, x in cond_leaves(r)]
            if not any(isinstance(x, Raised) and x.what == BASE_HIT for x in lv):
                out.add(uname)
        return out

    band: Dict[str, set] = {d: set() for d in dims}
    unconstructible = []
    for uname, uval in members.items():
        st = State()
        try:
            q, st = ev.call_value(call, [v], self_val=EnumVal(ucls, uname, uval), st=st)
        except Undecided as exc:
            raise AnalysisError(f'Unit.__call__ for Unit.{uname}: shape not readable: {exc}') from exc
        if isinstance(q, Inst) and q.cls.name in band:
            band[q.cls.name].add(uname)
        else:
            unconstructible.append(uname)

    # ---- T1 ------------------------------------------------------------------------------
    for dname, ci in sorted(dims.items()):
        h_to, h_from = handled(to_forms[dname]), handled(from_forms[dname])
        sets = {'to_raw': h_to, 'from_raw': h_from, 'class constants': declared[dname],
                'Unit.__call__ band': band[dname]}
        ref = declared[dname]
        for label, s in sets.items():
            f = prog.find_method(ci, 'to_raw' if label != 'from_raw' else 'from_raw')
            node = f.node if label in ('to_raw', 'from_raw') else (call.node if 'band' in label else ci.node)
            where_func = f.qualname if label in ('to_raw', 'from_raw') else (
                call.qualname if 'band' in label else ci.name)
            if s == ref:
                rep.ok('C06.T1', f'{umod.path}:{node.lineno}', f'{dname}: units of {label} = declared '
                       f'{sorted(ref)}')
            else:
                miss, extra = sorted(ref - s), sorted(s - ref)
                rep.fail('C06.T1', umod.path, node.lineno, where_func, f'{dname}:{label}',
                         f'{dname}: {label} handles a different unit set than the class declares: '
                         f'missing {miss}, extra {extra}')
    allu = set(members)
    covered = set().union(*declared.values())
    if covered == allu and not unconstructible:
        rep.ok('C06.T1', f'{umod.path}:{ucls.node.lineno}', f'all {len(allu)} Unit members belong to one dimension '
               f'and are constructible through Unit.__call__')
    else:
        rep.fail('C06.T1', umod.path, ucls.node.lineno, 'Unit', 'coverage',
                 f'Unit members without a dimension: {sorted(allu - covered)}; not constructible: '
                 f'{sorted(unconstructible)}')
    # UnitPropsDict keys
    pd = umod.assigns.get('UnitPropsDict')
    if not pd or not isinstance(pd[-1][1], ast.Dict):
        raise AnalysisError('UnitPropsDict is not a literal dict any more')
    keys = {dotted(k)[5:] for k in pd[-1][1].keys if dotted(k) and dotted(k).startswith('Unit.')}
    if keys == allu:
        rep.ok('C06.T1', f'{umod.path}:{pd[-1][2].lineno}', f'UnitPropsDict has exactly the {len(allu)} members')
    else:
        rep.fail('C06.T1', umod.path, pd[-1][2].lineno, '<module>', 'UnitPropsDict',
                 f'UnitPropsDict keys differ from the enum: missing {sorted(allu - keys)}, '
                 f'extra {sorted(keys - allu)}')

    # ---- T2 / T3 ---------------------------------------------------------------------------
    samples = []
    for dname, ci in sorted(dims.items()):
        f_to = prog.find_method(ci, 'to_raw')
        f_from = prog.find_method(ci, 'from_raw')
        units_here = sorted(declared[dname] & handled(to_forms[dname]))
        # base unit = the one whose to_raw is the identity
        base = None
        for uname in units_here:
            r = _principal(ev, to_forms[dname][uname], rep, '')
            if isinstance(r, Scalar) and r.rf.equals(A.sym('v')):
                base = uname
                break
        if base is None or base not in units_si.SI:
            raise AnalysisError(f'{dname}: no unit with identity to_raw (base unit) found')
        _bd, base_kind, base_par = units_si.SI[base]
        for uname in units_here:
            line = f_to.node.lineno
            r = _principal(ev, to_forms[dname][uname], rep, '')
            leaves = list(cond_leaves(r))
            if uname not in units_si.SI:
                rep.undecided('C06.T2', f'{umod.path}:{line}', f'{dname}.{uname}', 'unit not in the SI oracle table')
            else:
                odim, kind, par = units_si.SI[uname]
                exp = _expected(dname, kind, par, base_par, base_kind)
                bad = None
                if odim != dname:
                    bad = f'declared in {dname} but the SI table has it as {odim}'
                for _path, leaf in leaves:
                    if bad:
                        break
                    if not isinstance(leaf, Scalar):
                        bad = f'to_raw yields {leaf!r}'
                    elif not A.approx_equal(leaf.rf, exp, units_si.REL_TOL):
                        ratio = A.ratio_const(leaf.rf, exp)
                        bad = (f'to_raw(v) = {leaf.rf!r} but the SI definition gives {exp!r}'
                               + (f' (ratio {ratio:.9g})' if ratio is not None else ''))
                if bad:
                    rep.fail('C06.T2', umod.path, line, f_to.qualname, f'{dname}.{uname}', bad)
                else:
                    rep.ok('C06.T2', f'{umod.path}:{line}', f'{dname}.{uname}: to_raw(v) = {leaves[0][1]!r} matches SI')
                    if len(samples) < 6:
                        samples.append(f'{dname}.{uname}: {leaves[0][1]!r}')
            # T3: substitute to_raw into from_raw
            fr = from_forms[dname][uname]
            ok = True
            why = ''
            for _path, leaf in leaves:
                if not isinstance(leaf, Scalar):
                    ok, why = False, f'to_raw yields {leaf!r}'
                    break
                st = State()
                selfv = ev.new_inst(st, ci, {})
                try:
                    back, st = ev.call_value(f_from, [leaf, EnumVal(ucls, uname, members[uname])], self_val=selfv, st=st)
                except Undecided as exc:
                    raise AnalysisError(f'{dname}.from_raw({uname}): {exc}') from exc
                for _p2, b in cond_leaves(back):
                    if not (isinstance(b, Scalar) and b.rf.equals(A.sym('v'))):
                        ok, why = False, f'from_raw(to_raw(v)) = {b!r}, not v'
            if ok:
                rep.ok('C06.T3', f'{umod.path}:{f_from.node.lineno}', f'{dname}.{uname}: from_raw(to_raw(v)) = v')
            else:
                rep.fail('C06.T3', umod.path, f_from.node.lineno, f_from.qualname, f'{dname}.{uname}',
                         f'{dname}.{uname}: to_raw and from_raw are not inverse: {why}')

    # factoring through the base: __init__ stores to_raw(value, units); get_in returns from_raw(_value, units)
    ad = prog.cls(C.M_UNIT, 'AbstractDimension')
    dist = dims.get('Distance') or next(iter(dims.values()))
    probe_unit = sorted(declared[dist.name])[0]
    u = EnumVal(ucls, probe_unit, members[probe_unit])
    st = State()
    obj = ev.construct(dist, [v, u], {}, st, ctx)
    init = prog.find_method(dist, '__init__')
    stored = st.heap[obj.oid].get('_value') if isinstance(obj, Inst) else None
    direct = _principal(ev, to_forms[dist.name][probe_unit], rep, '')
    if isinstance(stored, Scalar) and isinstance(direct, Scalar) and stored.rf.equals(direct.rf):
        rep.ok('C06.T3', init.where, f'{dist.name}(v, {probe_unit}) stores to_raw(v, {probe_unit}) as the magnitude')
    else:
        rep.fail('C06.T3', umod.path, init.node.lineno, init.qualname, '_value',
                 f'construction stores {stored!r}, not to_raw(value, units) = {direct!r}')
    get_in = prog.find_method(dist, 'get_in')
    st = State()
    q = ev.new_inst(st, dist, {'_value': S('raw'), '_defined_units': u})
    other_unit = sorted(declared[dist.name])[-1]
    if other_unit == probe_unit:
        raise AnalysisError(f'{dist.name} declares a single unit: cannot probe get_in')
    u2 = EnumVal(ucls, other_unit, members[other_unit])
    out, st = ev.call_value(get_in, [u2], self_val=q, st=st)
    st2 = State()
    selfv = ev.new_inst(st2, dist, {})
    want, _ = ev.call_value(prog.find_method(dist, 'from_raw'), [S('raw'), u2], self_val=selfv, st=st2)
    if isinstance(out, Scalar) and isinstance(want, Scalar) and out.rf.equals(want.rf):
        rep.ok('C06.T3', get_in.where, 'get_in(u) = from_raw(stored magnitude, u): every A->B is from_raw_B o to_raw_A')
    else:
        rep.fail('C06.T3', umod.path, get_in.node.lineno, get_in.qualname, 'get_in',
                 f'get_in returns {out!r}, not from_raw(self._value, units) = {want!r}')
    rshift = prog.find_method(dist, '__rshift__')
    if rshift is None:
        rep.fail('C06.T3', umod.path, get_in.node.lineno, 'AbstractDimension', '__rshift__',
                 '`>>` is no longer defined on a quantity')
    elif rshift is not get_in:
        # a method of its own: judged like get_in, by what it returns
        st3 = State()
        q3 = ev.new_inst(st3, dist, {'_value': S('raw'), '_defined_units': u})
        try:
            out3, st3 = ev.call_value(rshift, [u2], self_val=q3, st=st3)
        except Undecided as exc:
            raise AnalysisError(f'__rshift__: {exc}') from exc
        if isinstance(out3, Scalar) and isinstance(want, Scalar) and out3.rf.equals(want.rf):
            rep.ok('C06.T3', rshift.where, '`>>` returns from_raw(stored magnitude, u), as get_in does')
        else:
            rep.fail('C06.T3', umod.path, rshift.node.lineno, 'AbstractDimension', '__rshift__',
                     f'`q >> u` returns {out3!r}, not from_raw(self._value, units) = {want!r}')
    _public_path(prog, rep, ev, ctx, umod, ucls, members, dims, declared, to_forms, v)
    rep.extra['exhaustive'] = True
    rep.extra['normal_forms'] = samples
    rep.extra['units'] = len(members)
    rep.extra['dimensions'] = len(dims)


MEMO_DECORATORS = ('lru_cache', 'cache', 'cached_property')
SAMPLE_V = (0, 0.5, -0.25, 1, 3)


def _public_path(prog, rep, ev, ctx, umod, ucls, members, dims, declared, to_forms, v) -> None:
    """T4: what a caller actually writes - Dim(v, u), then `>> u2`, get_in(u2), convert(u2).unit_value, `<< u2` -
    for every dimension and every pair of its units, goes through to_raw_u and from_raw_u2 of the stored magnitude."""
    for dname, ci in sorted(dims.items()):
        units_here = sorted(declared[dname])
        # memoisation on the conversion path: the memo outlives `<<` (which relabels the same object) or conflates
        # a number with a quantity that compares equal to it
        for mname in ('__init__', 'to_raw', 'from_raw', 'get_in', 'convert', 'unit_value', 'units', 'raw_value',
                      '__rshift__', '__lshift__', '__rlshift__'):
            f = prog.find_method(ci, mname)
            if f is None:
                continue
            for d in getattr(f.node, 'decorator_list', []):
                dn = dotted(d.func if isinstance(d, ast.Call) else d) or ''
                if dn.split('.')[-1] in MEMO_DECORATORS:
                    rep.fail('C06.T4', f.module.path, f.node.lineno, f.qualname, f'memo:{mname}',
                             f'{f.qualname} is memoised ({dn}): quantities are relabelled in place by `<<` / convert and '
                             f'compare equal to plain numbers, so a remembered result is served for another unit or value')
        init = prog.find_method(ci, '__init__')
        for uname in units_here:
            u = EnumVal(ucls, uname, members[uname])
            st = State()
            try:
                obj = ev.construct(ci, [v, u], {}, st, ctx)
            except Undecided as exc:
                rep.undecided('C06.T4', init.where, f'{dname}(v, {uname})', f'constructor not evaluable: {exc}')
                continue
            stored = st.heap[obj.oid].get('_value') if isinstance(obj, Inst) else None
            direct = to_forms[dname].get(uname)
            if stored is None or direct is None:
                rep.undecided('C06.T4', init.where, f'{dname}(v, {uname})', 'no stored magnitude to read')
                continue
            # compared by sampling the two guarded values at chosen v (the guards' normal forms are evaluated at the
            # points, never the code); for angles the points stay within one turn (quantifier of C06)
            bad = None
            unread = None
            for x in SAMPLE_V:
                env = {'v': x, 'pi': math.pi}
                a, b = value_at(stored, env), value_at(direct, env)
                if not (isinstance(a, Scalar) and isinstance(b, Scalar)):
                    unread = f'{a!r} / {b!r} at v = {x}'
                    break
                try:
                    fa, fb = a.rf.evalf(env), b.rf.evalf(env)
                except (KeyError, ZeroDivisionError, ValueError) as exc:
                    unread = f'not evaluable at v = {x}: {exc}'
                    break
                if abs(fa - fb) > 1e-12 * max(1.0, abs(fb)):
                    bad = (x, a, b)
                    break
            if unread:
                rep.undecided('C06.T4', init.where, f'{dname}(v, {uname})', f'stored magnitude not readable: {unread}')
            elif bad:
                rep.fail('C06.T4', umod.path, init.node.lineno, init.qualname, f'{dname}.{uname}:stored',
                         f'{dname}({bad[0]}, {uname}) stores {bad[1]!r} as its magnitude, but to_raw({bad[0]}, {uname}) is '
                         f'{bad[2]!r}: construction does not store to_raw(value, units) for every value')
            else:
                rep.ok('C06.T4', init.where, f'{dname}(v, {uname}) stores to_raw(v, {uname}) at v in {SAMPLE_V}')
        # reading back in every unit, through each public accessor
        u0 = EnumVal(ucls, units_here[0], members[units_here[0]])
        f_from = prog.find_method(ci, 'from_raw')
        for uname in units_here:
            u2 = EnumVal(ucls, uname, members[uname])
            st0 = State()
            want, _ = ev.call_value(f_from, [S('raw'), u2], self_val=ev.new_inst(st0, ci, {}), st=st0)
            if not isinstance(want, Scalar):
                continue
            for acc in ('get_in', '__rshift__', 'convert', '__lshift__'):
                f = prog.find_method(ci, acc)
                if f is None:
                    continue
                st = State()
                q = ev.new_inst(st, ci, {'_value': S('raw'), '_defined_units': u0})
                try:
                    out, st = ev.call_value(f, [u2], self_val=q, st=st)
                    if acc in ('convert', '__lshift__'):
                        if not isinstance(out, Inst):
                            rep.undecided('C06.T4', f.where, f'{dname} {acc}({uname})', f'returns {out!r}')
                            continue
                        uv = prog.find_method(ci, 'unit_value')
                        raw_after = value_at(st.heap[out.oid].get('_value'), {'raw': 0.5, 'pi': math.pi})
                        out, st = ev.call_value(uv, [], self_val=out, st=st)
                        if not (isinstance(raw_after, Scalar) and raw_after.rf.equals(A.sym('raw'))):
                            rep.fail('C06.T4', umod.path, f.node.lineno, f.qualname, f'{dname}.{uname}:{acc}:magnitude',
                                     f'after {acc}({uname}) the stored magnitude is {raw_after!r}, no longer the one given: '
                                     f'A -> B -> C then differs from A -> C by the rounding of the intermediate step')
                            continue
                except Undecided as exc:
                    rep.undecided('C06.T4', f.where, f'{dname} {acc}({uname})', f'not evaluable: {exc}')
                    continue
                if isinstance(out, Scalar) and out.rf.equals(want.rf):
                    rep.ok('C06.T4', f.where, f'{dname}: {acc}({uname}) reads from_raw(magnitude, {uname})')
                elif isinstance(out, Scalar):
                    rep.fail('C06.T4', umod.path, f.node.lineno, f.qualname, f'{dname}.{uname}:{acc}',
                             f'a {dname} read through {acc}({uname}) gives {out!r}, not from_raw(magnitude, {uname}) = {want!r}')
                else:
                    rep.undecided('C06.T4', f.where, f'{dname} {acc}({uname})', f'result {out!r} not readable')


U = 'py_ballisticcalc/unit.py'
VARIANTS = [
    Variant('nautical-mile-self-inverse-wrong', 'break',
            [(U, 'value * 72913.3858', 'value * 72000.0'), (U, 'value / 72913.3858', 'value / 72000.0')],
            'C06.T2', 'wrong but self-inverse factor', 'pass'),
    Variant('psi-self-inverse-wrong', 'break',
            [(U, 'value * 51.714924102396', 'value * 51.0'), (U, 'value / 51.714924102396', 'value / 51.0')],
            'C06.T2', '', 'pass'),
    Variant('cm-per-100m-tangent-base', 'break',
            [(U, 'atan(value / 10000)', 'atan(value / 1000)'), (U, 'tan(value) * 10000', 'tan(value) * 1000')],
            'C06.T2', '', 'pass'),
    Variant('oclock-missing-from-from_raw', 'break',
            [(U, '        elif units == Angular.OClock:\n            result = value * 6 / pi\n', '')],
            'C06.T1', 'one sibling loses a unit', 'pass'),
    Variant('celsius-offset', 'break', [(U, 'result = value * 9 / 5 + 32', 'result = value * 9 / 5 + 31')],
            'C06.T2', 'positive control', 'caught'),
    Variant('kmh-not-inverse', 'break', [(U, 'return value * 3.6', 'return value * 3.5')],
            'C06.T3', 'positive control', 'caught'),
    Variant('get-in-display-unit', 'break',
            [(U, 'return self.from_raw(self._value, units)', 'return self.from_raw(self._value, self._defined_units)')],
            'C06.T3', 'conversion ignores the requested unit'),
    Variant('band-shift', 'break', [(U, 'elif 30 <= self < 40:', 'elif 31 <= self < 40:')],
            'C06.T1', 'FootPound no longer constructible'),
    Variant('twin-meter-factor-respelled', 'twin',
            [(U, 'result = value / 25.4 * 1000\n', 'result = value * (1000 / 25.4)\n')], None,
            'same factor, other spelling'),
    Variant('twin-direct-returns', 'twin',
            [(U, '        if units == Distance.Foot:\n            result = value * 12\n',
              '        if units == Distance.Foot:\n            return value * 12\n')], None,
            'branch returns directly instead of through result'),
    Variant('twin-fps-3.28084', 'twin',
            [(U, 'return value / 3.2808399', 'return value / 3.28084'), (U, 'return value * 3.2808399\n        if units == Velocity.MPH', 'return value * 3.28084\n        if units == Velocity.MPH')],
            None, '3e-8 relative: inside the 1e-6 of the property'),
]
