"""C10 - Results depend only on the arguments: deterministic, isolated, non-mutating."""
from __future__ import annotations

import ast
from typing import Dict, List, Optional, Set, Tuple

from ..cfg import CFG
from ..check import Variant
from ..effects import Effects, reachable
from ..loader import AnalysisError, Func, Program, dotted, find_func_for_node, norm, parent, walk_no_nested
from . import common as C

ID = 'C10'
TECHNIQUE = ('origin/effect summaries over the call graph from the public entry points (who may write what came in '
             'through a parameter, what global location is written), definite-assignment and dominance checks of the '
             'solver\'s per-shot attributes, and an inventory of process-wide state and nondeterminism sources on the '
             'compute path')
DECIDED = [
    'R1 no entry point stores into anything reachable from its arguments except weapon.zero_elevation in '
    'set_weapon_zero and display-unit rewrites by coercion (permitted by C13)',
    'R2 every solver attribute read while computing is assigned unconditionally on every entry (in _init_trajectory, '
    'before any callee reads it, or at construction from the immutable Config); every _integrate call is dominated '
    'by _init_trajectory; nothing else is stored on the solver; filter and wind sock are per-call locals',
    'R3 nothing reachable from the entry points writes a global / class attribute / module container, fills a container defined in a class body through self, hands on (stores / returns) an object of a mutable package class that was built once at import, uses a '
    'memoising decorator, a mutable default argument, random/time/environment/id, or iterates over a set; runtime-'
    'rebound globals read on the compute path are limited to the logging debug flag',
]
NOT_DECIDED = ['bit-identity under real thread interleavings (dynamic property of the interpreter); float determinism '
               'of the math library']

ENTRY = [
    (C.M_IF, 'Calculator.fire'), (C.M_IF, 'Calculator.barrel_elevation_for_target'), (C.M_IF, 'Calculator.set_weapon_zero'),
    (C.M_TD, 'HitResult.danger_space'), (C.M_TD, 'HitResult.get_at_distance'), (C.M_TD, 'HitResult.index_at_distance'),
    (C.M_TD, 'HitResult.zeros'),
    (C.M_COND, 'Atmo.__init__'), (C.M_COND, 'Vacuum.__init__'), (C.M_COND, 'Wind.__init__'), (C.M_COND, 'Shot.__init__'),
    (C.M_MUN, 'Weapon.__init__'), (C.M_MUN, 'Ammo.__init__'), (C.M_MUN, 'Sight.__init__'), (C.M_DM, 'DragModel.__init__'),
    (C.M_DM, 'DragModelMultiBC'), (C.M_DM, 'BCPoint.__init__'), (C.M_COND, 'Atmo.icao'),
    (C.M_MUN, 'Sight.get_adjustment'), (C.M_MUN, 'Ammo.get_velocity_for_temp'),
    (C.M_IF, 'Calculator.__post_init__'),
]
# (function, parameter, field): stores into an argument that the statement itself grants
ALLOWED_PARAM_EFFECTS = {('Calculator.set_weapon_zero', 'shot', 'zero_elevation'): 'zeroing changes the stored zero'}
ALLOWED_FIELDS = {'_defined_units': 'display-unit rewrite by coercion / <<, permitted by C13'}
# process-wide writes that the compute path never reads (listed, not flagged)
WRITE_ONLY_CALLS = {'warnings.simplefilter': 'changes how warnings are shown, not what is returned',
                    'warnings.warn': 'diagnostic output', 'logger.debug': 'logging', 'logger.warning': 'logging',
                    'logger.info': 'logging', 'logger.error': 'logging'}
NONDETERMINISM = ('random.', 'time.', 'datetime.', 'uuid.', 'secrets.', 'os.environ', 'os.getenv', 'os.urandom',
                  'threading.', 'multiprocessing.')
MEMO_DECORATORS = ('lru_cache', 'cache', 'cached_property', 'functools.lru_cache', 'functools.cache',
                   'functools.cached_property')
DEBUG_FLAG = {('py_ballisticcalc.logger', 'DEBUG'): 'read through get_debug() for logging only',
              ('py_ballisticcalc.logger', 'file_handler'): 'logging handler'}


def _self_attr_reads(prog: Program, f: Func, seen: Optional[Set[str]] = None) -> Dict[str, Tuple[Func, ast.AST]]:
    """self.<attr> loads of f and of the self-methods it calls (attr -> first witness)."""
    seen = seen if seen is not None else set()
    out: Dict[str, Tuple[Func, ast.AST]] = {}
    if f.fq in seen or f.cls is None or not f.positional:
        return out
    seen.add(f.fq)
    me = f.positional[0]
    for n in ast.walk(f.node):
        if isinstance(n, ast.Attribute) and isinstance(n.value, ast.Name) and n.value.id == me:
            m = prog.find_method(f.cls, n.attr)
            if m is not None:
                if m.is_property or isinstance(parent(n), ast.Call) and parent(n).func is n:
                    for k, v in _self_attr_reads(prog, m, seen).items():
                        out.setdefault(k, v)
                continue
            if isinstance(n.ctx, ast.Load):
                out.setdefault(_mangle(f, n.attr), (f, n))
            elif isinstance(parent(n), ast.AugAssign) and parent(n).target is n:
                out.setdefault(_mangle(f, n.attr), (f, n))
    return out


def _read_elsewhere(tcc, store_node: ast.AST, attr: str) -> bool:
    """Is self.<attr> read (attribute load, getattr/hasattr with the literal name) by any statement of the class
    other than the one that performs this store?"""
    own = store_node
    while own is not None and not isinstance(own, ast.stmt):
        own = parent(own)
    for m in list(tcc.methods.values()) + list(tcc.setters.values()):
        for n in ast.walk(m.node):
            hit = False
            if isinstance(n, ast.Attribute) and isinstance(n.ctx, ast.Load) and _mangle(m, n.attr) == attr:
                hit = True
            elif isinstance(n, ast.Call) and isinstance(n.func, ast.Name) and n.func.id in ('getattr', 'hasattr') \
                    and len(n.args) >= 2 and isinstance(n.args[1], ast.Constant) and n.args[1].value == attr:
                hit = True
            if hit:
                st = n
                while st is not None and not isinstance(st, ast.stmt):
                    st = parent(st)
                if st is not own:
                    return True
    return False


def _mangle(f: Func, attr: str) -> str:
    if attr.startswith('__') and not attr.endswith('__') and f.cls is not None:
        return f'_{f.cls.name.lstrip("_")}{attr}'
    return attr


def _top_level_self_stores(f: Func) -> List[Tuple[str, ast.stmt]]:
    """(attr, statement) for `self.attr = ...` statements directly in the function body (unconditional)."""
    me = f.positional[0]
    out = []
    for st in f.node.body:
        if any(isinstance(x, (ast.Return, ast.Raise)) for x in ast.walk(st)) and not isinstance(st, (ast.Return, ast.Raise)):
            break           # a conditional early exit: what follows is no longer assigned on every entry
        tgts = []
        if isinstance(st, ast.Assign):
            tgts = st.targets
        elif isinstance(st, ast.AnnAssign) and st.value is not None:
            tgts = [st.target]
        for t in tgts:
            for x in (t.elts if isinstance(t, (ast.Tuple, ast.List)) else [t]):
                if isinstance(x, ast.Attribute) and isinstance(x.value, ast.Name) and x.value.id == me:
                    out.append((_mangle(f, x.attr), st))
    return out


def check_params(prog: Program, rep, eng: Effects, rule: str, thorough: bool) -> None:
    entries = [prog.func(m, q) for m, q in ENTRY if q != 'Calculator.__post_init__' or prog.has_func(m, q)]
    if thorough:
        # every public callable of the package, not only the named entry points
        names = set(prog.module(C.M_ROOT).all_ or [])
        for mod in prog.modules.values():
            if mod.name.startswith('py_ballisticcalc.visualize') or mod.name.endswith('.example'):
                continue
            for f in mod.funcs.values():
                top = f.qualname.split('.')[0]
                if f.outer is None and top in names and not f.name.startswith('_') and f not in entries:
                    entries.append(f)
                elif f.outer is None and top in names and f.name in ('__init__', '__post_init__') and f not in entries:
                    entries.append(f)
    for f in entries:
        rep.saw(f)
        s = eng.summaries[f.fq]
        bad = []
        for (o, fld), e in s.effects.items():
            if o[0] != 'param' or fld in ALLOWED_FIELDS:
                continue
            if (f.qualname, o[1], fld) in ALLOWED_PARAM_EFFECTS:
                continue
            if f.qualname in ('PreferredUnits.set',):
                continue
            bad.append(e)
        if not bad:
            rep.ok(rule, f.where, f'{f.qualname}: no store into anything that came in through '
                   f'{[p for p in f.params if p not in ("self", "cls")]}')
        for e in bad:
            what = f'calls `{e.field}` on' if e.field.startswith('.') else f'stores field `{e.field}` of'
            rep.fail(rule, e.module.path, e.line, f.qualname, f'{e.origin[1]}:{e.field}',
                     f'{f.qualname} {what} an object reachable from its argument `{e.origin[1]}`: `{e.text}` '
                     f'in {e.func}', list(e.chain))
    # set_weapon_zero: the only store, and its right-hand side is the call that may raise
    sz = prog.func(C.M_IF, 'Calculator.set_weapon_zero')
    stores = [n for n in ast.walk(sz.node) if isinstance(n, ast.Attribute) and isinstance(n.ctx, ast.Store)]
    if len(stores) == 1 and norm(stores[0]).endswith('.weapon.zero_elevation'):
        rep.ok(rule, sz.where, 'set_weapon_zero stores weapon.zero_elevation only')
    else:
        rep.fail(rule, sz.module.path, sz.node.lineno, sz.qualname, 'stores',
                 f'set_weapon_zero stores {[norm(s) for s in stores]}')


def check_solver_state(prog: Program, rep, rule: str) -> None:
    tc = prog.module(C.M_TC)
    tcc = prog.cls(C.M_TC, 'TrajectoryCalc')
    init = prog.func(C.M_TC, 'TrajectoryCalc.__init__')
    it = prog.func(C.M_TC, 'TrajectoryCalc._init_trajectory')
    rep.saw(it)
    ctor_stores = {a for a, _s in _top_level_self_stores(init)}
    per_shot = _top_level_self_stores(it)
    per_shot_names = [a for a, _s in per_shot]
    assigned_every_entry = set(per_shot_names) | ctor_stores
    compute = [m for n, m in tcc.methods.items() if n not in ('__init__', '_init_trajectory')]
    n_reads = 0
    for m in compute:
        rep.saw(m)
        for attr, (wf, wn) in _self_attr_reads(prog, m).items():
            n_reads += 1
            if attr in assigned_every_entry:
                rep.ok(rule, tc.where(wn), f'{m.qualname} reads self.{attr}: assigned on every entry')
            else:
                rep.fail(rule, tc.path, wn.lineno, m.qualname, f'read:{attr}',
                         f'{m.qualname} reads self.{attr} (in {wf.qualname}), which is not assigned unconditionally in '
                         f'_init_trajectory nor at construction: its value survives from an earlier call')
    # stores outside __init__/_init_trajectory must be to per-shot attributes
    for m in compute:
        me = m.positional[0] if m.positional else 'self'
        for n in ast.walk(m.node):
            if isinstance(n, ast.Attribute) and isinstance(n.ctx, ast.Store) and isinstance(n.value, ast.Name) \
                    and n.value.id == me:
                a = _mangle(m, n.attr)
                if a in per_shot_names:
                    rep.ok(rule, tc.where(n), f'{m.qualname} updates per-shot attribute self.{a} (re-derived on entry)')
                elif not _read_elsewhere(tcc, n, a):
                    # write-only state (a diagnostic counter): nothing computed can depend on it
                    rep.ok(rule, tc.where(n), f'{m.qualname} updates self.{a}, which no other statement reads (write-only)')
                else:
                    rep.fail(rule, tc.path, n.lineno, m.qualname, f'store:{a}',
                             f'{m.qualname} stores self.{a}, which _init_trajectory does not re-derive and which is read '
                             f'elsewhere in the solver: state leaks from one call into the next')
    # conditional stores inside _init_trajectory (memoisation)
    me = it.positional[0]
    for n in ast.walk(it.node):
        if isinstance(n, ast.Attribute) and isinstance(n.ctx, ast.Store) and isinstance(n.value, ast.Name) \
                and n.value.id == me and _mangle(it, n.attr) not in per_shot_names:
            rep.fail(rule, tc.path, n.lineno, it.qualname, f'conditional:{n.attr}',
                     f'_init_trajectory assigns self.{n.attr} only conditionally: a value from an earlier shot can survive')
    # order inside _init_trajectory
    have = set(ctor_stores)
    for st in it.node.body:
        for c in ast.walk(st):
            if isinstance(c, ast.Call) and isinstance(c.func, ast.Attribute) and isinstance(c.func.value, ast.Name) \
                    and c.func.value.id == me:
                m = prog.find_method(tcc, c.func.attr)
                if m is None:
                    continue
                need = _self_attr_reads(prog, m)
                missing = sorted(a for a in need if a not in have)
                if missing:
                    rep.fail(rule, tc.path, c.lineno, it.qualname, f'order:{c.func.attr}',
                             f'_init_trajectory calls self.{c.func.attr}() before assigning {missing}, which it reads: '
                             f'the values of the previous shot are used')
                else:
                    rep.ok(rule, tc.where(c), f'_init_trajectory: self.{c.func.attr}() reads only attributes assigned '
                           f'earlier in the same entry')
        for a, s2 in per_shot:
            if s2 is st:
                have.add(a)
    # every _integrate call dominated by _init_trajectory
    for m in tcc.methods.values():
        calls = [c for c in ast.walk(m.node) if isinstance(c, ast.Call) and norm(c.func) == f'{m.positional[0]}._integrate'] \
            if m.positional else []
        if not calls:
            continue
        cfg = CFG(m.node)
        dom = cfg.dominators()
        inits = [cfg.node_of(c) for c in ast.walk(m.node) if isinstance(c, ast.Call)
                 and norm(c.func) == f'{m.positional[0]}._init_trajectory']
        for c in calls:
            cn = cfg.node_of(c)
            if any(i is not None and i.id in dom[cn.id] and i.id != cn.id for i in inits):
                rep.ok(rule, tc.where(c), f'{m.qualname}: _integrate call dominated by _init_trajectory')
            else:
                rep.fail(rule, tc.path, c.lineno, m.qualname, '_integrate-undominated',
                         f'{m.qualname} reaches _integrate on a path that does not pass through _init_trajectory')
    # _integrate reachable only through the class's own methods
    for mod in prog.modules.values():
        for c in ast.walk(mod.tree):
            if isinstance(c, ast.Call) and isinstance(c.func, ast.Attribute) and c.func.attr == '_integrate':
                f = find_func_for_node(prog, mod, c)
                if f is None or f.cls is not tcc:
                    rep.fail(rule, mod.path, c.lineno, f.qualname if f else '<module>', 'external-_integrate',
                             '_integrate is called from outside TrajectoryCalc without re-deriving the per-shot state')
    # filter and wind sock are locals of _integrate
    integ = prog.func(C.M_TC, 'TrajectoryCalc._integrate')
    for cname in ('_TrajectoryDataFilter', '_WindSock'):
        sites = [c for c in ast.walk(tc.tree) if isinstance(c, ast.Call) and isinstance(c.func, ast.Name) and c.func.id == cname]
        if not sites:
            raise AnalysisError(f'{cname} is never constructed')
        for c in sites:
            f = find_func_for_node(prog, tc, c)
            p = parent(c)
            # what matters is that the object does not outlive the call: built at import (module level, class body, default
            # argument) or kept on the solver instance it is shared between shots; a local of any function is per-call; handed
            # on otherwise (returned by a factory, kept on an object that is itself built per call) is not traced
            in_default = f is not None and any(c is x for d_ in list(f.node.args.defaults) + [k for k in f.node.args.kw_defaults if k is not None]
                                               for x in ast.walk(d_))
            if f is None or in_default:
                rep.fail(rule, tc.path, c.lineno, f.qualname if f else '<module>', f'escape:{cname}',
                         f'{cname} is built once at import ({"a default argument" if in_default else "module / class level"}): '
                         f'every call shares it')
                continue
            tgt = None
            if isinstance(p, ast.Assign) and len(p.targets) == 1:
                tgt = p.targets[0]
            elif isinstance(p, ast.AnnAssign) and p.value is c:
                tgt = p.target
            me = f.positional[0] if f.cls is not None and f.positional else None
            if isinstance(tgt, ast.Attribute) and isinstance(tgt.value, ast.Name) and tgt.value.id == me and f.cls is tcc:
                rep.fail(rule, tc.path, c.lineno, f.qualname, f'escape:{cname}',
                         f'{cname} is kept on the solver (`{norm(tgt)}`): it survives from one call into the next')
                continue
            escapes = None
            if isinstance(tgt, ast.Name):
                nm = tgt.id
                escapes = False
                for n in ast.walk(f.node):
                    if isinstance(n, ast.Return) and n.value is not None and nm in {x.id for x in ast.walk(n.value) if isinstance(x, ast.Name)}:
                        escapes = True
                    if isinstance(n, (ast.Assign, ast.AnnAssign)) and isinstance(n.value, ast.Name) and n.value.id == nm \
                            and any(isinstance(t, ast.Attribute) for t in (n.targets if isinstance(n, ast.Assign) else [n.target])):
                        t0 = (n.targets if isinstance(n, ast.Assign) else [n.target])[0]
                        if isinstance(t0.value, ast.Name) and t0.value.id == me and f.cls is tcc:
                            rep.fail(rule, tc.path, n.lineno, f.qualname, f'escape:{cname}',
                                     f'{cname} is kept on the solver (`{norm(t0)}`): it survives from one call into the next')
                            escapes = 'reported'
                        else:
                            escapes = escapes or True
                    if isinstance(n, (ast.Global, ast.Nonlocal)) and nm in n.names:
                        rep.fail(rule, tc.path, n.lineno, f.qualname, f'escape:{cname}',
                                 f'{cname} is bound to the global `{nm}`: every call shares it')
                        escapes = 'reported'
            if escapes == 'reported':
                continue
            if escapes is False:
                rep.ok(rule, tc.where(c), f'{cname} is a per-call local of {f.qualname}')
            else:
                rep.undecided(rule, tc.where(c), f'{cname} built in {f.qualname}',
                              'handed on (returned, or kept on another object): its lifetime is that of the receiver, not traced')
    rep.extra['solver_attr_reads'] = n_reads
    rep.extra['per_shot_attributes'] = per_shot_names


def check_shared_state(prog: Program, rep, eng: Effects, rule: str) -> None:
    roots = [prog.func(m, q) for m, q in ENTRY if q != 'Calculator.__post_init__' or prog.has_func(m, q)]
    calc_c = prog.cls(C.M_IF, 'Calculator')
    roots += [m for m in list(calc_c.methods.values()) + list(calc_c.setters.values()) if m not in roots]
    reach = reachable(eng, roots)
    funcs = [eng.funcs[fq] for fq in sorted(reach)]
    rep.extra['functions_reachable_from_entry_points'] = len(funcs)
    listed = []
    rebound: Set[Tuple[str, str]] = set()
    for mod in prog.modules.values():
        for g in mod.global_writes():
            rebound.add((mod.name, g))
    n_checked = 0
    for f in funcs:
        if f.module.name.startswith('py_ballisticcalc.visualize'):
            continue
        rep.saw(f)
        n_checked += 1
        s = eng.summaries[f.fq]
        # (a) effects on globals / class objects
        for (o, fld), e in s.effects.items():
            if o[0] != 'global' or fld in ALLOWED_FIELDS or e.func != f.qualname:
                continue
            rep.fail(rule, e.module.path, e.line, f.qualname, f'global:{o[2]}:{fld}',
                     f'{f.qualname} writes process-wide state `{o[2]}` ({fld}): `{e.text}`; another calculator or a '
                     f'later call can observe it')
        # (b) syntactic: global statements, class attribute stores, setattr on classes
        for n in walk_no_nested(f.node):
            if isinstance(n, ast.Global):
                rep.fail(rule, f.module.path, n.lineno, f.qualname, f'global-stmt:{",".join(n.names)}',
                         f'{f.qualname} rebinds module global(s) {n.names} on the compute path')
            if isinstance(n, ast.Call):
                name = dotted(n.func) or ''
                if name in WRITE_ONLY_CALLS:
                    listed.append(f'{f.qualname}: {name} ({WRITE_ONLY_CALLS[name]})')
                elif any(name.startswith(p) or name == p.rstrip('.') for p in NONDETERMINISM) or name == 'id':
                    rep.fail(rule, f.module.path, n.lineno, f.qualname, f'nondeterminism:{name}',
                             f'{f.qualname} calls `{name}`: the result no longer depends on the arguments only')
            if isinstance(n, (ast.For, ast.comprehension)):
                it = n.iter
                if isinstance(it, (ast.Set, ast.SetComp)) or (isinstance(it, ast.Call) and (dotted(it.func) or '') in ('set', 'frozenset')):
                    rep.fail(rule, f.module.path, getattr(n, 'lineno', f.node.lineno), f.qualname, 'set-iteration',
                             f'{f.qualname} iterates over a set: order depends on hashing')
        # (c) memoising decorators, mutable defaults
        for d in f.decorators:
            if d in MEMO_DECORATORS or d.split('.')[-1] in ('lru_cache', 'cache', 'cached_property'):
                rep.fail(rule, f.module.path, f.node.lineno, f.qualname, f'memo:{d}',
                         f'{f.qualname} is memoised with @{d}: results are kept across calls (and keyed by identity '
                         f'or equality of mutable arguments)')
        a = f.node.args
        for d in list(a.defaults) + [x for x in a.kw_defaults if x is not None]:
            if isinstance(d, (ast.List, ast.Dict, ast.Set, ast.ListComp, ast.DictComp)) or \
                    (isinstance(d, ast.Call) and (dotted(d.func) or '') in ('list', 'dict', 'set')):
                rep.fail(rule, f.module.path, f.node.lineno, f.qualname, f'mutable-default:{norm(d)[:20]}',
                         f'{f.qualname} has a mutable default argument `{norm(d)[:30]}` shared by all calls')
        # (d) reads of runtime-rebound globals
        for n in walk_no_nested(f.node):
            if isinstance(n, ast.Name) and isinstance(n.ctx, ast.Load):
                r = prog.const_home(f.module, n.id)
                if r is not None and (r[0].name, r[1]) in rebound and n.id not in f.params:
                    key = (r[0].name, r[1])
                    if key in DEBUG_FLAG:
                        listed.append(f'{f.qualname}: reads {r[1]} ({DEBUG_FLAG[key]})')
                    else:
                        rep.fail(rule, f.module.path, n.lineno, f.qualname, f'reads-global:{r[1]}',
                                 f'{f.qualname} reads `{r[1]}`, a module global rebound at run time: the result depends '
                                 f'on process state, not only on the arguments')
    # (e) a container defined in a class body (one object for all instances) that a reachable method fills or changes
    #     through `self` / `cls` / the class name, never having given the instance its own
    mutators = ('append', 'extend', 'insert', 'pop', 'remove', 'clear', 'sort', 'reverse', 'update', 'setdefault', 'popitem',
                'add', 'discard', '__setitem__', '__delitem__')

    def _container(v: Optional[ast.AST]) -> bool:
        return isinstance(v, (ast.Dict, ast.List, ast.Set, ast.DictComp, ast.ListComp, ast.SetComp)) or (
            isinstance(v, ast.Call) and (dotted(v.func) or '').split('.')[-1] in ('dict', 'list', 'set', 'defaultdict', 'OrderedDict',
                                                                                   'deque', 'Counter'))
    n_cls_containers = 0
    for f in funcs:
        if f.cls is None or not f.positional or f.module.name.startswith('py_ballisticcalc.visualize'):
            continue
        me = f.positional[0]
        for n in walk_no_nested(f.node):
            tgt = None
            if isinstance(n, ast.Subscript) and isinstance(n.ctx, (ast.Store, ast.Del)):
                tgt = n.value
            elif isinstance(n, ast.Call) and isinstance(n.func, ast.Attribute) and n.func.attr in mutators:
                tgt = n.func.value
            if not (isinstance(tgt, ast.Attribute) and isinstance(tgt.value, ast.Name)
                    and tgt.value.id in (me, f.cls.name, 'cls')):
                continue
            hit = prog.find_class_attr(f.cls, tgt.attr)
            if hit is None or not _container(hit[1][1]):
                continue
            own = any(isinstance(x, ast.Attribute) and isinstance(x.ctx, ast.Store) and x.attr == tgt.attr
                      and isinstance(x.value, ast.Name) and x.value.id == m_.positional[0]
                      for c_ in prog.mro(f.cls) for m_ in c_.methods.values() if m_.positional for x in ast.walk(m_.node))
            n_cls_containers += 1
            if not own or tgt.value.id != me:
                rep.fail(rule, f.module.path, n.lineno, f.qualname, f'class-container:{tgt.attr}',
                         f'{f.qualname} changes `{norm(tgt)}`, a container defined once in the body of class {hit[0].name} and '
                         f'shared by all its instances: `{norm(n)[:60]}` - what one object leaves there is seen by every other')
    # (f) an object of a mutable package class built once at import (module level / class body) and handed on - stored
    #     into an object or returned - by a reachable function: every holder shares that one object
    quantity_names = set(C.dimension_classes(prog)) | {'AbstractDimension'}

    def _mutable_instances(v: ast.AST) -> List[str]:
        out_ = []
        for c_ in ast.walk(v):
            if isinstance(c_, ast.Call):
                nm = (dotted(c_.func) or '').split('.')[0]
                ci_ = next((k_ for m_ in prog.modules.values() for k_ in m_.classes.values() if k_.name == nm), None)
                if ci_ is None or nm in quantity_names or prog.is_namedtuple(ci_):
                    continue
                if any(b_ in ('Enum', 'IntEnum', 'enum.Enum', 'enum.IntEnum') for k_ in prog.mro(ci_) for b_ in prog.base_names(k_)):
                    continue
                out_.append(nm)
        return out_
    shared_objs: Dict[Tuple[str, str], List[str]] = {}
    for mod in prog.modules.values():
        if mod.name.startswith('py_ballisticcalc.visualize') or mod.name.endswith('.example'):
            continue
        for gname, entries in mod.assigns.items():
            for e_ in entries:
                if e_[1] is not None and not isinstance(e_[1], ast.Lambda):
                    mi = _mutable_instances(e_[1])
                    if mi:
                        shared_objs[(mod.name, gname)] = mi
    for f in funcs:
        if f.module.name.startswith('py_ballisticcalc.visualize'):
            continue
        for n in walk_no_nested(f.node):
            if not (isinstance(n, ast.Name) and isinstance(n.ctx, ast.Load)) or n.id in f.params:
                continue
            home = prog.const_home(f.module, n.id)
            if home is None or (home[0].name, home[1]) not in shared_objs:
                continue
            st_ = n
            while st_ is not None and not isinstance(st_, ast.stmt):
                st_ = parent(st_)
            escapes = isinstance(st_, ast.Return) or (isinstance(st_, (ast.Assign, ast.AnnAssign, ast.AugAssign)) and any(
                isinstance(t_, (ast.Attribute, ast.Subscript)) for t_ in (st_.targets if isinstance(st_, ast.Assign) else [st_.target])))
            if escapes:
                rep.fail(rule, f.module.path, n.lineno, f.qualname, f'shared-object:{home[1]}',
                         f'{f.qualname} hands on `{home[1]}`, which holds {shared_objs[(home[0].name, home[1])][0]} object(s) built once '
                         f'at import (`{norm(st_)[:70]}`): every result or shot that receives it shares the same mutable object, so '
                         f'a change made through one is seen through all')
    if n_checked:
        rep.ok(rule, 'py_ballisticcalc', f'{n_checked} functions reachable from the entry points inspected for shared state '
               f'({n_cls_containers} uses of class-body containers, {len(shared_objs)} import-time objects of mutable classes)')
    # module-level mutable containers mutated by anybody reachable are caught by (a); memo dicts keyed by id():
    rep.extra['process_wide_writes_listed_not_flagged'] = sorted(set(listed))


def run(prog: Program, rep, thorough: bool) -> None:
    rep.rule('C10.R1', 'no argument is mutated beyond the allow-list', len(ENTRY) - 1)
    rep.rule('C10.R2', 'per-shot solver state re-derived on every entry', 18 + 6)
    rep.rule('C10.R3', 'no shared mutable state or nondeterminism on the compute path', 1)
    eng = Effects(prog)
    rep.unresolved = sorted(eng.unresolved)
    rep.extra['effect_fixpoint_rounds'] = eng.rounds
    check_params(prog, rep, eng, 'C10.R1', thorough)
    check_solver_state(prog, rep, 'C10.R2')
    check_shared_state(prog, rep, eng, 'C10.R3')


TCF = 'py_ballisticcalc/trajectory_calc/_trajectory_calc.py'
CON = 'py_ballisticcalc/conditions.py'
VARIANTS = [
    Variant('integrate-sorts-winds-in-place', 'break', [(TCF, '        wind_sock = _WindSock(shot_info.winds)\n', '        shot_info._winds.sort(key=lambda w: w.until_distance.raw_value)\n        wind_sock = _WindSock(shot_info.winds)\n')], 'C10.R1', '', 'pass'),
    Variant('zero-angle-writes-weapon', 'break', [(TCF, '                self.barrel_elevation -= (height - height_at_zero) / zero_distance\n', '                self.barrel_elevation -= (height - height_at_zero) / zero_distance\n                shot_info.weapon.zero_elevation = Angular.Radian(self.barrel_elevation)\n')], 'C10.R1', '', 'pass'),
    Variant('lru-cache-on-calculate-curve', 'break', [(TCF, 'def calculate_curve(data_points', 'import functools\n\n\n@functools.lru_cache(maxsize=None)\ndef calculate_curve(data_points')], 'C10.R3'),
    Variant('module-cache-by-id', 'break', [(TCF, 'def calculate_curve(data_points: List[DragDataPoint]) -> List[CurvePoint]:\n', '_CURVE_CACHE = {}\n\n\ndef calculate_curve(data_points: List[DragDataPoint]) -> List[CurvePoint]:\n    if id(data_points) in _CURVE_CACHE:\n        return _CURVE_CACHE[id(data_points)]\n'), (TCF, '    curve.append(curve_point)\n    return curve\n', '    curve.append(curve_point)\n    _CURVE_CACHE[id(data_points)] = curve\n    return curve\n')], 'C10.R3'),
    Variant('mutable-default-winds', 'break', [(CON, 'winds: Optional[List[Wind]] = None\n                 ):', 'winds: Optional[List[Wind]] = []\n                 ):')], 'C10.R3'),
    Variant('winds-property-sorts-in-place', 'break', [(CON, "return tuple(sorted(self._winds, key=lambda wind: wind.until_distance.raw_value))", "self._winds.sort(key=lambda wind: wind.until_distance.raw_value)\n        return tuple(self._winds)")], 'C10.R1', 'positive control', 'caught'),
    Variant('curve-memo', 'break', [(TCF, '        self._curve: List[CurvePoint] = calculate_curve(self._table_data)\n', "        if not hasattr(self, '_curve'):\n            self._curve: List[CurvePoint] = calculate_curve(self._table_data)\n")], 'C10.R2', 'positive control', 'caught'),
    Variant('stability-before-twist', 'break', [(TCF, '        self.stability_coefficient = self.calc_stability_coefficient(shot_info.atmo)\n', ''), (TCF, '        self.look_angle = shot_info.look_angle >> Angular.Radian\n', '        self.muzzle_velocity = shot_info.ammo.get_velocity_for_temp(shot_info.atmo.powder_temp) >> Velocity.FPS\n        self.stability_coefficient = self.calc_stability_coefficient(shot_info.atmo)\n        self.look_angle = shot_info.look_angle >> Angular.Radian\n')], 'C10.R2', 'Miller stability computed from the previous shot\'s twist and bullet dimensions'),
    Variant('zero-angle-skips-init-when-same-shot', 'break', [(TCF, '        self._init_trajectory(shot_info)\n\n        _cZeroFindingAccuracy', '        if getattr(self, "_last_shot", None) is not shot_info:\n            self._init_trajectory(shot_info)\n        self._last_shot = shot_info\n\n        _cZeroFindingAccuracy')], 'C10.R2', 'init skipped for the same shot object: mutated shot fields ignored'),
    Variant('step-budget-across-calls', 'break', [(TCF, '            it += 1\n', '            it += 1\n            self.total_steps = getattr(self, "total_steps", 0) + 1\n'), (TCF, '            delta_time = self.calc_step / max(1.0, velocity)\n', '            delta_time = self.calc_step / max(1.0, velocity)\n            if getattr(self, "total_steps", 0) > 5000000:\n                delta_time *= 2\n')], 'C10.R2', 'a long-used calculator coarsens its step'),
    Variant('twin-write-only-step-counter', 'twin', [(TCF, '            it += 1\n', '            it += 1\n            self.total_steps = getattr(self, "total_steps", 0) + 1\n')], None, 'diagnostic counter nobody reads'),
    Variant('twin-sorted-key-spelling', 'twin', [(CON, 'key=lambda wind: wind.until_distance.raw_value', 'key=lambda w: w.until_distance.raw_value')], None),
    Variant('twin-read-only-property', 'twin', [(TCF, '    def get_calc_step(self, step: float = 0) -> float:', '    @property\n    def config(self) -> Config:\n        return self._config\n\n    def get_calc_step(self, step: float = 0) -> float:')], None),
]
