"""Obligations, findings, known-findings matching, evidence files and exit codes."""
from __future__ import annotations

import json
import os
import re
import time
from typing import Any, Dict, List, Optional

VERIF = os.path.dirname(os.path.dirname(os.path.abspath(__file__)))
EVIDENCE_DIR = os.path.join(VERIF, 'evidence')
REPLAY_DIR = os.path.join(EVIDENCE_DIR, 'replay')
KNOWN_FINDINGS = os.path.join(VERIF, 'known_findings.json')

EXIT_OK, EXIT_VIOLATION, EXIT_ANALYSIS_ERROR = 0, 1, 2


def _slug(s: str) -> str:
    return re.sub(r'[^A-Za-z0-9_.-]+', '_', s)[:120].strip('_')


class Finding:
    def __init__(self, rule: str, path: str, line: int, func: str, construct: str, message: str,
                 chain: Optional[List[str]] = None):
        self.rule = rule
        self.path = path
        self.line = line
        self.func = func
        self.construct = construct
        self.message = message
        self.chain = chain or []

    @property
    def key(self) -> str:
        # keyed by rule and construct, never by line number
        return f'{self.rule}|{self.path}|{self.func}|{self.construct}'

    def as_dict(self) -> Dict[str, Any]:
        return {'rule': self.rule, 'file': self.path, 'line': self.line, 'function': self.func,
                'construct': self.construct, 'message': self.message, 'chain': self.chain, 'key': self.key}

    def text(self) -> str:
        s = f'  {self.path}:{self.line}  {self.rule}  {self.func}  [{self.construct}]  {self.message}'
        if self.chain:
            s += '\n      via ' + ' -> '.join(self.chain)
        return s


class RuleInfo:
    def __init__(self, name: str, text: str, min_instances: int):
        self.name = name
        self.text = text
        self.min_instances = min_instances
        self.instances = 0
        self.discharged = 0
        self.refuted = 0
        self.undecided = 0
        self.samples: List[Dict[str, Any]] = []


class Report:
    def __init__(self, prop_id: str, tier: str, label: str = 'working-tree'):
        self.prop_id = prop_id
        self.tier = tier
        self.label = label
        self.rules: Dict[str, RuleInfo] = {}
        self.findings: List[Finding] = []
        self.notes: List[str] = []
        self.assumptions: List[str] = []
        self.decided: List[str] = []
        self.not_decided: List[str] = []
        self.extra: Dict[str, Any] = {}
        self.analysed_functions: set = set()
        self.analysed_modules: set = set()
        self.unresolved: List[str] = []
        self.t0 = time.time()

    # -- declaring ---------------------------------------------------------------------
    def rule(self, name: str, text: str, min_instances: int = 1) -> RuleInfo:
        if name not in self.rules:
            self.rules[name] = RuleInfo(name, text, min_instances)
        return self.rules[name]

    def _r(self, rule: str) -> RuleInfo:
        if rule not in self.rules:
            self.rules[rule] = RuleInfo(rule, '', 0)
        return self.rules[rule]

    def ok(self, rule: str, where: str, instance: str) -> None:
        r = self._r(rule)
        r.instances += 1
        r.discharged += 1
        if len(r.samples) < 4:
            r.samples.append({'where': where, 'obligation': instance, 'verdict': 'discharged'})

    def undecided(self, rule: str, where: str, instance: str, why: str) -> None:
        r = self._r(rule)
        r.instances += 1
        r.undecided += 1
        self.notes.append(f'{rule} undecided at {where}: {instance}: {why}')
        if len(r.samples) < 4:
            r.samples.append({'where': where, 'obligation': instance, 'verdict': 'undecided', 'why': why})

    def fail(self, rule: str, path: str, line: int, func: str, construct: str, message: str,
             chain: Optional[List[str]] = None) -> Finding:
        r = self._r(rule)
        r.instances += 1
        r.refuted += 1
        f = Finding(rule, path, line, func, construct, message, chain)
        # one finding per key
        if all(g.key != f.key for g in self.findings):
            self.findings.append(f)
        r.samples.insert(0, {'where': f'{path}:{line}', 'obligation': f'{func} [{construct}]',
                             'verdict': 'refuted', 'why': message})
        del r.samples[6:]
        return f

    def check(self, cond: bool, rule: str, path: str, line: int, func: str, construct: str,
              ok_text: str, fail_text: str) -> bool:
        if cond:
            self.ok(rule, f'{path}:{line}', ok_text)
        else:
            self.fail(rule, path, line, func, construct, fail_text)
        return cond

    def note(self, text: str) -> None:
        self.notes.append(text)

    def assume(self, text: str) -> None:
        if text not in self.assumptions:
            self.assumptions.append(text)

    def saw(self, func) -> None:
        self.analysed_functions.add(func.fq)
        self.analysed_modules.add(func.module.path)

    # -- finishing ---------------------------------------------------------------------
    def floor_errors(self) -> List[str]:
        errs = []
        for r in self.rules.values():
            if r.refuted:
                continue        # a refuted rule reports its finding; one combined finding may stand for several instances
            if r.instances < r.min_instances:
                errs.append(f'rule {r.name} matched {r.instances} instance(s), below the floor {r.min_instances} '
                            f'confirmed by hand: the rule has gone blind')
        return errs


def load_known() -> Dict[str, Any]:
    if not os.path.exists(KNOWN_FINDINGS):
        return {'findings': [], 'fixed': []}
    with open(KNOWN_FINDINGS, encoding='utf-8') as fh:
        return json.load(fh)


def finish(rep: Report, selftest: Optional[Dict[str, Any]] = None, write: bool = True) -> int:
    """Print verdict lines, write the evidence file, return the exit code."""
    known = load_known()
    known_by_key = {k['key']: k for k in known.get('findings', []) if k.get('property') == rep.prop_id}
    errs = rep.floor_errors()
    new, matched = [], []
    for f in rep.findings:
        (matched if f.key in known_by_key else new).append(f)

    obligations = sum(r.instances for r in rep.rules.values())
    discharged = sum(r.discharged for r in rep.rules.values())
    undecided = sum(r.undecided for r in rep.rules.values())
    wall = time.time() - rep.t0

    print(f'== {rep.prop_id} [{rep.tier}] on {rep.label}: {len(rep.rules)} rules, {obligations} obligations, '
          f'{discharged} discharged, {len(rep.findings)} refuted, {undecided} undecided; '
          f'{len(rep.analysed_functions)} functions in {len(rep.analysed_modules)} modules analysed')
    for r in rep.rules.values():
        print(f'   {r.name:<10} instances={r.instances:<4} ok={r.discharged:<4} refuted={r.refuted:<3} '
              f'undecided={r.undecided:<3} floor={r.min_instances:<3} {r.text}')
    for f in matched:
        k = known_by_key[f.key]
        print(f'KNOWN-FINDING: property={rep.prop_id} {k.get("what_fails", f.message)}')
        print(f.text())
    replay_paths = []
    if new and write:
        os.makedirs(REPLAY_DIR, exist_ok=True)
    for f in new:
        path = os.path.join(REPLAY_DIR, f'{rep.prop_id}-{_slug(f.rule)}-{_slug(f.func)}-{_slug(f.construct)}.json')
        if write:
            with open(path, 'w', encoding='utf-8') as fh:
                json.dump({'property': rep.prop_id, 'finding': f.as_dict(),
                           'replay': f'cd /verif && /venv/bin/python -m sa.check {rep.prop_id} --replay {path}'},
                          fh, indent=1)
        replay_paths.append(path)
        print(f'VIOLATION property={rep.prop_id} replay={path}')
        print(f.text())
    st_errs = []
    if selftest:
        st_errs = selftest.get('errors', [])
        print(f'   self-test: {selftest.get("breaking_fired", 0)}/{selftest.get("breaking", 0)} breaking variants '
              f'fired, {selftest.get("twins_silent", 0)}/{selftest.get("twins", 0)} twins silent, '
              f'{selftest.get("skipped", 0)} not applicable to this tree')
    for e in errs + st_errs:
        print(f'ANALYSIS-ERROR property={rep.prop_id} {e}')

    if new:
        code = EXIT_VIOLATION
    elif errs or st_errs:
        code = EXIT_ANALYSIS_ERROR
    else:
        code = EXIT_OK

    samples: List[Any] = []
    for r in rep.rules.values():
        for s in r.samples[:3]:
            samples.append(dict(rule=r.name, **s))
    explanation = (
        'Static analysis of the current source of /repo (ast only; nothing imported or executed). '
        'Decided clauses: ' + ' | '.join(rep.decided) + '. Not decided (outside any sound static argument '
        'in reach): ' + ' | '.join(rep.not_decided) + '.')
    coverage: Dict[str, Any] = {
        'explanation': explanation,
        'obligations': obligations,
        'discharged': discharged,
        'refuted': len(rep.findings),
        'undecided': undecided,
        'evaluations': obligations,
        'distinct_nontrivial': len({(s['rule'], s['where'], s['obligation']) for s in samples}) if samples else 0,
        'rule': 'one obligation per (rule, construct) instance found in the analysed source; distinct_nontrivial '
                'counts the distinct sampled obligations written out below (a lower bound on distinct obligations)',
        'samples': samples[:40],
        'rules': {r.name: {'text': r.text, 'instances': r.instances, 'discharged': r.discharged,
                           'refuted': r.refuted, 'undecided': r.undecided, 'floor': r.min_instances}
                  for r in rep.rules.values()},
        'modules_analysed': sorted(rep.analysed_modules),
        'functions_analysed': sorted(rep.analysed_functions),
        'unresolved_calls': rep.unresolved[:50],
        'known_findings_matched': [f.as_dict() for f in matched],
        'violations_reported': [f.as_dict() for f in new],
        'analysis_errors': errs + st_errs,
        'notes': rep.notes[:80],
        'checker_cmd': f'cd /verif && /venv/bin/python -m sa.check {rep.prop_id} --tier {rep.tier}',
        'trusted_base': ['CPython ast module', 'the rule implementations under /verif/sa',
                         'oracle tables under /verif/sa/spec'],
    }
    coverage.update(rep.extra)
    if selftest:
        coverage['selftest'] = selftest
    ev = {
        'property_id': rep.prop_id,
        'tier': rep.tier,
        'seed': int(os.environ.get('VERIF_SEED', '0') or 0),
        'level': 'other',
        'coverage': coverage,
        'assumptions': rep.assumptions,
        'wall_s': round(wall, 3),
        'violations': len(new),
    }
    if write:
        os.makedirs(EVIDENCE_DIR, exist_ok=True)
        with open(os.path.join(EVIDENCE_DIR, f'{rep.prop_id}.json'), 'w', encoding='utf-8') as fh:
            json.dump(ev, fh, indent=1, default=str)
    print(f'== {rep.prop_id} exit {code} ({wall:.2f}s)')
    return code
