"""Static analysis of py-ballisticcalc: repository-specific rules over the syntax tree.

Nothing in this package imports or executes /repo.  Every rule reads a SourceSet
(an in-memory map path -> text of /repo's current working tree) and reports the
specific construct that refutes an obligation.
"""
