"""Engine D (part 1): exact algebraic normal forms.

A value is a rational function (RF) whose numerator and denominator are polynomials with
``Fraction`` coefficients over *atoms*: named symbols, applications of uninterpreted or
partially interpreted functions (``atan``, ``cos``, ``max`` ...) to normal forms, and sums raised
to a fractional power.  Monomials carry rational exponents (negative exponents are allowed, so
division by a monomial is exact).  Equality is decided exactly by cross multiplication.

No solver, no CAS, no path exploration: this is value numbering over the expression tree.
"""
from __future__ import annotations

import math
from fractions import Fraction
from typing import Dict, Iterable, List, Optional, Tuple, Union

Num = Union[int, Fraction]
Mono = Tuple[Tuple[int, Fraction], ...]


class Atom:
    __slots__ = ('id', 'kind', 'name', 'args', 'base')

    def __init__(self, kind: str, name: str, args: tuple = (), base: Optional['Poly'] = None):
        self.id = len(ATOMS)
        self.kind = kind      # 'sym' | 'fn' | 'sum'
        self.name = name
        self.args = args      # RFs for 'fn'
        self.base = base      # Poly for 'sum'
        ATOMS.append(self)

    def __repr__(self) -> str:
        if self.kind == 'sym':
            return self.name
        if self.kind == 'fn':
            return f'{self.name}({", ".join(map(repr, self.args))})'
        return f'({self.base!r})'


ATOMS: List[Atom] = []
_SYMS: Dict[str, Atom] = {}
_SUMS: Dict[tuple, Atom] = {}
_FNS: Dict[str, List[Atom]] = {}


def reset() -> None:
    """Forget all atoms (used between independent analyses to keep ids small)."""
    ATOMS.clear()
    _SYMS.clear()
    _SUMS.clear()
    _FNS.clear()


def F(x) -> Fraction:
    if isinstance(x, Fraction):
        return x
    if isinstance(x, bool):
        return Fraction(int(x))
    if isinstance(x, int):
        return Fraction(x)
    if isinstance(x, float):
        if x != x or x in (float('inf'), float('-inf')):
            raise ValueError('non-finite literal')
        return Fraction(repr(x))       # the decimal the source spells, exactly
    if isinstance(x, str):
        return Fraction(x)
    raise TypeError(type(x))


# --------------------------------------------------------------------------------------
# polynomials
# --------------------------------------------------------------------------------------

class Poly:
    __slots__ = ('terms',)

    def __init__(self, terms: Optional[Dict[Mono, Fraction]] = None):
        self.terms: Dict[Mono, Fraction] = {m: c for m, c in (terms or {}).items() if c != 0}

    # constructors
    @staticmethod
    def const(c: Num) -> 'Poly':
        c = F(c)
        return Poly({(): c}) if c != 0 else Poly()

    @staticmethod
    def atom(a: Atom, e: Num = 1) -> 'Poly':
        return Poly({((a.id, F(e)),): Fraction(1)})

    def key(self) -> tuple:
        return tuple(sorted(self.terms.items()))

    def is_zero(self) -> bool:
        return not self.terms

    def is_const(self) -> bool:
        return all(m == () for m in self.terms)

    def const_value(self) -> Fraction:
        assert self.is_const()
        return self.terms.get((), Fraction(0))

    def single_term(self) -> Optional[Tuple[Mono, Fraction]]:
        if len(self.terms) == 1:
            return next(iter(self.terms.items()))
        return None

    def __eq__(self, other) -> bool:
        return isinstance(other, Poly) and self.terms == other.terms

    def __hash__(self):
        return hash(self.key())

    def __neg__(self) -> 'Poly':
        return Poly({m: -c for m, c in self.terms.items()})

    def __add__(self, other: 'Poly') -> 'Poly':
        t = dict(self.terms)
        for m, c in other.terms.items():
            t[m] = t.get(m, 0) + c
        return Poly(t)

    def __sub__(self, other: 'Poly') -> 'Poly':
        return self + (-other)

    def scale(self, c: Num) -> 'Poly':
        c = F(c)
        return Poly({m: k * c for m, k in self.terms.items()})

    def __mul__(self, other: 'Poly') -> 'Poly':
        out: Dict[Mono, Fraction] = {}
        pending: List[Poly] = []
        for m1, c1 in self.terms.items():
            for m2, c2 in other.terms.items():
                mono, extra = _mono_mul(m1, m2)
                if extra is None:
                    out[mono] = out.get(mono, 0) + c1 * c2
                else:
                    pending.append(Poly({mono: c1 * c2}) * extra)
        res = Poly(out)
        for p in pending:
            res = res + p
        return res

    def __pow__(self, k: int) -> 'Poly':
        assert isinstance(k, int) and k >= 0
        res = Poly.const(1)
        base = self
        while k:
            if k & 1:
                res = res * base
            base = base * base if k > 1 else base
            k >>= 1
        return res

    def atoms(self) -> set:
        return {aid for m in self.terms for aid, _ in m}

    def lead(self) -> Tuple[Mono, Fraction]:
        m = min(self.terms)
        return m, self.terms[m]

    def __repr__(self) -> str:
        if not self.terms:
            return '0'
        parts = []
        for m, c in sorted(self.terms.items()):
            fs = []
            for aid, e in m:
                a = ATOMS[aid]
                fs.append(repr(a) if e == 1 else f'{a!r}^{e}')
            body = '*'.join(fs)
            if not body:
                parts.append(str(c))
            elif c == 1:
                parts.append(body)
            elif c == -1:
                parts.append('-' + body)
            else:
                parts.append(f'{c}*{body}')
        return ' + '.join(parts)


def _mono_mul(m1: Mono, m2: Mono) -> Tuple[Mono, Optional[Poly]]:
    if not m1 and not m2:
        return (), None
    d: Dict[int, Fraction] = dict(m1)
    for aid, e in m2:
        d[aid] = d.get(aid, 0) + e
    extra: Optional[Poly] = None
    for aid in list(d):
        e = d[aid]
        if e == 0:
            del d[aid]
            continue
        a = ATOMS[aid]
        if a.kind == 'sum':
            k = math.floor(e)
            if k >= 1:
                f = e - k
                if f == 0:
                    del d[aid]
                else:
                    d[aid] = f
                p = a.base ** k
                extra = p if extra is None else extra * p
    return tuple(sorted(d.items())), extra


# --------------------------------------------------------------------------------------
# rational functions
# --------------------------------------------------------------------------------------

ONE = Poly.const(1)


class RF:
    __slots__ = ('num', 'den')

    def __init__(self, num: Poly, den: Optional[Poly] = None):
        den = ONE if den is None else den
        if den.is_zero():
            raise ZeroDivisionError('normal form with zero denominator')
        st = den.single_term()
        if st is not None:
            mono, c = st
            if mono == () and c == 1:
                pass
            else:
                inv = Poly({tuple((aid, -e) for aid, e in mono): 1 / c})
                num = num * inv
                den = ONE
        num, den = _clear_negative_sums(num, den)
        if den.single_term() is None:
            _m, lc = den.lead()
            if lc < 0:
                num, den = -num, -den
        if num.is_zero():
            den = ONE
        elif den != ONE and len(num.terms) == len(den.terms) and set(num.terms) == set(den.terms):
            # proportional numerator and denominator reduce to a number
            it = iter(num.terms)
            m0 = next(it)
            k = num.terms[m0] / den.terms[m0]
            if all(num.terms[m] == k * den.terms[m] for m in it):
                num, den = Poly.const(k), ONE
        self.num = num
        self.den = den

    # -- constructors ------------------------------------------------------------------
    @staticmethod
    def const(c: Num) -> 'RF':
        return RF(Poly.const(c))

    @staticmethod
    def sym(name: str) -> 'RF':
        a = _SYMS.get(name)
        if a is None:
            a = _SYMS[name] = Atom('sym', name)
        return RF(Poly.atom(a))

    # -- predicates --------------------------------------------------------------------
    def is_zero(self) -> bool:
        return self.num.is_zero()

    def is_const(self) -> bool:
        return self.den == ONE and self.num.is_const()

    def const_value(self) -> Fraction:
        assert self.is_const()
        return self.num.const_value()

    def as_atom(self) -> Optional[Atom]:
        """The atom if this is exactly one atom with coefficient and exponent 1."""
        if self.den != ONE:
            return None
        st = self.num.single_term()
        if st is None:
            return None
        mono, c = st
        if c == 1 and len(mono) == 1 and mono[0][1] == 1:
            return ATOMS[mono[0][0]]
        return None

    def equals(self, other: 'RF') -> bool:
        if self.den == other.den:
            return self.num == other.num
        return (self.num * other.den - other.num * self.den).is_zero()

    def __eq__(self, other) -> bool:       # structural (used for hashing keys only)
        return isinstance(other, RF) and self.equals(other)

    def __hash__(self):
        return hash((self.num.key(), self.den.key()))

    # -- arithmetic --------------------------------------------------------------------
    def __neg__(self) -> 'RF':
        return RF(-self.num, self.den)

    def __add__(self, o: 'RF') -> 'RF':
        o = rf(o)
        if self.den == o.den:
            return RF(self.num + o.num, self.den)
        return RF(self.num * o.den + o.num * self.den, self.den * o.den)

    __radd__ = __add__

    def __sub__(self, o: 'RF') -> 'RF':
        return self + (-rf(o))

    def __rsub__(self, o) -> 'RF':
        return rf(o) - self

    def __mul__(self, o: 'RF') -> 'RF':
        o = rf(o)
        return RF(self.num * o.num, self.den * o.den)

    __rmul__ = __mul__

    def __truediv__(self, o: 'RF') -> 'RF':
        o = rf(o)
        if o.is_zero():
            raise ZeroDivisionError('division by the zero normal form')
        return RF(self.num * o.den, self.den * o.num)

    def __rtruediv__(self, o) -> 'RF':
        return rf(o) / self

    def __pow__(self, e) -> 'RF':
        if isinstance(e, RF):
            if not e.is_const():
                if self.is_const() and self.const_value() == 1:
                    return RF(ONE)
                return fn('pow', self, e)
            e = e.const_value()
        e = F(e)
        if e.denominator == 1:
            k = int(e)
            if k >= 0:
                return RF(self.num ** k, self.den ** k)
            if self.is_zero():
                raise ZeroDivisionError('0 ** negative')
            return RF(self.den ** (-k), self.num ** (-k))
        return _frac_pow(self.num, e) / _frac_pow(self.den, e)

    # -- inspection --------------------------------------------------------------------
    def atoms(self) -> set:
        return self.num.atoms() | self.den.atoms()

    def all_atoms(self) -> set:
        """Atoms occurring anywhere, including inside function arguments and sum bases."""
        out, todo = set(), list(self.atoms())
        while todo:
            aid = todo.pop()
            if aid in out:
                continue
            out.add(aid)
            a = ATOMS[aid]
            if a.kind == 'fn':
                for x in a.args:
                    todo += list(x.atoms())
            elif a.kind == 'sum':
                todo += list(a.base.atoms())
        return out

    def symbols(self) -> set:
        return {ATOMS[a].name for a in self.all_atoms() if ATOMS[a].kind == 'sym'}

    def functions(self) -> set:
        return {ATOMS[a].name for a in self.all_atoms() if ATOMS[a].kind == 'fn'}

    def depends_on(self, name: str) -> bool:
        return name in self.symbols()

    def __repr__(self) -> str:
        if self.den == ONE:
            return repr(self.num)
        return f'({self.num!r}) / ({self.den!r})'

    # -- substitution / evaluation ---------------------------------------------------
    def subs(self, mapping: Dict[str, 'RF']) -> 'RF':
        return _subs_poly(self.num, mapping) / _subs_poly(self.den, mapping)

    def map_atoms(self, f) -> 'RF':
        """Rebuild with ``f(atom) -> RF | None`` applied bottom-up (None keeps the atom)."""
        return _map_poly(self.num, f) / _map_poly(self.den, f)

    def evalf(self, env: Optional[Dict[str, float]] = None) -> float:
        env = type(env)(env) if isinstance(env, dict) else dict(env or {})      # a dict subclass keeps its __missing__
        env.setdefault('pi', math.pi)
        return _eval_poly(self.num, env) / _eval_poly(self.den, env)

    def coeffs_in(self, name: str) -> Optional[Dict[Fraction, 'RF']]:
        """Coefficients as a (Laurent) polynomial in symbol ``name``; None if the denominator or a
        function argument depends on it."""
        a = _SYMS.get(name)
        if a is None:
            return {Fraction(0): self}
        if a.id in self.den.atoms():
            return None
        for aid in self.all_atoms():
            at = ATOMS[aid]
            if at.kind != 'sym' and a.id in _deep_atoms(at):
                return None
        groups: Dict[Fraction, Dict[Mono, Fraction]] = {}
        for mono, c in self.num.terms.items():
            e = Fraction(0)
            rest = []
            for aid, ex in mono:
                if aid == a.id:
                    e = ex
                else:
                    rest.append((aid, ex))
            groups.setdefault(e, {})[tuple(rest)] = c
        return {e: RF(Poly(t), self.den) for e, t in groups.items()}


def _clear_negative_sums(num: Poly, den: Poly) -> Tuple[Poly, Poly]:
    """Keep fractional-power sums at exponents in [0, 1): (x+y)^(-1/2) becomes (x+y)^(1/2) / (x+y),
    so that 1/sqrt(s) and sqrt(s)/s share one normal form."""
    for _ in range(16):
        hit = None
        for side, p in (('num', num), ('den', den)):
            for mono in p.terms:
                for aid, e in mono:
                    if e < 0 and ATOMS[aid].kind == 'sum':
                        if hit is None or e < hit[2]:
                            hit = (side, aid, e)
        if hit is None:
            return num, den
        side, aid, e = hit
        if side == 'den' and any(e2 < 0 for m in num.terms for a2, e2 in m if a2 == aid):
            side = 'num'
            e = min(e2 for m in num.terms for a2, e2 in m if a2 == aid)
        a = ATOMS[aid]
        k = -math.floor(e)
        lift = Poly({((aid, Fraction(k)),): Fraction(1)})
        expanded = a.base ** k
        if side == 'num':
            num, den = num * lift, den * expanded
        else:
            den, num = den * lift, num * expanded
    return num, den


def _deep_atoms(at: Atom) -> set:
    out = set()
    if at.kind == 'fn':
        for x in at.args:
            out |= x.all_atoms()
    elif at.kind == 'sum':
        out |= RF(at.base).all_atoms()
    return out


def rf(x) -> RF:
    if isinstance(x, RF):
        return x
    return RF.const(x)


def sym(name: str) -> RF:
    return RF.sym(name)


def _perfect_power(c: Fraction, e: Fraction) -> Optional[Fraction]:
    """c ** e as an exact Fraction if it is one."""
    if c <= 0:
        return None
    p, q = e.numerator, e.denominator

    def root(n: int) -> Optional[int]:
        r = round(n ** (1.0 / q))
        for cand in (r - 1, r, r + 1):
            if cand >= 0 and cand ** q == n:
                return cand
        return None
    rn, rd = root(c.numerator), root(c.denominator)
    if rn is None or rd is None or rd == 0:
        return None
    base = Fraction(rn, rd)
    return base ** p if p >= 0 else (1 / base) ** (-p)


def _sum_atom(base: Poly) -> Atom:
    k = base.key()
    a = _SUMS.get(k)
    if a is None:
        a = _SUMS[k] = Atom('sum', 'sum', base=base)
    return a


def _frac_pow(p: Poly, e: Fraction) -> RF:
    if p == ONE:
        return RF(ONE)
    if p.is_zero():
        if e > 0:
            return RF(Poly())
        raise ZeroDivisionError('0 ** negative')
    st = p.single_term()
    if st is not None:
        mono, c = st
        out = RF(Poly({tuple((aid, ex * e) for aid, ex in mono): Fraction(1)})) if mono else RF(ONE)
        # exponents of sum atoms may have become >= 1: renormalise through a multiplication by one
        out = out * RF(ONE)
        if c != 1:
            pp = _perfect_power(c, e)
            out = out * (RF.const(pp) if pp is not None else _sum_pow(Poly.const(c), e))
        return out
    # multi-term: pull the content out so that proportional bases share one atom
    _m, lc = p.lead()
    content = abs(lc)
    monic = p.scale(1 / content)
    out = _sum_pow(monic, e)
    if content != 1:
        pp = _perfect_power(content, e)
        out = out * (RF.const(pp) if pp is not None else _sum_pow(Poly.const(content), e))
    return out


def _sum_pow(base: Poly, e: Fraction) -> RF:
    a = _sum_atom(base)
    k = math.floor(e)
    f = e - k
    res = RF(Poly.atom(a, f)) if f != 0 else RF(ONE)
    if k > 0:
        res = res * RF(base ** k)
    elif k < 0:
        res = res / RF(base ** (-k))
    return res


# --------------------------------------------------------------------------------------
# function atoms
# --------------------------------------------------------------------------------------

ODD = {'sin', 'tan', 'atan', 'asin', 'sinh', 'tanh'}
EVEN = {'cos', 'abs', 'cosh'}
COMMUTATIVE = {'max', 'min'}
INVERSE = {('tan', 'atan'), ('atan', 'tan'), ('exp', 'log'), ('log', 'exp'), ('sin', 'asin'), ('asin', 'sin')}
AT_ZERO = {'sin': 0, 'tan': 0, 'atan': 0, 'cos': 1, 'exp': 1, 'abs': 0, 'asin': 0, 'sinh': 0, 'tanh': 0, 'cosh': 1}


def _negative_lead(x: RF) -> bool:
    if x.is_zero():
        return False
    _m, c = x.num.lead()
    return c < 0


def fn(name: str, *args) -> RF:
    args = tuple(rf(a) for a in args)
    if name == 'sqrt':
        return args[0] ** Fraction(1, 2)
    if name == 'pow' and len(args) == 2:
        if args[0].is_const() and args[0].const_value() == 1:
            return RF(ONE)
        if args[1].is_const():
            return args[0] ** args[1].const_value()
    if len(args) == 1:
        x = args[0]
        if x.is_zero() and name in AT_ZERO:
            return RF.const(AT_ZERO[name])
        if name == 'abs' and x.is_const():
            return RF.const(abs(x.const_value()))
        inner = x.as_atom()
        if inner is not None and inner.kind == 'fn' and (name, inner.name) in INVERSE and len(inner.args) == 1:
            return inner.args[0]
        # conversions through one and the same unknown unit are mutual inverses: to_raw[U](from_raw[U](x)) = x
        if inner is not None and inner.kind == 'fn' and len(inner.args) == 1 and '[' in name and \
                {name.split('[')[0], inner.name.split('[')[0]} == {'to_raw', 'from_raw'} and \
                name.split('[', 1)[1] == inner.name.split('[', 1)[1]:
            return inner.args[0]
        if name in ODD and _negative_lead(x):
            return -fn(name, -x)
        if name in EVEN and _negative_lead(x):
            return fn(name, -x)
    if name in COMMUTATIVE:
        if all(a.is_const() for a in args):
            vals = [a.const_value() for a in args]
            return RF.const(max(vals) if name == 'max' else min(vals))
        args = tuple(sorted(args, key=lambda a: (a.num.key(), a.den.key())))
    for a in _FNS.get(name, []):
        if len(a.args) == len(args) and all(x.equals(y) for x, y in zip(a.args, args)):
            return RF(Poly.atom(a))
    a = Atom('fn', name, args)
    _FNS.setdefault(name, []).append(a)
    return RF(Poly.atom(a))


# --------------------------------------------------------------------------------------
# substitution and numeric evaluation
# --------------------------------------------------------------------------------------

def _subs_atom(a: Atom, mapping: Dict[str, RF]) -> RF:
    if a.kind == 'sym':
        return mapping.get(a.name, RF(Poly.atom(a)))
    if a.kind == 'fn':
        return fn(a.name, *[x.subs(mapping) for x in a.args])
    return _subs_poly(a.base, mapping)


def _subs_poly(p: Poly, mapping: Dict[str, RF]) -> RF:
    total = RF(Poly())
    cache: Dict[int, RF] = {}
    for mono, c in p.terms.items():
        term = RF.const(c)
        for aid, e in mono:
            if aid not in cache:
                cache[aid] = _subs_atom(ATOMS[aid], mapping)
            term = term * (cache[aid] ** e)
        total = total + term
    return total


def _map_atom(a: Atom, f) -> RF:
    if a.kind == 'sym':
        r = f(a)
        return r if r is not None else RF(Poly.atom(a))
    if a.kind == 'fn':
        rebuilt = fn(a.name, *[x.map_atoms(f) for x in a.args])
        at = rebuilt.as_atom()
        if at is not None:
            r = f(at)
            if r is not None:
                return r
        return rebuilt
    return _map_poly(a.base, f)


def _map_poly(p: Poly, f) -> RF:
    total = RF(Poly())
    cache: Dict[int, RF] = {}
    for mono, c in p.terms.items():
        term = RF.const(c)
        for aid, e in mono:
            if aid not in cache:
                cache[aid] = _map_atom(ATOMS[aid], f)
            term = term * (cache[aid] ** e)
        total = total + term
    return total


_MATH = {'copysign': math.copysign, 'hypot': math.hypot, 'acos': math.acos, 'floor': math.floor, 'ceil': math.ceil,
         'floordiv': lambda a, b: a // b, 'mod': lambda a, b: a % b, 'int': lambda a: float(int(a)),
         'round': lambda *a: float(round(*a)), 'sin': math.sin, 'cos': math.cos, 'tan': math.tan, 'atan': math.atan, 'exp': math.exp,
         'log': math.log, 'abs': abs, 'max': max, 'min': min, 'atan2': math.atan2, 'asin': math.asin,
         'pow': math.pow}


def _eval_atom(a: Atom, env: Dict[str, float]) -> float:
    if a.kind == 'sym':
        return env[a.name]
    if a.kind == 'fn':
        if a.name not in _MATH:
            key = repr(a)
            if key in env:
                return env[key]
            raise KeyError(a.name)
        return _MATH[a.name](*[x.evalf(env) for x in a.args])
    return _eval_poly(a.base, env)


def _eval_poly(p: Poly, env: Dict[str, float]) -> float:
    total = 0.0
    for mono, c in p.terms.items():
        t = float(c)
        for aid, e in mono:
            t *= _eval_atom(ATOMS[aid], env) ** float(e)
        total += t
    return total


# --------------------------------------------------------------------------------------
# comparisons used by the rules
# --------------------------------------------------------------------------------------

def approx_equal(a: RF, b: RF, rel_tol: float) -> bool:
    """Same normal form up to a relative perturbation ``rel_tol`` of every coefficient
    (used only when a rule compares against a physical constant)."""
    if a.equals(b):
        return True
    p = a.num * b.den
    q = b.num * a.den
    if set(p.terms) != set(q.terms):
        # a constant may hide inside pi-polynomials: fall back to the numeric ratio when both sides
        # are proportional with a numeric factor
        r = ratio_const(a, b)
        return r is not None and abs(r - 1.0) <= rel_tol
    for m, c in p.terms.items():
        d = q.terms[m]
        if c == d:
            continue
        if d == 0 or abs(float(c) / float(d) - 1.0) > rel_tol:
            return False
    return True


def numeric(x: RF) -> Optional[float]:
    """Float value if ``x`` contains nothing but numbers, pi and interpreted functions of those."""
    try:
        return x.evalf({})
    except (KeyError, ZeroDivisionError, ValueError, OverflowError):
        return None


def ratio_const(a: RF, b: RF) -> Optional[float]:
    """a / b as a float when the quotient is a pure number, else None."""
    if b.is_zero():
        return None
    q = a / b
    v = numeric(q)
    if v is not None:
        return v
    # proportional numerator / denominator with multi-term polynomials
    if q.den != ONE:
        if set(q.num.terms) == set(q.den.terms):
            ratios = [float(q.num.terms[m] / q.den.terms[m]) for m in q.num.terms]
            if max(ratios) - min(ratios) <= 1e-12 * max(1.0, abs(ratios[0])):
                return ratios[0]
    return None
