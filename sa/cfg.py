"""Engine B: statement-level control-flow graph, dominators, reaching definitions, dependences and
a small typestate runner.  Hand-built for the statement kinds the package uses."""
from __future__ import annotations

import ast
from typing import Callable, Dict, FrozenSet, Iterable, List, Optional, Set, Tuple

from .loader import AnalysisError, norm


class Node:
    __slots__ = ('id', 'kind', 'ast', 'succ', 'pred', 'loop')

    def __init__(self, nid: int, kind: str, node: Optional[ast.AST]):
        self.id = nid
        self.kind = kind          # entry | exit | raise | stmt | test | for | with | def
        self.ast = node
        self.succ: List[Tuple['Node', str]] = []
        self.pred: List[Tuple['Node', str]] = []
        self.loop: Optional['Node'] = None      # innermost enclosing loop header

    @property
    def line(self) -> int:
        return getattr(self.ast, 'lineno', 0)

    def text(self) -> str:
        if self.ast is None:
            return self.kind
        if self.kind == 'test':
            return f'test {norm(self.ast)}'
        if self.kind == 'for':
            return f'for {norm(self.ast.target)} in {norm(self.ast.iter)}'
        if self.kind == 'with':
            return 'with ' + ', '.join(norm(i) for i in self.ast.items)
        if self.kind == 'def':
            return f'def {self.ast.name}'
        return norm(self.ast)

    def __repr__(self) -> str:
        return f'<{self.id}:{self.text()[:50]}>'


class CFG:
    def __init__(self, fn: ast.AST):
        self.fn = fn
        self.nodes: List[Node] = []
        self.entry = self._new('entry', None)
        self.exit = self._new('exit', None)
        self.raise_exit = self._new('raise', None)
        self._loops: List[Tuple[Node, List[Node]]] = []     # (header, break sources)
        self._handlers: List[List[Node]] = []
        frontier = self._block(fn.body, [(self.entry, '')])
        for n, lab in frontier:
            self._edge(n, self.exit, lab)
        self._by_ast: Dict[int, Node] = {id(n.ast): n for n in self.nodes if n.ast is not None}

    # -- construction ------------------------------------------------------------------
    def _new(self, kind: str, node) -> Node:
        n = Node(len(self.nodes), kind, node)
        if getattr(self, '_loops', None):
            n.loop = self._loops[-1][0]
        self.nodes.append(n)
        return n

    @staticmethod
    def _edge(a: Node, b: Node, label: str = '') -> None:
        if all(not (s is b and l == label) for s, l in a.succ):
            a.succ.append((b, label))
            b.pred.append((a, label))

    def _connect(self, frontier, node: Node) -> None:
        for n, lab in frontier:
            self._edge(n, node, lab)

    def _block(self, stmts, frontier):
        for s in stmts:
            frontier = self._stmt(s, frontier)
        return frontier

    def _may_raise_to_handlers(self, node: Node) -> None:
        for hs in self._handlers[-1:] if self._handlers else []:
            for h in hs:
                self._edge(node, h, 'exc')

    def _stmt(self, s, frontier):
        if isinstance(s, ast.If):
            t = self._new('test', s.test)
            t.ast = s.test
            self._connect(frontier, t)
            self._may_raise_to_handlers(t)
            a = self._block(s.body, [(t, 'T')])
            b = self._block(s.orelse, [(t, 'F')]) if s.orelse else [(t, 'F')]
            return a + b
        if isinstance(s, ast.While):
            t = self._new('test', s.test)
            self._connect(frontier, t)
            self._loops.append((t, []))
            t.loop = self._loops[-2][0] if len(self._loops) > 1 else None
            body_end = self._block(s.body, [(t, 'T')])
            self._connect(body_end, t)
            _h, breaks = self._loops.pop()
            out = self._block(s.orelse, [(t, 'F')]) if s.orelse else [(t, 'F')]
            return out + [(b, '') for b in breaks]
        if isinstance(s, (ast.For, ast.AsyncFor)):
            t = self._new('for', s)
            self._connect(frontier, t)
            self._loops.append((t, []))
            t.loop = self._loops[-2][0] if len(self._loops) > 1 else None
            body_end = self._block(s.body, [(t, 'T')])
            self._connect(body_end, t)
            _h, breaks = self._loops.pop()
            out = self._block(s.orelse, [(t, 'F')]) if s.orelse else [(t, 'F')]
            return out + [(b, '') for b in breaks]
        if isinstance(s, ast.Break):
            n = self._new('stmt', s)
            self._connect(frontier, n)
            if not self._loops:
                raise AnalysisError('break outside loop')
            self._loops[-1][1].append(n)
            return []
        if isinstance(s, ast.Continue):
            n = self._new('stmt', s)
            self._connect(frontier, n)
            self._edge(n, self._loops[-1][0])
            return []
        if isinstance(s, ast.Return):
            n = self._new('stmt', s)
            self._connect(frontier, n)
            self._may_raise_to_handlers(n)
            self._edge(n, self.exit, 'return')
            return []
        if isinstance(s, ast.Raise):
            n = self._new('stmt', s)
            self._connect(frontier, n)
            if self._handlers and self._handlers[-1]:
                for h in self._handlers[-1]:
                    self._edge(n, h, 'exc')
            else:
                self._edge(n, self.raise_exit, 'raise')
            return []
        if isinstance(s, ast.Try):
            hnodes = []
            for h in s.handlers:
                hn = self._new('stmt', h)
                hn.kind = 'handler'
                hnodes.append(hn)
            self._handlers.append(hnodes)
            body_end = self._block(s.body, frontier)
            self._handlers.pop()
            out = self._block(s.orelse, body_end) if s.orelse else body_end
            for h, hn in zip(s.handlers, hnodes):
                # entering the try at all may end in the handler
                for n, lab in frontier:
                    self._edge(n, hn, 'exc')
                out = out + self._block(h.body, [(hn, '')])
            if s.finalbody:
                out = self._block(s.finalbody, out)
            return out
        if isinstance(s, (ast.With, ast.AsyncWith)):
            n = self._new('with', s)
            self._connect(frontier, n)
            return self._block(s.body, [(n, '')])
        if isinstance(s, (ast.FunctionDef, ast.AsyncFunctionDef, ast.ClassDef)):
            n = self._new('def', s)
            self._connect(frontier, n)
            return [(n, '')]
        if isinstance(s, ast.Match):
            raise AnalysisError('match statement not supported by the CFG builder')
        n = self._new('stmt', s)
        self._connect(frontier, n)
        self._may_raise_to_handlers(n)
        return [(n, '')]

    # -- queries -----------------------------------------------------------------------
    def node_of(self, a: ast.AST) -> Optional[Node]:
        """CFG node holding ast node ``a`` (or the statement/test enclosing it)."""
        cur = a
        while cur is not None:
            n = self._by_ast.get(id(cur))
            if n is not None:
                return n
            cur = getattr(cur, '_parent', None)
            if cur is self.fn:
                return None
        return None

    def stmts(self) -> Iterable[Node]:
        return (n for n in self.nodes if n.ast is not None)

    def reachable_from(self, start: Node, skip: Optional[Callable[[Node], bool]] = None,
                       forward: bool = True) -> Set[int]:
        seen, todo = set(), [start]
        while todo:
            n = todo.pop()
            if n.id in seen:
                continue
            seen.add(n.id)
            for m, _l in (n.succ if forward else n.pred):
                if skip is not None and skip(m):
                    continue
                todo.append(m)
        return seen

    # -- dominators ----------------------------------------------------------------------
    def dominators(self, post: bool = False) -> Dict[int, Set[int]]:
        if post:
            # virtual sink joining normal and raising exits
            roots = [self.exit, self.raise_exit]
            preds = lambda n: [m for m, _ in n.succ]
        else:
            roots = [self.entry]
            preds = lambda n: [m for m, _ in n.pred]
        allids = {n.id for n in self.nodes}
        dom: Dict[int, Set[int]] = {}
        for n in self.nodes:
            dom[n.id] = {n.id} if n in roots else set(allids)
        changed = True
        while changed:
            changed = False
            for n in self.nodes:
                if n in roots:
                    continue
                ps = [dom[p.id] for p in preds(n)]
                new = set.intersection(*ps) if ps else set()
                new = new | {n.id}
                if new != dom[n.id]:
                    dom[n.id] = new
                    changed = True
        return dom

    def control_dependence(self) -> Dict[int, Set[Tuple[int, str]]]:
        """node id -> {(test node id, edge label)} it is directly control dependent on."""
        pdom = self.dominators(post=True)
        cd: Dict[int, Set[Tuple[int, str]]] = {n.id: set() for n in self.nodes}
        for t in self.nodes:
            if len(t.succ) < 2:
                continue
            for s, lab in t.succ:
                # nodes that post-dominate s but do not strictly post-dominate t
                for nid in pdom[s.id]:
                    if nid == t.id or nid not in pdom[t.id]:
                        cd[nid].add((t.id, lab))
        return cd


# --------------------------------------------------------------------------------------
# definitions and uses
# --------------------------------------------------------------------------------------

def loc_of(node: ast.AST) -> Optional[str]:
    """Storage location name for a Name or a dotted attribute chain rooted at a Name."""
    if isinstance(node, ast.Name):
        return node.id
    if isinstance(node, ast.Attribute):
        base = loc_of(node.value)
        if base is not None:
            return f'{base}.{node.attr}'
    return None


def _target_locs(t: ast.AST) -> List[str]:
    out = []
    if isinstance(t, (ast.Tuple, ast.List)):
        for e in t.elts:
            out += _target_locs(e)
    elif isinstance(t, ast.Starred):
        out += _target_locs(t.value)
    elif isinstance(t, ast.Subscript):
        pass                      # element store: not a (re)definition of the container name
    else:
        l = loc_of(t)
        if l is not None:
            out.append(l)
    return out


def _expr_roots(n: Node) -> List[ast.AST]:
    a = n.ast
    if a is None:
        return []
    if n.kind == 'test':
        return [a]
    if n.kind == 'for':
        return [a.iter]
    if n.kind == 'with':
        return [i.context_expr for i in a.items]
    if n.kind in ('def', 'handler'):
        return []
    return [a]


def defs_of(n: Node) -> List[str]:
    a = n.ast
    out: List[str] = []
    if a is None:
        return out
    if n.kind == 'for':
        out += _target_locs(a.target)
    elif n.kind == 'with':
        for i in a.items:
            if i.optional_vars is not None:
                out += _target_locs(i.optional_vars)
    elif n.kind == 'def':
        out.append(a.name)
    elif n.kind == 'handler':
        if a.name:
            out.append(a.name)
    elif isinstance(a, ast.Assign):
        for t in a.targets:
            out += _target_locs(t)
    elif isinstance(a, (ast.AugAssign, ast.AnnAssign)):
        if not (isinstance(a, ast.AnnAssign) and a.value is None):
            out += _target_locs(a.target)
    elif isinstance(a, (ast.Import, ast.ImportFrom)):
        out += [(x.asname or x.name).split('.')[0] for x in a.names]
    for root in _expr_roots(n):
        for x in ast.walk(root):
            if isinstance(x, ast.NamedExpr):
                out += _target_locs(x.target)
    return out


def uses_of(n: Node) -> Set[str]:
    """Locations read by the node: names and dotted chains (every prefix counts as read)."""
    out: Set[str] = set()
    roots = list(_expr_roots(n))
    a = n.ast
    if isinstance(a, ast.AugAssign):
        l = loc_of(a.target)
        if l:
            out.add(l)
    for root in roots:
        for x in ast.walk(root):
            if isinstance(x, (ast.FunctionDef, ast.AsyncFunctionDef)):
                continue
            if isinstance(x, ast.Name) and isinstance(x.ctx, ast.Load):
                out.add(x.id)
            elif isinstance(x, ast.Attribute) and isinstance(x.ctx, ast.Load):
                l = loc_of(x)
                if l:
                    out.add(l)
            elif isinstance(x, ast.Attribute) and isinstance(x.ctx, ast.Store):
                # storing a.b reads a
                l = loc_of(x.value)
                if l:
                    out.add(l)
    return out


def reaching_definitions(cfg: CFG, params: Iterable[str] = ()) -> Dict[int, Dict[str, Set[int]]]:
    """IN sets: node id -> location -> ids of defining nodes (entry node id = parameter / outer)."""
    gen: Dict[int, List[str]] = {n.id: defs_of(n) for n in cfg.nodes}
    gen[cfg.entry.id] = list(params)
    IN: Dict[int, Dict[str, Set[int]]] = {n.id: {} for n in cfg.nodes}
    OUT: Dict[int, Dict[str, Set[int]]] = {n.id: {} for n in cfg.nodes}
    work = list(cfg.nodes)
    while work:
        n = work.pop(0)
        inn: Dict[str, Set[int]] = {}
        for p, _l in n.pred:
            for loc, ds in OUT[p.id].items():
                inn.setdefault(loc, set()).update(ds)
        IN[n.id] = inn
        out = {loc: set(ds) for loc, ds in inn.items()}
        for loc in gen[n.id]:
            # a definition of a.b also kills what was known about a.b.c
            for k in [k for k in out if k == loc or k.startswith(loc + '.')]:
                del out[k]
            out[loc] = {n.id}
        if out != OUT[n.id]:
            OUT[n.id] = out
            for s, _l in n.succ:
                if s not in work:
                    work.append(s)
    return IN


# --------------------------------------------------------------------------------------
# dependence slices
# --------------------------------------------------------------------------------------

class Deps:
    """Data + control dependence inside one function."""

    def __init__(self, cfg: CFG, params: Iterable[str] = ()):
        self.cfg = cfg
        self.params = list(params)
        self.rd = reaching_definitions(cfg, params)
        self.cd = cfg.control_dependence()
        self.uses = {n.id: uses_of(n) for n in cfg.nodes}
        self.defs = {n.id: defs_of(n) for n in cfg.nodes}

    def data_preds(self, nid: int) -> Set[Tuple[int, str]]:
        """(defining node id, location) pairs whose value node ``nid`` reads."""
        out: Set[Tuple[int, str]] = set()
        for loc in self.uses[nid]:
            for cand, ds in self.rd[nid].items():
                # reading a.b.c depends on definitions of a.b.c, a.b and a; reading a depends on a only
                if cand == loc or loc.startswith(cand + '.'):
                    for d in ds:
                        out.add((d, cand))
        return out

    def backward_slice(self, nid: int, control: bool = True,
                       skip_control: Optional[Callable[[int, int, str], bool]] = None) -> Dict[int, List[int]]:
        """All nodes ``nid`` transitively depends on.  Returns node id -> predecessor chain."""
        chain: Dict[int, List[int]] = {nid: [nid]}
        todo = [nid]
        while todo:
            cur = todo.pop()
            nxt: List[int] = [d for d, _loc in self.data_preds(cur)]
            if control:
                for t, lab in self.cd[cur]:
                    if skip_control is not None and skip_control(cur, t, lab):
                        continue
                    nxt.append(t)
            for m in nxt:
                if m not in chain:
                    chain[m] = chain[cur] + [m]
                    todo.append(m)
        return chain


# --------------------------------------------------------------------------------------
# typestate
# --------------------------------------------------------------------------------------

def run_typestate(cfg: CFG, init, transfer: Callable[[Node, object], object],
                  branch: Optional[Callable[[Node, object, str], object]] = None,
                  max_states: int = 4000) -> Dict[int, Set[object]]:
    """Propagate a finite set of abstract states.  ``transfer(node, state)`` gives the state after
    the node; ``branch(node, state, label)`` refines it along an outgoing edge (None = edge not
    taken in that state).  Returns the set of states at the entry of every node."""
    at: Dict[int, Set[object]] = {n.id: set() for n in cfg.nodes}
    at[cfg.entry.id].add(init)
    work: List[Tuple[Node, object]] = [(cfg.entry, init)]
    count = 0
    while work:
        n, s = work.pop()
        count += 1
        if count > max_states * 50:
            raise AnalysisError('typestate did not converge')
        after = transfer(n, s)
        if after is None:
            continue
        for m, lab in n.succ:
            s2 = branch(n, after, lab) if branch is not None else after
            if s2 is None:
                continue
            if s2 not in at[m.id]:
                at[m.id].add(s2)
                if len(at[m.id]) > max_states:
                    raise AnalysisError('typestate state explosion')
                work.append((m, s2))
    return at
